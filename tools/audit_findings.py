#!/usr/bin/env python3
"""Audit helper (run by hand, never by a check): which open entries of KNOWN_FINDINGS.json were NOT observed on the
unchanged tree?  An open entry must correspond to a violation the checks really report on /repo's committed tree;
one that never fires is either fixed meanwhile or was adopted by mistake, and would silently mask a regression.

usage: tools/audit_findings.py <dir with saved evidence files <Cxx>.<tier>.json> [--purge Cxx ...]
Only properties for which BOTH tiers (or, with --quick-only-ok, at least quick) were saved are judged."""
import json, glob, os, sys
root = os.path.dirname(os.path.dirname(os.path.abspath(__file__)))
d = sys.argv[1]
purge = set()
if '--purge' in sys.argv:
    purge = set(sys.argv[sys.argv.index('--purge') + 1:])
observed, tiers = {}, {}
for f in glob.glob(os.path.join(d, 'C*.json')):
    pid, tier = os.path.basename(f).split('.')[:2]
    e = json.load(open(f))
    if '/repo' not in json.dumps(e.get('coverage', {}).get('tree', '/repo')):
        continue
    observed.setdefault(pid, set()).update(e['coverage'].get('known_findings_observed') or [])
    tiers.setdefault(pid, set()).add(tier)
kf = os.path.join(root, 'KNOWN_FINDINGS.json')
data = json.load(open(kf))
keep, dropped = [], 0
for x in data['findings']:
    pid = x['property']
    if x['status'] == 'open' and pid in observed and x['signature'] not in observed[pid]:
        both = tiers[pid] >= {'quick', 'thorough'}
        print(('NOT-OBSERVED ' if both else 'not-observed(quick only) ') + pid, x['signature'][:220])
        if pid in purge and both:
            dropped += 1
            continue
    keep.append(x)
if purge:
    data['findings'] = keep
    json.dump(data, open(kf, 'w'), indent=1, ensure_ascii=False)
    print('purged', dropped, 'left', len(keep))
