#!/bin/bash
# usage: tools/try_patch.sh <patch.diff> <Cxx> [<Cyy> ...]
# Applies a seeded change to a scratch worktree of /repo (never to /repo itself), runs the given quick checks
# against that worktree and removes the worktree. Prints one line per check: "<id> rc=<exit> new=<n>".
set -u
PATCH="$(readlink -f "$1")"; shift
VERIF="$(cd "$(dirname "$0")/.." && pwd)"
WT="/var/tmp/trypatch.$$"
git -C /repo worktree add -q --detach "$WT" HEAD || exit 2
trap 'git -C /repo worktree remove --force "$WT" >/dev/null 2>&1' EXIT
git -C "$WT" apply "$PATCH" || { echo "patch does not apply"; exit 2; }
( cd "$WT" && GOFLAGS=-mod=mod GOPROXY=off go build ./... ) || { echo "patched tree does not build"; exit 2; }
for c in "$@"; do
  out="$(VERIF_REPO="$WT" VERIF_NOEVIDENCE=1 "$VERIF/run.sh" "$c" quick 2>&1)"; rc=$?
  echo "$c rc=$rc $(echo "$out" | grep -a "^$c quick" | tail -1)"
  echo "$out" | grep -a "signature:" | head -8
done
