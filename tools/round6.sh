#!/bin/bash
# usage: tools/round6.sh <NAME> <Cxx> [<Cyy>...]  — confirm a round-6 seed, then run the given quick checks against it (scratch worktree)
N=$1; shift
cd "$(dirname "$0")/.."
{ tools/confirm6.sh $N 2>&1 | tail -n 1; tools/try_patch.sh /var/tmp/mut6/$N.out/patch.diff "$@" 2>&1 | cut -c1-400; } > /var/tmp/mut6/$N.result 2>&1
