#!/bin/bash
# usage: tools/benign6.sh <Nk> <patch-number> <Cxx>...   — a behaviour-preserving change must raise no alarm:
# applies /var/tmp/mut6/<Nk>.out/patch<k>.diff to a scratch worktree, checks build + suite, runs the quick checks against it.
N=$1; K=$2; shift; shift
cd "$(dirname "$0")/.."
P=${BENIGN_DIR:-/verif/benign}/$N/patch$K.diff
R=${BENIGN_OUT:-/var/tmp}/$N.p$K.result
WT=/var/tmp/benign.$N.$K
export GOFLAGS=-mod=mod GOPROXY=off; unset GOSUMDB GOTOOLCHAIN
git -C /repo worktree add -q --detach $WT HEAD || exit 2
{
  git -C $WT apply $P || echo "APPLY-FAIL"
  ( cd $WT && go build ./... && go test -vet=off -count=1 ./... 2>&1 | grep -E "^(ok|FAIL|---)" | tr '\n' ' ' ); echo
} > $R 2>&1
git -C /repo worktree remove --force $WT
tools/try_patch.sh $P "$@" 2>&1 | cut -c1-400 >> $R
