#!/bin/bash
# usage: tools/run_seeded.sh [<seed-dir-name> ...]      (default: every directory under seeded/)
# Re-validates the stored seeded changes against the quick tier of the property each was written for.
# For every seed: a scratch worktree of /repo at HEAD (or, when the patch no longer applies there, at the seed's
# base commit); the check runs once WITHOUT and once WITH the change; the seed counts as detected when the run
# with the change reports a violation signature the run without it does not.  One line per seed on stdout:
#   <seed> <property> <tree> detected|NOT-DETECTED|no-longer-applicable  new-signatures=<n>
# /repo itself is never touched.
set -u
VERIF="$(cd "$(dirname "$0")/.." && pwd)"
cd "$VERIF"
seeds=("$@"); [ ${#seeds[@]} -eq 0 ] && seeds=($(ls seeded | grep -v RESULTS))
for s in "${seeds[@]}"; do
  d="seeded/$s"; [ -f "$d/patch.diff" ] || continue
  prop=$(python3 -c "import json;print(json.load(open('$d/meta.json'))['property'])")
  base=$(python3 -c "import json;print(json.load(open('$d/meta.json')).get('base_commit','HEAD'))")
  WT="/var/tmp/seedrun.$$.$s"
  tree=HEAD
  git -C /repo worktree add -q --detach "$WT" HEAD 2>/dev/null || { echo "$s $prop - worktree-failed"; continue; }
  if ! git -C "$WT" apply --check "$VERIF/$d/patch.diff" 2>/dev/null; then
    git -C /repo worktree remove --force "$WT" >/dev/null 2>&1
    git -C /repo worktree add -q --detach "$WT" "$base" 2>/dev/null || { echo "$s $prop $base worktree-failed"; continue; }
    tree=$base
    if ! git -C "$WT" apply --check "$VERIF/$d/patch.diff" 2>/dev/null; then
      echo "$s $prop $tree patch-does-not-apply"; git -C /repo worktree remove --force "$WT" >/dev/null 2>&1; continue
    fi
  fi
  sigs() { VERIF_REPO="$WT" VERIF_NOEVIDENCE=1 timeout 3600 "$VERIF/run.sh" "$prop" quick 2>&1 | grep -a "^  signature:" | sort -u; }
  if [ "$tree" = HEAD ]; then : > "/var/tmp/seedrun.$$.s0"; else sigs > "/var/tmp/seedrun.$$.s0"; fi
  git -C "$WT" apply "$VERIF/$d/patch.diff"
  if ! ( cd "$WT" && GOFLAGS=-mod=mod GOPROXY=off go build ./... ) >/dev/null 2>&1; then
    echo "$s $prop $tree does-not-build"; git -C /repo worktree remove --force "$WT" >/dev/null 2>&1; continue
  fi
  sigs > "/var/tmp/seedrun.$$.s1"
  n=$(comm -13 "/var/tmp/seedrun.$$.s0" "/var/tmp/seedrun.$$.s1" | wc -l)
  if [ "$n" -gt 0 ]; then v=detected; else v=NOT-DETECTED; fi
  echo "$s $prop $tree $v new-signatures=$n"
  git -C /repo worktree remove --force "$WT" >/dev/null 2>&1
  rm -f "/var/tmp/seedrun.$$.s0" "/var/tmp/seedrun.$$.s1"
done
