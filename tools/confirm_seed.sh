#!/bin/bash
# usage: tools/confirm_seed.sh <ID> <A|B>   — re-confirms a seeded change in its scratch worktree /var/tmp/mut/<ID>
set -u
ID=$1; V=$2; WT=/var/tmp/mut/$ID; OUT=/var/tmp/mut/$ID.out${OUTSUF:-}/$V
export GOFLAGS=-mod=mod GOPROXY=off; unset GOSUMDB GOTOOLCHAIN
cd $WT || exit 2
git checkout -q -- . ; git status --short | grep -v '^??' && { echo "worktree dirty"; exit 2; }
git apply $OUT/patch.diff || { echo "APPLY-FAIL"; exit 2; }
go build ./... || { echo "BUILD-FAIL"; git checkout -q -- .; exit 1; }
t=$(go test -vet=off -count=1 ./... 2>&1 | grep -E "^(ok|FAIL)" | tr '\n' ' ')
if [ -f $OUT/demo.sh ]; then ( cd $OUT && WT=$WT bash ./demo.sh >/var/tmp/mut/$ID.$V.with.log 2>&1 ); with=$?; else with=NA; fi
git checkout -q -- .
if [ -f $OUT/demo.sh ]; then ( cd $OUT && WT=$WT bash ./demo.sh >/var/tmp/mut/$ID.$V.without.log 2>&1 ); without=$?; else without=NA; fi
echo "$ID $V tests=[$t] demo_with=$with demo_without=$without"
