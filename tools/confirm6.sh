#!/bin/bash
# usage: tools/confirm6.sh <NAME>     e.g. C01A — re-confirms a round-6 seeded change in a scratch worktree /var/tmp/mut6/<NAME> (create it with git worktree add; outputs in /var/tmp/mut6/<NAME>.out)
# (output directory /var/tmp/mut6/<NAME>.out holds patch.diff and demo.sh): applies, builds, runs the unedited suite, runs the
# demonstration with and without the change.
set -u
N=$1; WT=/var/tmp/mut6/$N; OUT=/var/tmp/mut6/$N.out
export GOFLAGS=-mod=mod GOPROXY=off; unset GOSUMDB GOTOOLCHAIN
cd $WT || exit 2
git checkout -q -- . ; git status --short | grep -v '^??' && { echo "worktree dirty"; exit 2; }
git apply $OUT/patch.diff || { echo "$N APPLY-FAIL"; exit 2; }
go build ./... || { echo "$N BUILD-FAIL"; git checkout -q -- .; exit 1; }
t=$(go test -vet=off -count=1 ./... 2>&1 | grep -E "^(ok|FAIL|---)" | tr '\n' ' ')
( cd $OUT && WT=$WT timeout 600 bash ./demo.sh >/var/tmp/mut6/$N.with.log 2>&1 ); with=$?
git checkout -q -- .
( cd $OUT && WT=$WT timeout 600 bash ./demo.sh >/var/tmp/mut6/$N.without.log 2>&1 ); without=$?
rm -rf $OUT/tmp
echo "$N tests=[$t] demo_with=$with demo_without=$without files=$(git apply --numstat $OUT/patch.diff | awk '{printf "%s(+%s-%s) ",$3,$1,$2}')"
