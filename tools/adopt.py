#!/usr/bin/env python3
"""Triage helper (run by hand, never by a check): copy reviewed violations from replays/ into KNOWN_FINDINGS.json.
usage: tools/adopt.py C09 [C10 ...]     adopts every replays/<id>-*.json of those properties as an open finding
"""
import json, glob, sys, os
root = os.path.dirname(os.path.dirname(os.path.abspath(__file__)))
kf = os.path.join(root, 'KNOWN_FINDINGS.json')
data = {"findings": []}
if os.path.exists(kf):
    data = json.load(open(kf))
have = {(f['property'], f['signature']) for f in data['findings']}
def trunc(o, n=1500):
    s = json.dumps(o, ensure_ascii=False)
    if len(s) <= n:
        return o
    if isinstance(o, dict):
        return {k: (v if len(json.dumps(v, ensure_ascii=False)) < 700 else json.dumps(v, ensure_ascii=False)[:700] + '…') for k, v in o.items()}
    return s[:n] + '…'
for pid in sys.argv[1:]:
    for f in sorted(glob.glob(os.path.join(root, 'replays', pid + '-*.json'))):
        r = json.load(open(f))
        tree = r.get('tree', '')
        if not tree.startswith('/repo@') or tree.endswith('+dirty'):
            # only findings on /repo's committed tree are ever adopted (never those of a seeded change or a half-made fix)
            print('skipped', os.path.basename(f), 'tree', tree or '(unknown: written before replays carried their tree)')
            continue
        key = (r['property'], r['signature'])
        if key in have:
            continue
        have.add(key)
        data['findings'].append({"property": r['property'], "signature": r['signature'], "status": "open",
                                 "what": r['detail'][:600], "example": trunc(r['replay'])})
data['findings'].sort(key=lambda f: (f['property'], f['signature']))
json.dump(data, open(kf, 'w'), indent=1, ensure_ascii=False)
print(len(data['findings']), 'findings')
