#!/bin/bash
# Run once after a fresh restore, offline: builds the framework tools, runs the self-tests of the trusted
# base (Lua-subset interpreter, the five minimal runtimes) and warms the build caches.
set -u
VERIF="$(cd "$(dirname "$0")" && pwd)"
unset GOSUMDB GOTOOLCHAIN
export GOFLAGS=-mod=mod GOPROXY=off
mkdir -p "$VERIF/build/bin" "$VERIF/evidence" "$VERIF/replays"
( cd "$VERIF/engine" && go build -o "$VERIF/build/bin/rewriter" ./cmd/rewriter ) || exit 1
SCR="/var/tmp/verif.setup.$$"; mkdir -p "$SCR"; trap 'rm -rf "$SCR"' EXIT
"$VERIF/build/bin/rewriter" -repo /repo -hooks "$VERIF/hooks" -out "$SCR/ov" || exit 1
( cd "$VERIF/engine" && go build -tags verif -overlay "$SCR/ov/overlay.json" -o "$SCR/vcheck" ./cmd/vcheck ) || exit 1
( cd /repo && go build -tags verif -overlay "$SCR/ov/overlay.json" -o "$SCR/fp" ./cmd && go build -o "$SCR/fp2" ./cmd ) || exit 1
# trusted base self-tests
( cd "$VERIF/engine" && go test -count=1 ./internal/luai ./internal/dsl ./internal/wire ) || { echo "engine self-tests failed"; exit 1; }
( cd "$VERIF/runtimes/go" && go test -count=1 ./... ) || { echo "go runtime self-test failed"; exit 1; }
bash "$VERIF/runtimes/rust/selftest/run.sh" >/dev/null || { echo "rust runtime self-test failed"; exit 1; }
bash "$VERIF/runtimes/cpp/selftest/run.sh" >/dev/null || { echo "cpp runtime self-test failed"; exit 1; }
( cd "$VERIF/runtimes/java" && mkdir -p "$SCR/jst" && javac -encoding UTF-8 -d "$SCR/jst" $(find src selftest -name '*.java') && java -Dfile.encoding=UTF-8 -cp "$SCR/jst" selftest.SelfTest >/dev/null ) || { echo "java runtime self-test failed"; exit 1; }
echo "setup ok"
