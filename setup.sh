#!/bin/bash
# Run once after a fresh restore, offline: builds the framework tools and warms the build caches.
set -u
VERIF="$(cd "$(dirname "$0")" && pwd)"
unset GOSUMDB GOTOOLCHAIN
export GOFLAGS=-mod=mod GOPROXY=off
mkdir -p "$VERIF/build/bin" "$VERIF/evidence" "$VERIF/replays"
( cd "$VERIF/engine" && go build -o "$VERIF/build/bin/rewriter" ./cmd/rewriter ) || exit 1
# warm GOCACHE: overlay build of vcheck and of the repository binary
SCR="/var/tmp/verif.setup.$$"; mkdir -p "$SCR"; trap 'rm -rf "$SCR"' EXIT
"$VERIF/build/bin/rewriter" -repo /repo -hooks "$VERIF/hooks" -out "$SCR/ov" || exit 1
( cd "$VERIF/engine" && go build -tags verif -overlay "$SCR/ov/overlay.json" -o "$SCR/vcheck" ./cmd/vcheck ) || exit 1
( cd /repo && go build -tags verif -overlay "$SCR/ov/overlay.json" -o "$SCR/fp" ./cmd && go build -o "$SCR/fp2" ./cmd ) || exit 1
echo "setup ok"
