//go:build verif

// Package verifseam is the nondeterminism seam injected (by overlay only, never committed to the
// repository) into fin-protoc's own packages: every `range` over a map and every time.Now() in the
// module's packages is routed through here by /verif/engine/cmd/rewriter.
//
// With no hook installed the seam is *pinned*: map keys are visited in sorted order and the clock is
// the real clock. C13 installs hooks and enumerates every permutation / clock answer.
package verifseam

import (
	"cmp"
	"fmt"
	"os"
	"sort"
	"time"
)

// A real binary built with the seam can be told, through the environment, to visit every map in another fixed
// order (C13 runs the command line under each of them: its output must not depend on it):
// VERIF_SEAM_ORDER = reverse | rotate (anything else: sorted).
func init() {
	switch os.Getenv("VERIF_SEAM_ORDER") {
	case "reverse":
		OrderHook = func(site string, sorted []string) []string {
			out := make([]string, len(sorted))
			for i, k := range sorted {
				out[len(sorted)-1-i] = k
			}
			return out
		}
	case "rotate":
		OrderHook = func(site string, sorted []string) []string {
			if len(sorted) < 2 {
				return sorted
			}
			return append(append([]string{}, sorted[1:]...), sorted[0])
		}
	}
}

// OrderHook, when set, decides the visiting order of the (sorted) keys at a range-over-map site.
var OrderHook func(site string, sorted []string) []string

// NowHook, when set, decides the answer of time.Now() at a site.
var NowHook func(site string) time.Time

// Keys returns the keys of m in the order the seam decides (sorted when pinned). Keys of any ordered type are
// supported; the hook sees them as their printed form.
func Keys[K cmp.Ordered, V any](site string, m map[K]V) []K {
	keys := make([]K, 0, len(m))
	for k := range m {
		keys = append(keys, k)
	}
	sort.Slice(keys, func(i, j int) bool { return cmp.Less(keys[i], keys[j]) })
	if OrderHook == nil {
		return keys
	}
	labels := make([]string, len(keys))
	byLabel := make(map[string]K, len(keys))
	for i, k := range keys {
		labels[i] = fmt.Sprint(k)
		byLabel[labels[i]] = k
	}
	if len(byLabel) != len(keys) {
		return keys // two keys print alike (NaN): leave this site pinned
	}
	out := make([]K, 0, len(keys))
	for _, l := range OrderHook(site, labels) {
		out = append(out, byLabel[l])
	}
	return out
}

// Now is time.Now() behind the seam.
func Now(site string) time.Time {
	if NowHook != nil {
		return NowHook(site)
	}
	return time.Now()
}
