//go:build verif

// Package verifapi is the verification facade. It lives in /verif/hooks and is mapped into the
// fin-protoc module (as <module>/verifapi) with `go build -tags verif -overlay`, so that code
// outside the module can reach internal/... without anything being committed to the repository.
// It re-exports; it implements nothing of its own except a canonical dump of the model.
package verifapi

import (
	"fmt"
	"os"
	"reflect"
	"runtime/debug"
	"sort"
	"strings"
	"sync"

	"github.com/antlr4-go/antlr/v4"
	gen "github.com/xinchentechnote/fin-protoc/internal/grammar"
	"github.com/xinchentechnote/fin-protoc/internal/model"
	"github.com/xinchentechnote/fin-protoc/internal/parser"
)

// Langs in the order cmd/compile.go applies them.
var Langs = []string{"lua", "rust", "go", "java", "python", "cpp"}

// Panic describes a recovered panic.
type Panic struct {
	Value string
	Stack string
}

func (p *Panic) Error() string { return "panic: " + p.Value }

// TopFrame returns the first frame of the stack inside fin-protoc's own packages.
func (p *Panic) TopFrame() string {
	lines := strings.Split(p.Stack, "\n")
	for i := 0; i < len(lines); i++ {
		l := lines[i]
		if strings.HasPrefix(l, "github.com/xinchentechnote/fin-protoc/") && !strings.Contains(l, "/verifapi.") {
			fn := l
			if j := strings.LastIndex(fn, "("); j > 0 {
				fn = fn[:j]
			}
			fn = strings.TrimPrefix(fn, "github.com/xinchentechnote/fin-protoc/")
			return fn
		}
	}
	return "?"
}

// repoMu serialises every call into the repository's own code inside one checker process. fin-protoc is a
// single-goroutine tool; the checker's worker goroutines must not create concurrency the code under test never
// promised to survive (a package-level cache that is perfectly fine for the command line would otherwise crash
// the checker with "concurrent map read and map write").
var repoMu sync.Mutex

func guard(err *error) {
	if r := recover(); r != nil {
		*err = &Panic{Value: fmt.Sprint(r), Stack: string(debug.Stack())}
	}
}

// Format is parser.FormatPacketDsl.
func Format(text string) (out string, err error) {
	repoMu.Lock()
	defer repoMu.Unlock()
	defer guard(&err)
	return parser.FormatPacketDsl(text)
}

// Diag is one semantic diagnostic of the model.
type Diag struct {
	Line, Column int
	Msg          string
}

// Model wraps the parsed model.
type Model struct {
	M *model.BinaryModel
}

// ParseFile is parser.ParseFile (the path cmd/compile.go takes).
func ParseFile(path string) (m *Model, diags []Diag, err error) {
	repoMu.Lock()
	defer repoMu.Unlock()
	defer guard(&err)
	res, e := parser.ParseFile(path)
	if e != nil {
		return nil, nil, e
	}
	bm, ok := res.(*model.BinaryModel)
	if !ok || bm == nil {
		return nil, nil, fmt.Errorf("ParseFile returned %T", res)
	}
	for _, se := range bm.SyntaxErrors {
		diags = append(diags, Diag{se.Line, se.Column, se.Msg})
	}
	return &Model{bm}, diags, nil
}

// ParseText writes text to path and calls ParseFile.
func ParseText(path, text string) (*Model, []Diag, error) {
	if err := os.WriteFile(path, []byte(text), 0o644); err != nil {
		return nil, nil, fmt.Errorf("HARNESS: %w", err)
	}
	return ParseFile(path)
}

// Generate runs exactly the closure cmd/compile.go runs for lang.
func Generate(m *Model, lang string) (files map[string][]byte, err error) {
	repoMu.Lock()
	defer repoMu.Unlock()
	defer guard(&err)
	bm := m.M
	switch lang {
	case "lua":
		return parser.NewLuaWspGenerator(bm).Generate(bm)
	case "rust":
		return parser.NewRustGenerator(bm).Generate(bm)
	case "go":
		return parser.NewGoGenerator(bm).Generate(bm)
	case "java":
		return parser.NewJavaGenerator(bm).Generate(bm)
	case "python":
		return parser.NewPythonGenerator(bm).Generate(bm)
	case "cpp":
		return parser.NewCppGenerator(bm).Generate(bm)
	}
	return nil, fmt.Errorf("HARNESS: unknown lang %q", lang)
}

// HasRoot reports whether the model has a root packet.
func (m *Model) HasRoot() bool { return m.M.RootPacket != nil }

// Token is one lexer token.
type Token struct {
	Type    int
	Name    string
	Text    string
	Channel int
	Line    int
	Column  int
}

// Lex returns every token (default and hidden channel) the generated lexer produces, without EOF.
func Lex(text string) (toks []Token, err error) {
	defer guard(&err)
	lexer := gen.NewPacketDslLexer(antlr.NewInputStream(text))
	lexer.RemoveErrorListeners()
	names := lexer.SymbolicNames
	for {
		t := lexer.NextToken()
		if t.GetTokenType() == antlr.TokenEOF {
			break
		}
		name := ""
		if tt := t.GetTokenType(); tt >= 0 && tt < len(names) {
			name = names[tt]
		}
		toks = append(toks, Token{t.GetTokenType(), name, t.GetText(), t.GetChannel(), t.GetLine(), t.GetColumn()})
	}
	return toks, nil
}

// SyntaxOK reports whether text is syntactically valid: neither the generated lexer nor the
// generated parser reports an error. (The repository's own entry points listen to the parser only;
// a character no token matches is an error of the lexer.)
func SyntaxOK(text string) (ok bool, err error) {
	defer guard(&err)
	lexer := gen.NewPacketDslLexer(antlr.NewInputStream(text))
	l := &countingListener{DefaultErrorListener: antlr.NewDefaultErrorListener()}
	lexer.RemoveErrorListeners()
	lexer.AddErrorListener(l)
	stream := antlr.NewCommonTokenStream(lexer, antlr.TokenDefaultChannel)
	p := gen.NewPacketDslParser(stream)
	p.RemoveErrorListeners()
	p.AddErrorListener(l)
	p.Packet()
	return l.n == 0, nil
}

// SyntaxErrors counts the errors of the generated lexer and of the generated parser separately, with
// the facade's own listeners.
func SyntaxErrors(text string) (lexErrs, parseErrs int, err error) {
	defer guard(&err)
	lexer := gen.NewPacketDslLexer(antlr.NewInputStream(text))
	ll := &countingListener{DefaultErrorListener: antlr.NewDefaultErrorListener()}
	pl := &countingListener{DefaultErrorListener: antlr.NewDefaultErrorListener()}
	lexer.RemoveErrorListeners()
	lexer.AddErrorListener(ll)
	stream := antlr.NewCommonTokenStream(lexer, antlr.TokenDefaultChannel)
	p := gen.NewPacketDslParser(stream)
	p.RemoveErrorListeners()
	p.AddErrorListener(pl)
	p.Packet()
	return ll.n, pl.n, nil
}

// countingListener is the facade's own error listener: the oracle "is this text syntactically valid"
// must not depend on the repository's listener, which is part of the code under test.
type countingListener struct {
	*antlr.DefaultErrorListener
	n int
}

func (c *countingListener) SyntaxError(recognizer antlr.Recognizer, offendingSymbol interface{}, line, column int, msg string, e antlr.RecognitionException) {
	c.n++
}

// ParserOK reports whether the parser alone (the repository's own notion) accepts text.
func ParserOK(text string) (ok bool, err error) {
	repoMu.Lock()
	defer repoMu.Unlock()
	defer guard(&err)
	p, _, e := parser.NewPacketDslParserByContent(text)
	if e != nil {
		return false, e
	}
	l := parser.NewSyntaxErrorListener()
	p.RemoveErrorListeners()
	p.AddErrorListener(l)
	p.Packet()
	return !l.HasErrors(), nil
}

// Dump renders the whole model canonically: pointer identity as first-visit ordinals, maps sorted.
// No field is abstracted away, so equal dumps mean equal (isomorphic) models.
func Dump(m *Model) string {
	var b strings.Builder
	d := &dumper{b: &b, seen: map[uintptr]int{}}
	d.val(reflect.ValueOf(m.M), 0)
	return b.String()
}

type dumper struct {
	b    *strings.Builder
	seen map[uintptr]int
}

func (d *dumper) ind(n int) { d.b.WriteString(strings.Repeat(" ", n)) }

func (d *dumper) val(v reflect.Value, depth int) {
	if !v.IsValid() {
		d.b.WriteString("<invalid>")
		return
	}
	switch v.Kind() {
	case reflect.Ptr:
		if v.IsNil() {
			d.b.WriteString("nil")
			return
		}
		p := v.Pointer()
		if n, ok := d.seen[p]; ok {
			fmt.Fprintf(d.b, "@%d", n)
			return
		}
		n := len(d.seen) + 1
		d.seen[p] = n
		fmt.Fprintf(d.b, "&%d ", n)
		d.val(v.Elem(), depth)
	case reflect.Interface:
		if v.IsNil() {
			d.b.WriteString("nil")
			return
		}
		fmt.Fprintf(d.b, "(%s)", v.Elem().Type().String())
		d.val(v.Elem(), depth)
	case reflect.Struct:
		fmt.Fprintf(d.b, "%s{\n", v.Type().Name())
		for i := 0; i < v.NumField(); i++ {
			d.ind(depth + 1)
			d.b.WriteString(v.Type().Field(i).Name + ": ")
			d.val(v.Field(i), depth+1)
			d.b.WriteString("\n")
		}
		d.ind(depth)
		d.b.WriteString("}")
	case reflect.Slice:
		if v.IsNil() {
			d.b.WriteString("[]nil")
			return
		}
		d.b.WriteString("[\n")
		for i := 0; i < v.Len(); i++ {
			d.ind(depth + 1)
			d.val(v.Index(i), depth+1)
			d.b.WriteString("\n")
		}
		d.ind(depth)
		d.b.WriteString("]")
	case reflect.Map:
		if v.IsNil() {
			d.b.WriteString("map nil")
			return
		}
		keys := v.MapKeys()
		sort.Slice(keys, func(i, j int) bool { return fmt.Sprint(keys[i].Interface()) < fmt.Sprint(keys[j].Interface()) })
		d.b.WriteString("map[\n")
		for _, k := range keys {
			d.ind(depth + 1)
			fmt.Fprintf(d.b, "%q: ", fmt.Sprint(k.Interface()))
			d.val(v.MapIndex(k), depth+1)
			d.b.WriteString("\n")
		}
		d.ind(depth)
		d.b.WriteString("]")
	case reflect.String:
		fmt.Fprintf(d.b, "%q", v.String())
	default:
		fmt.Fprintf(d.b, "%v", v.Interface())
	}
}

// Cyclic reports whether the packet reference graph of the model (object fields and match
// alternatives) has a cycle. Generators recurse along it, and a stack overflow cannot be recovered,
// so in-process callers skip cyclic models (C11 explores them in worker subprocesses).
func Cyclic(m *Model) bool {
	state := map[*model.Packet]int{}
	var visit func(p *model.Packet) bool
	visit = func(p *model.Packet) bool {
		if p == nil {
			return false
		}
		switch state[p] {
		case 1:
			return true
		case 2:
			return false
		}
		state[p] = 1
		for _, f := range p.Fields {
			if f == nil {
				continue
			}
			switch a := f.Attr.(type) {
			case *model.ObjectFieldAttribute:
				if a != nil && visit(a.RefPacket) {
					return true
				}
			case *model.MatchFieldAttribute:
				if a != nil {
					for _, pr := range a.MatchPairs {
						if visit(m.M.PacketsMap[pr.Value]) {
							return true
						}
					}
				}
			}
		}
		state[p] = 2
		return false
	}
	for _, p := range m.M.Packets {
		if visit(p) {
			return true
		}
	}
	return false
}
