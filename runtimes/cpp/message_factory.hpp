// Minimal conforming runtime for the C++ target: MessageFactory and REGISTER_MESSAGE.
//
// Emitted code (at namespace scope, in a header):
//     struct MsgTag{};
//     using MsgMessageFactory = MessageFactory<uint16_t, codec::BinaryCodec, MsgTag>;
//     REGISTER_MESSAGE(MsgMessageFactory, 1, Alpha);
//     REGISTER_MESSAGE(MsgMessageFactory, "A", Beta);        // string keys when K is std::string
//     ...
//     body = MsgMessageFactory::getInstance().create(kind);  // -> std::unique_ptr<Base>
//
// An unmapped key makes create() throw std::runtime_error (runtimes/SPEC.md). Registering a key twice keeps the last
// registration. The key literal is converted to K the way a function argument is (no explicit cast): a literal that
// cannot initialise a K is the caller's error.
#ifndef VERIF_RUNTIME_CPP_MESSAGE_FACTORY_HPP
#define VERIF_RUNTIME_CPP_MESSAGE_FACTORY_HPP

#include <functional>
#include <map>
#include <memory>
#include <sstream>
#include <stdexcept>
#include <string>
#include <type_traits>
#include <utility>

template <class K, class Base, class Tag>
class MessageFactory {
 public:
  using Key = K;
  using Creator = std::function<std::unique_ptr<Base>()>;

  static MessageFactory& getInstance() {
    static MessageFactory f;
    return f;
  }

  bool registerCreator(const K& key, Creator c) {
    creators_[key] = std::move(c);
    return true;
  }

  template <class T>
  bool registerType(const K& key) {
    static_assert(std::is_base_of<Base, T>::value, "REGISTER_MESSAGE: type does not derive from the factory's base");
    return registerCreator(key, [] { return std::unique_ptr<Base>(new T()); });
  }

  bool contains(const K& key) const { return creators_.find(key) != creators_.end(); }
  std::size_t size() const { return creators_.size(); }

  std::unique_ptr<Base> create(const K& key) const {
    auto it = creators_.find(key);
    if (it == creators_.end()) {
      std::ostringstream oss;
      oss << "MessageFactory: no message registered for key ";
      print(oss, key);
      throw std::runtime_error(oss.str());
    }
    return it->second();
  }

 private:
  MessageFactory() = default;
  MessageFactory(const MessageFactory&) = delete;
  MessageFactory& operator=(const MessageFactory&) = delete;

  template <class X>
  static void print(std::ostream& os, const X& v) {
    if constexpr (std::is_integral<X>::value && sizeof(X) == 1) {
      os << static_cast<int>(v);
    } else {
      os << v;
    }
  }

  std::map<K, Creator> creators_;
};

#define VERIF_MF_CAT2(a, b) a##b
#define VERIF_MF_CAT(a, b) VERIF_MF_CAT2(a, b)

// Usable any number of times per factory, at namespace scope, in a header: every use defines a distinctly named
// inline variable whose initialiser performs the registration before main() runs.
#define REGISTER_MESSAGE(Factory, key, Type)                                             \
  inline const bool VERIF_MF_CAT(verif_message_registered_, __COUNTER__) =               \
      Factory::getInstance().template registerType<Type>(key)

#endif  // VERIF_RUNTIME_CPP_MESSAGE_FACTORY_HPP
