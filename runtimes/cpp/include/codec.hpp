// Minimal conforming runtime for the C++ target: namespace codec.
//
// Spellings are exactly those cpp_generator.go prints (including the capital L of write_object_List).
// Wire semantics (runtimes/SPEC.md):
//   * length / count prefixes have the type given as template argument, big-endian, or little-endian in the _le variant;
//   * string: prefix counting UTF-8 bytes, then the bytes;
//   * repeated: element-count prefix, then the elements (basic types in the same byte order as the prefix);
//   * fixed string: exactly n bytes; without padding arguments pad with ' ' on the right and trim trailing ' ' when
//     reading; with padding arguments pad/trim with `pad` on the side given by `left` (left == true: pad bytes first).
//     Writing more than n bytes is an error (std::length_error);
//   * a length that does not fit the prefix type is an error (std::length_error), never a silent truncation;
//   * every read is bounds-checked (std::out_of_range), a negative length read through a signed prefix too.
// Nothing here repairs a caller's mistake: a helper called with the wrong prefix type uses that wrong type.
#ifndef VERIF_RUNTIME_CPP_CODEC_HPP
#define VERIF_RUNTIME_CPP_CODEC_HPP

#include <cstddef>
#include <cstdint>
#include <limits>
#include <sstream>
#include <stdexcept>
#include <string>
#include <type_traits>
#include <utility>
#include <vector>

#include "include/bytebuf.hpp"

namespace codec {

struct BinaryCodec {
  BinaryCodec() = default;
  BinaryCodec(const BinaryCodec&) = default;
  BinaryCodec(BinaryCodec&&) = default;
  BinaryCodec& operator=(const BinaryCodec&) = default;
  BinaryCodec& operator=(BinaryCodec&&) = default;
  virtual ~BinaryCodec() = default;

  virtual void encode(ByteBuf& buf) const = 0;
  virtual void decode(ByteBuf& buf) = 0;
  virtual bool equals(const BinaryCodec& other) const = 0;
  virtual std::string toString() const = 0;
};

// Found by argument-dependent lookup for every emitted struct (they derive from codec::BinaryCodec),
// also from inside std::vector<Struct>::operator==.
inline bool operator==(const BinaryCodec& a, const BinaryCodec& b) { return a.equals(b); }
inline bool operator!=(const BinaryCodec& a, const BinaryCodec& b) { return !a.equals(b); }

namespace detail {

template <class L, bool LE>
inline void write_len(ByteBuf& buf, std::size_t n) {
  static_assert(std::is_integral<L>::value, "length prefix must be an integer type");
  using U = typename std::make_unsigned<L>::type;
  if (n > static_cast<std::size_t>(static_cast<U>(std::numeric_limits<L>::max()))) {
    throw std::length_error("codec: length " + std::to_string(n) + " does not fit a " + std::to_string(sizeof(L)) +
                            "-byte prefix");
  }
  if (LE) {
    buf.write_le<L>(static_cast<L>(n));
  } else {
    buf.write_be<L>(static_cast<L>(n));
  }
}

template <class L, bool LE>
inline std::size_t read_len(ByteBuf& buf) {
  static_assert(std::is_integral<L>::value, "length prefix must be an integer type");
  L v = LE ? buf.read_le<L>() : buf.read_be<L>();
  if (std::is_signed<L>::value && v < static_cast<L>(0)) {
    throw std::out_of_range("codec: negative length prefix");
  }
  using U = typename std::make_unsigned<L>::type;
  if (static_cast<U>(v) > std::numeric_limits<std::size_t>::max()) {
    throw std::out_of_range("codec: length prefix exceeds the address space");
  }
  return static_cast<std::size_t>(static_cast<U>(v));
}

template <class L, class T, bool LE>
inline void write_basic(ByteBuf& buf, const std::vector<T>& v) {
  write_len<L, LE>(buf, v.size());
  for (const T& e : v) {
    if (LE) {
      buf.write_le<T>(e);
    } else {
      buf.write_be<T>(e);
    }
  }
}

template <class L, class T, bool LE>
inline std::vector<T> read_basic(ByteBuf& buf) {
  std::size_t n = read_len<L, LE>(buf);
  std::vector<T> out;
  // never trust a count for an allocation: it is bounded by what is actually there
  out.reserve(n < buf.readable_bytes() / sizeof(T) ? n : buf.readable_bytes() / sizeof(T));
  for (std::size_t i = 0; i < n; i++) out.push_back(LE ? buf.read_le<T>() : buf.read_be<T>());
  return out;
}

template <class S, bool LE>
inline void write_str(ByteBuf& buf, const std::string& s) {
  write_len<S, LE>(buf, s.size());
  buf.write_bytes(s.data(), s.size());
}

template <class S, bool LE>
inline std::string read_str(ByteBuf& buf) {
  std::size_t n = read_len<S, LE>(buf);
  return buf.read_string_bytes(n);
}

inline void write_fixed(ByteBuf& buf, const std::string& s, std::size_t n, char pad, bool left) {
  if (s.size() > n) {
    throw std::length_error("codec: fixed string of " + std::to_string(s.size()) + " bytes does not fit " +
                            std::to_string(n));
  }
  if (left) buf.write_fill(n - s.size(), static_cast<std::uint8_t>(pad));
  buf.write_bytes(s.data(), s.size());
  if (!left) buf.write_fill(n - s.size(), static_cast<std::uint8_t>(pad));
}

inline std::string read_fixed(ByteBuf& buf, std::size_t n, char pad, bool left) {
  std::string s = buf.read_string_bytes(n);
  if (left) {
    std::size_t i = 0;
    while (i < s.size() && s[i] == pad) i++;
    s.erase(0, i);
  } else {
    std::size_t e = s.size();
    while (e > 0 && s[e - 1] == pad) e--;
    s.erase(e);
  }
  return s;
}

}  // namespace detail

// ---- repeated basic types -----------------------------------------------------------------------
template <class L, class T>
inline void write_basic_type(ByteBuf& buf, const std::vector<T>& v) { detail::write_basic<L, T, false>(buf, v); }
template <class L, class T>
inline void write_basic_type_le(ByteBuf& buf, const std::vector<T>& v) { detail::write_basic<L, T, true>(buf, v); }
template <class L, class T>
inline std::vector<T> read_basic_type(ByteBuf& buf) { return detail::read_basic<L, T, false>(buf); }
template <class L, class T>
inline std::vector<T> read_basic_type_le(ByteBuf& buf) { return detail::read_basic<L, T, true>(buf); }

// ---- strings ------------------------------------------------------------------------------------
template <class S>
inline void write_string(ByteBuf& buf, const std::string& s) { detail::write_str<S, false>(buf, s); }
template <class S>
inline void write_string_le(ByteBuf& buf, const std::string& s) { detail::write_str<S, true>(buf, s); }
template <class S>
inline std::string read_string(ByteBuf& buf) { return detail::read_str<S, false>(buf); }
template <class S>
inline std::string read_string_le(ByteBuf& buf) { return detail::read_str<S, true>(buf); }

template <class L, class S>
inline void write_string_list(ByteBuf& buf, const std::vector<std::string>& v) {
  detail::write_len<L, false>(buf, v.size());
  for (const std::string& s : v) detail::write_str<S, false>(buf, s);
}
template <class L, class S>
inline void write_string_list_le(ByteBuf& buf, const std::vector<std::string>& v) {
  detail::write_len<L, true>(buf, v.size());
  for (const std::string& s : v) detail::write_str<S, true>(buf, s);
}
template <class L, class S>
inline std::vector<std::string> read_string_list(ByteBuf& buf) {
  std::size_t n = detail::read_len<L, false>(buf);
  std::vector<std::string> out;
  for (std::size_t i = 0; i < n; i++) out.push_back(detail::read_str<S, false>(buf));
  return out;
}
template <class L, class S>
inline std::vector<std::string> read_string_list_le(ByteBuf& buf) {
  std::size_t n = detail::read_len<L, true>(buf);
  std::vector<std::string> out;
  for (std::size_t i = 0; i < n; i++) out.push_back(detail::read_str<S, true>(buf));
  return out;
}

// ---- fixed strings ------------------------------------------------------------------------------
inline void write_fixed_string(ByteBuf& buf, const std::string& s, std::size_t n) {
  detail::write_fixed(buf, s, n, ' ', false);
}
inline void write_fixed_string(ByteBuf& buf, const std::string& s, std::size_t n, char pad, bool left = false) {
  detail::write_fixed(buf, s, n, pad, left);
}
inline std::string read_fixed_string(ByteBuf& buf, std::size_t n) { return detail::read_fixed(buf, n, ' ', false); }
inline std::string read_fixed_string(ByteBuf& buf, std::size_t n, char pad, bool left = false) {
  return detail::read_fixed(buf, n, pad, left);
}

template <class L>
inline void write_fixed_string_list(ByteBuf& buf, const std::vector<std::string>& v, std::size_t n, char pad = ' ',
                                    bool left = false) {
  detail::write_len<L, false>(buf, v.size());
  for (const std::string& s : v) detail::write_fixed(buf, s, n, pad, left);
}
template <class L>
inline void write_fixed_string_list_le(ByteBuf& buf, const std::vector<std::string>& v, std::size_t n, char pad = ' ',
                                       bool left = false) {
  detail::write_len<L, true>(buf, v.size());
  for (const std::string& s : v) detail::write_fixed(buf, s, n, pad, left);
}
template <class L>
inline std::vector<std::string> read_fixed_string_list(ByteBuf& buf, std::size_t n, char pad = ' ', bool left = false) {
  std::size_t c = detail::read_len<L, false>(buf);
  std::vector<std::string> out;
  for (std::size_t i = 0; i < c; i++) out.push_back(detail::read_fixed(buf, n, pad, left));
  return out;
}
template <class L>
inline std::vector<std::string> read_fixed_string_list_le(ByteBuf& buf, std::size_t n, char pad = ' ',
                                                          bool left = false) {
  std::size_t c = detail::read_len<L, true>(buf);
  std::vector<std::string> out;
  for (std::size_t i = 0; i < c; i++) out.push_back(detail::read_fixed(buf, n, pad, left));
  return out;
}

// ---- lists of objects ---------------------------------------------------------------------------
template <class L, class T>
inline void write_object_List(ByteBuf& buf, const std::vector<T>& v) {
  detail::write_len<L, false>(buf, v.size());
  for (const T& e : v) e.encode(buf);
}
template <class L, class T>
inline void write_object_List_le(ByteBuf& buf, const std::vector<T>& v) {
  detail::write_len<L, true>(buf, v.size());
  for (const T& e : v) e.encode(buf);
}
template <class L, class T>
inline std::vector<T> read_object_List(ByteBuf& buf) {
  std::size_t n = detail::read_len<L, false>(buf);
  std::vector<T> out;
  for (std::size_t i = 0; i < n; i++) {
    T e{};
    e.decode(buf);
    out.push_back(std::move(e));
  }
  return out;
}
template <class L, class T>
inline std::vector<T> read_object_List_le(ByteBuf& buf) {
  std::size_t n = detail::read_len<L, true>(buf);
  std::vector<T> out;
  for (std::size_t i = 0; i < n; i++) {
    T e{};
    e.decode(buf);
    out.push_back(std::move(e));
  }
  return out;
}

// ---- toString support ---------------------------------------------------------------------------
// "[a, b, c]". One-byte integers print as numbers, everything else through its operator<<
// (emitted structs define one right after the struct).
template <class T>
inline std::string join_vector(const std::vector<T>& v) {
  std::ostringstream oss;
  oss << "[";
  for (std::size_t i = 0; i < v.size(); i++) {
    if (i != 0) oss << ", ";
    if constexpr (std::is_same<T, std::uint8_t>::value || std::is_same<T, std::int8_t>::value ||
                  std::is_same<T, char>::value) {
      oss << static_cast<int>(v[i]);
    } else {
      oss << v[i];
    }
  }
  oss << "]";
  return oss.str();
}

}  // namespace codec

#endif  // VERIF_RUNTIME_CPP_CODEC_HPP
