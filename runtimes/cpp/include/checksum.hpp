// Minimal conforming runtime for the C++ target: checksum services.
//
// Emitted code:   auto service = ChecksumServiceContext::instance().get<ByteBuf, uint32_t>("SUMU32");
//                 if(service != nullptr){ auto cs = service->calc(buf); buf.write_u32(cs); } else { buf.write_u32(member); }
//
// Registered names (runtimes/SPEC.md): SUMU8 SUMU16 SUMU32 SUMU64 SUMI8 SUMI16 SUMI32 SUMI64 CRC32 (CRC32: 4 bytes,
// unsigned). Algorithm for a service of width w bytes over the bytes b[0..n) currently in the buffer:
//     (sum of b[i]*(i+1)) * 0x0101010101010101  mod 2^(8w)
// returned in the natural type of that width (signed for SUMI*).
//
// Typing decision. A service is registered as ChecksumService<Buffer, T> with T its natural result type, and the
// registry is keyed by (Buffer, T, name) - the shape the call site implies, since T is an explicit template argument
// of get(). get<Buffer, T>(name) therefore returns nullptr
//   * when the name is not registered at all, and
//   * when the name is registered with a different result type (get<ByteBuf, uint16_t>("SUMU32")): a typed registry
//     cannot hand out a ChecksumService<ByteBuf, uint16_t> it does not have, and reinterpreting the 32-bit service
//     would be repairing (or corrupting) the caller's request. Signedness is part of the type: SUMI16 is an int16_t
//     service, SUMU16 a uint16_t one.
// The returned pointer refers to an object owned by the context; it stays valid for the life of the process.
#ifndef VERIF_RUNTIME_CPP_CHECKSUM_HPP
#define VERIF_RUNTIME_CPP_CHECKSUM_HPP

#include <cstddef>
#include <cstdint>
#include <cstring>
#include <functional>
#include <map>
#include <memory>
#include <set>
#include <string>
#include <type_traits>
#include <utility>

#include "include/bytebuf.hpp"

template <class Buffer, class T>
class ChecksumService {
 public:
  virtual ~ChecksumService() = default;
  virtual T calc(const Buffer& buf) const = 0;
};

// The harness algorithm at the width of T.
template <class Buffer, class T>
class PositionalSumService : public ChecksumService<Buffer, T> {
 public:
  T calc(const Buffer& buf) const override {
    static_assert(std::is_integral<T>::value, "checksum result must be an integer type");
    const std::uint8_t* p = reinterpret_cast<const std::uint8_t*>(buf.data());
    const std::size_t n = buf.size();
    std::uint64_t s = 0;
    for (std::size_t i = 0; i < n; i++) s += static_cast<std::uint64_t>(p[i]) * static_cast<std::uint64_t>(i + 1);
    s *= UINT64_C(0x0101010101010101);
    using U = typename std::make_unsigned<T>::type;
    U u = static_cast<U>(s);  // mod 2^(8w)
    T out;
    static_assert(sizeof(U) == sizeof(T), "width mismatch");
    std::memcpy(&out, &u, sizeof(T));  // two's complement reinterpretation for the signed services
    return out;
  }
};

template <class Buffer, class T>
class FunctionChecksumService : public ChecksumService<Buffer, T> {
 public:
  explicit FunctionChecksumService(std::function<T(const Buffer&)> f) : f_(std::move(f)) {}
  T calc(const Buffer& buf) const override { return f_(buf); }

 private:
  std::function<T(const Buffer&)> f_;
};

class ChecksumServiceContext {
 public:
  static ChecksumServiceContext& instance() {
    static ChecksumServiceContext ctx;
    return ctx;
  }

  // nullptr when `name` is not registered as a service producing exactly T over Buffer (see the header comment).
  template <class Buffer, class T>
  const ChecksumService<Buffer, T>* get(const std::string& name) const {
    if (disabled().count(name)) return nullptr;
    const auto& m = registry<Buffer, T>();
    auto it = m.find(name);
    return it == m.end() ? nullptr : it->second.get();
  }

  // The application removes whatever is registered under `name` / puts it back (driver commands UNREG / REG).
  void remove(const std::string& name) { disabled().insert(name); }
  void restore(const std::string& name) { disabled().erase(name); }

  // Application-side registration (the last registration of a name for a given (Buffer, T) wins).
  template <class Buffer, class T>
  void add(const std::string& name, std::unique_ptr<ChecksumService<Buffer, T>> svc) {
    registry<Buffer, T>()[name] = std::move(svc);
  }
  template <class Buffer, class T>
  void add(const std::string& name, std::function<T(const Buffer&)> f) {
    registry<Buffer, T>()[name] =
        std::unique_ptr<ChecksumService<Buffer, T>>(new FunctionChecksumService<Buffer, T>(std::move(f)));
  }

 private:
  ChecksumServiceContext() = default;

  static std::set<std::string>& disabled() {
    static std::set<std::string> d;
    return d;
  }

  template <class Buffer, class T>
  using Registry = std::map<std::string, std::unique_ptr<ChecksumService<Buffer, T>>>;

  template <class Buffer, class T>
  static void builtin(Registry<Buffer, T>& m, const char* name, std::size_t width, bool isSigned) {
    if constexpr (std::is_integral<T>::value && !std::is_same<T, bool>::value) {
      if (sizeof(T) == width && std::is_signed<T>::value == isSigned) {
        m[name] = std::unique_ptr<ChecksumService<Buffer, T>>(new PositionalSumService<Buffer, T>());
      }
    } else {
      (void)m;
      (void)name;
      (void)width;
      (void)isSigned;
    }
  }

  template <class Buffer, class T>
  static Registry<Buffer, T>& registry() {
    static Registry<Buffer, T> m = [] {
      Registry<Buffer, T> r;
      builtin<Buffer, T>(r, "SUMU8", 1, false);
      builtin<Buffer, T>(r, "SUMU16", 2, false);
      builtin<Buffer, T>(r, "SUMU32", 4, false);
      builtin<Buffer, T>(r, "SUMU64", 8, false);
      builtin<Buffer, T>(r, "SUMI8", 1, true);
      builtin<Buffer, T>(r, "SUMI16", 2, true);
      builtin<Buffer, T>(r, "SUMI32", 4, true);
      builtin<Buffer, T>(r, "SUMI64", 8, true);
      builtin<Buffer, T>(r, "CRC32", 4, false);
      builtin<Buffer, T>(r, "SumU32Mx", 4, false);
      builtin<Buffer, T>(r, "sumu16lc", 2, false);
      return r;
    }();
    return m;
  }
};

#endif  // VERIF_RUNTIME_CPP_CHECKSUM_HPP
