// Minimal conforming runtime for the C++ target: ByteBuf.
//
// API surface = what cpp_generator.go emits calls to:
//   write_<t>(v) / write_<t>_le(v)            append at the writer index
//   read_<t>()  / read_<t>_le()               read at the reader index (throws std::out_of_range beyond the end)
//   write_<t>_at(pos, v) / write_<t>_le_at(pos, v)   overwrite already written bytes (throws std::out_of_range outside them)
//   writer_index()
// for t in u8 i8 u16 i16 u32 i32 u64 i64 f32 f64. The un-suffixed form is big-endian, _le little-endian.
// For the driver / helpers: reader_index(), data(), size(), bytes(), readable_bytes(), write_bytes, read_bytes,
// and the width-generic write_be/write_le/read_be/read_le templates the codec helpers are built on.
#ifndef VERIF_RUNTIME_CPP_BYTEBUF_HPP
#define VERIF_RUNTIME_CPP_BYTEBUF_HPP

#include <cstddef>
#include <cstdint>
#include <cstring>
#include <stdexcept>
#include <string>
#include <type_traits>
#include <utility>
#include <vector>

class ByteBuf {
 public:
  ByteBuf() = default;
  explicit ByteBuf(std::vector<std::uint8_t> bytes) : buf_(std::move(bytes)) {}
  ByteBuf(const void* p, std::size_t n)
      : buf_(static_cast<const std::uint8_t*>(p), static_cast<const std::uint8_t*>(p) + n) {}

  std::size_t writer_index() const { return buf_.size(); }
  std::size_t reader_index() const { return rpos_; }
  std::size_t readable_bytes() const { return buf_.size() - rpos_; }
  const std::uint8_t* data() const { return buf_.data(); }
  std::size_t size() const { return buf_.size(); }
  const std::vector<std::uint8_t>& bytes() const { return buf_; }

  void write_bytes(const void* p, std::size_t n) {
    const std::uint8_t* b = static_cast<const std::uint8_t*>(p);
    if (n != 0) buf_.insert(buf_.end(), b, b + n);
  }
  void write_fill(std::size_t n, std::uint8_t v) { buf_.insert(buf_.end(), n, v); }

  // read_bytes never reads garbage: the request is checked against the bytes that are there.
  void read_bytes(void* out, std::size_t n) {
    need(n);
    if (n != 0) std::memcpy(out, buf_.data() + rpos_, n);
    rpos_ += n;
  }
  std::string read_string_bytes(std::size_t n) {
    need(n);
    std::string s(reinterpret_cast<const char*>(buf_.data() + rpos_), n);
    rpos_ += n;
    return s;
  }

  template <class T>
  void write_be(T v) { put<T, false>(v); }
  template <class T>
  void write_le(T v) { put<T, true>(v); }
  template <class T>
  T read_be() { return get<T, false>(); }
  template <class T>
  T read_le() { return get<T, true>(); }
  template <class T>
  void write_be_at(std::size_t pos, T v) { put_at<T, false>(pos, v); }
  template <class T>
  void write_le_at(std::size_t pos, T v) { put_at<T, true>(pos, v); }

#define VERIF_BYTEBUF_METHODS(name, T)                                              \
  void write_##name(T v) { put<T, false>(v); }                                      \
  void write_##name##_le(T v) { put<T, true>(v); }                                  \
  T read_##name() { return get<T, false>(); }                                       \
  T read_##name##_le() { return get<T, true>(); }                                   \
  void write_##name##_at(std::size_t pos, T v) { put_at<T, false>(pos, v); }        \
  void write_##name##_le_at(std::size_t pos, T v) { put_at<T, true>(pos, v); }

  VERIF_BYTEBUF_METHODS(u8, std::uint8_t)
  VERIF_BYTEBUF_METHODS(i8, std::int8_t)
  VERIF_BYTEBUF_METHODS(u16, std::uint16_t)
  VERIF_BYTEBUF_METHODS(i16, std::int16_t)
  VERIF_BYTEBUF_METHODS(u32, std::uint32_t)
  VERIF_BYTEBUF_METHODS(i32, std::int32_t)
  VERIF_BYTEBUF_METHODS(u64, std::uint64_t)
  VERIF_BYTEBUF_METHODS(i64, std::int64_t)
  VERIF_BYTEBUF_METHODS(f32, float)
  VERIF_BYTEBUF_METHODS(f64, double)
#undef VERIF_BYTEBUF_METHODS

 private:
  std::vector<std::uint8_t> buf_;
  std::size_t rpos_ = 0;

  void need(std::size_t n) const {
    if (n > buf_.size() - rpos_) {
      throw std::out_of_range("ByteBuf: read of " + std::to_string(n) + " bytes at " + std::to_string(rpos_) +
                              " beyond end of buffer (" + std::to_string(buf_.size()) + " bytes)");
    }
  }

  template <class T, bool LE>
  static void store(std::uint8_t* dst, T v) {
    static_assert(std::is_arithmetic<T>::value, "ByteBuf stores arithmetic types only");
    std::uint8_t raw[sizeof(T)];
    std::memcpy(raw, &v, sizeof(T));
    // raw is in host order; produce the requested order without assuming the host's.
    const std::uint16_t probe = 1;
    std::uint8_t first;
    std::memcpy(&first, &probe, 1);
    const bool hostLE = first == 1;
    for (std::size_t i = 0; i < sizeof(T); i++) dst[i] = (hostLE == LE) ? raw[i] : raw[sizeof(T) - 1 - i];
  }

  template <class T, bool LE>
  static T load(const std::uint8_t* src) {
    static_assert(std::is_arithmetic<T>::value, "ByteBuf loads arithmetic types only");
    const std::uint16_t probe = 1;
    std::uint8_t first;
    std::memcpy(&first, &probe, 1);
    const bool hostLE = first == 1;
    std::uint8_t raw[sizeof(T)];
    for (std::size_t i = 0; i < sizeof(T); i++) raw[i] = (hostLE == LE) ? src[i] : src[sizeof(T) - 1 - i];
    T v;
    std::memcpy(&v, raw, sizeof(T));
    return v;
  }

  template <class T, bool LE>
  void put(T v) {
    std::uint8_t tmp[sizeof(T)];
    store<T, LE>(tmp, v);
    buf_.insert(buf_.end(), tmp, tmp + sizeof(T));
  }

  template <class T, bool LE>
  T get() {
    need(sizeof(T));
    T v = load<T, LE>(buf_.data() + rpos_);
    rpos_ += sizeof(T);
    return v;
  }

  template <class T, bool LE>
  void put_at(std::size_t pos, T v) {
    if (pos > buf_.size() || sizeof(T) > buf_.size() - pos) {
      throw std::out_of_range("ByteBuf: write_at of " + std::to_string(sizeof(T)) + " bytes at " + std::to_string(pos) +
                              " outside the written bytes (" + std::to_string(buf_.size()) + ")");
    }
    store<T, LE>(buf_.data() + pos, v);
  }
};

#endif  // VERIF_RUNTIME_CPP_BYTEBUF_HPP
