// Stand-in for <gtest/gtest.h> (googletest is not available offline).
//
// Provides what fin-protoc's emitted test/<root>_test.cpp uses and a little more:
//   TEST(Suite, Name) { ... }
//   EXPECT_TRUE/FALSE/EQ/NE/LT/LE/GT/GE, ASSERT_* (return from the test body on failure), `<< "message"` streaming,
//   a registry filled by static initialisers and an `int main()` that runs every registered test.
// Output protocol (parsed by the orchestrator):
//   "[ RUN  ] Suite.Name" before and "[ DONE ] Suite.Name ok|FAILED" after every test that executed,
//   and a last line "RAN <n> FAILED <m>" where n counts tests that actually executed.
// An exception escaping a test body fails that test; the run goes on. main() returns 0 iff n > 0 and m == 0.
// Define VERIF_GTEST_NO_MAIN before including to suppress main().
#ifndef VERIF_RUNTIME_CPP_GTEST_STANDIN_H
#define VERIF_RUNTIME_CPP_GTEST_STANDIN_H

#include <cstdio>
#include <exception>
#include <iostream>
#include <sstream>
#include <string>
#include <type_traits>
#include <utility>
#include <vector>

namespace testing {

class Test {
 public:
  virtual ~Test() = default;
};

namespace internal {

struct TestCase {
  std::string name;
  void (*body)();
};

inline std::vector<TestCase>& registry() {
  static std::vector<TestCase> r;
  return r;
}

inline int& currentFailures() {
  static int n = 0;
  return n;
}

struct Registrar {
  Registrar(const char* name, void (*body)()) { registry().push_back(TestCase{name, body}); }
};

template <class T, class = void>
struct Streamable : std::false_type {};
template <class T>
struct Streamable<T, decltype(void(std::declval<std::ostream&>() << std::declval<const T&>()))> : std::true_type {};

template <class T>
inline std::string show(const T& v) {
  if constexpr (std::is_integral<T>::value && sizeof(T) == 1 && !std::is_same<T, bool>::value) {
    return std::to_string(static_cast<int>(v));
  } else if constexpr (Streamable<T>::value) {
    std::ostringstream oss;
    oss << v;
    return oss.str();
  } else {
    return "<" + std::to_string(sizeof(T)) + "-byte object>";
  }
}

// A failure being reported; collects the streamed message and records itself when destroyed.
class Failure {
 public:
  Failure(const char* file, int line, std::string what) {
    oss_ << file << ":" << line << ": Failure\n" << what;
  }
  Failure(Failure&& o) : oss_(std::move(o.oss_)), live_(o.live_) { o.live_ = false; }
  ~Failure() {
    if (!live_) return;
    currentFailures()++;
    std::cout << oss_.str() << std::endl;
  }
  template <class T>
  Failure& operator<<(const T& v) {
    if (!sep_) {
      oss_ << "\n";
      sep_ = true;
    }
    oss_ << show(v);
    return *this;
  }

 private:
  std::ostringstream oss_;
  bool live_ = true;
  bool sep_ = false;
};

struct Voidify {
  void operator=(const Failure&) const {}
};

template <class A, class B, class Op>
inline bool compare(const A& a, const B& b, Op op) {
  return static_cast<bool>(op(a, b));
}

template <class A, class B>
inline std::string binaryMessage(const char* macro, const char* ea, const char* eb, const A& a, const B& b) {
  return std::string(macro) + "(" + ea + ", " + eb + ")\n  lhs: " + show(a) + "\n  rhs: " + show(b);
}

inline int runAll() {
  int ran = 0, failed = 0;
  for (const TestCase& t : registry()) {
    std::cout << "[ RUN  ] " << t.name << std::endl;
    currentFailures() = 0;
    try {
      t.body();
    } catch (const std::exception& e) {
      currentFailures()++;
      std::cout << "exception escaped the test body: " << e.what() << std::endl;
    } catch (...) {
      currentFailures()++;
      std::cout << "unknown exception escaped the test body" << std::endl;
    }
    ran++;
    if (currentFailures() != 0) failed++;
    std::cout << "[ DONE ] " << t.name << (currentFailures() != 0 ? " FAILED" : " ok") << std::endl;
  }
  std::cout << "RAN " << ran << " FAILED " << failed << std::endl;
  return (ran > 0 && failed == 0) ? 0 : 1;
}

}  // namespace internal

inline void InitGoogleTest(int*, char**) {}
inline void InitGoogleTest() {}

}  // namespace testing

inline int RUN_ALL_TESTS() { return ::testing::internal::runAll(); }

#define VERIF_GTEST_NAME(suite, name) suite##_##name##_verif_test

#define TEST(suite, name)                                                                            \
  static void VERIF_GTEST_NAME(suite, name)();                                                       \
  static ::testing::internal::Registrar VERIF_GTEST_NAME(suite, name##_registrar)(#suite "." #name,  \
                                                                                  &VERIF_GTEST_NAME(suite, name)); \
  static void VERIF_GTEST_NAME(suite, name)()

#define VERIF_GTEST_BOOL(macro, expr, want, onfail)                                                   \
  if (static_cast<bool>(expr) == (want))                                                              \
    ;                                                                                                 \
  else                                                                                                \
    onfail ::testing::internal::Failure(__FILE__, __LINE__, macro "(" #expr ")")

#define VERIF_GTEST_CMP(macro, a, b, op, onfail)                                                      \
  if (::testing::internal::compare((a), (b), [](const auto& x_, const auto& y_) { return x_ op y_; })) \
    ;                                                                                                 \
  else                                                                                                \
    onfail ::testing::internal::Failure(__FILE__, __LINE__,                                           \
                                        ::testing::internal::binaryMessage(macro, #a, #b, (a), (b)))

#define VERIF_GTEST_NONFATAL
#define VERIF_GTEST_FATAL return ::testing::internal::Voidify() =

#define EXPECT_TRUE(e) VERIF_GTEST_BOOL("EXPECT_TRUE", e, true, VERIF_GTEST_NONFATAL)
#define EXPECT_FALSE(e) VERIF_GTEST_BOOL("EXPECT_FALSE", e, false, VERIF_GTEST_NONFATAL)
#define ASSERT_TRUE(e) VERIF_GTEST_BOOL("ASSERT_TRUE", e, true, VERIF_GTEST_FATAL)
#define ASSERT_FALSE(e) VERIF_GTEST_BOOL("ASSERT_FALSE", e, false, VERIF_GTEST_FATAL)

#define EXPECT_EQ(a, b) VERIF_GTEST_CMP("EXPECT_EQ", a, b, ==, VERIF_GTEST_NONFATAL)
#define EXPECT_NE(a, b) VERIF_GTEST_CMP("EXPECT_NE", a, b, !=, VERIF_GTEST_NONFATAL)
#define EXPECT_LT(a, b) VERIF_GTEST_CMP("EXPECT_LT", a, b, <, VERIF_GTEST_NONFATAL)
#define EXPECT_LE(a, b) VERIF_GTEST_CMP("EXPECT_LE", a, b, <=, VERIF_GTEST_NONFATAL)
#define EXPECT_GT(a, b) VERIF_GTEST_CMP("EXPECT_GT", a, b, >, VERIF_GTEST_NONFATAL)
#define EXPECT_GE(a, b) VERIF_GTEST_CMP("EXPECT_GE", a, b, >=, VERIF_GTEST_NONFATAL)
#define ASSERT_EQ(a, b) VERIF_GTEST_CMP("ASSERT_EQ", a, b, ==, VERIF_GTEST_FATAL)
#define ASSERT_NE(a, b) VERIF_GTEST_CMP("ASSERT_NE", a, b, !=, VERIF_GTEST_FATAL)
#define ASSERT_LT(a, b) VERIF_GTEST_CMP("ASSERT_LT", a, b, <, VERIF_GTEST_FATAL)
#define ASSERT_LE(a, b) VERIF_GTEST_CMP("ASSERT_LE", a, b, <=, VERIF_GTEST_FATAL)
#define ASSERT_GT(a, b) VERIF_GTEST_CMP("ASSERT_GT", a, b, >, VERIF_GTEST_FATAL)
#define ASSERT_GE(a, b) VERIF_GTEST_CMP("ASSERT_GE", a, b, >=, VERIF_GTEST_FATAL)

#ifndef VERIF_GTEST_NO_MAIN
int main() { return RUN_ALL_TESTS(); }
#endif

#endif  // VERIF_RUNTIME_CPP_GTEST_STANDIN_H
