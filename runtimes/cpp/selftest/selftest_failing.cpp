// Checks the gtest stand-in itself: failures must be counted, ASSERT must leave the body, exceptions must be contained.
// Expected last line: "RAN 5 FAILED 3", exit status 1.
#include <gtest/gtest.h>
#include <stdexcept>

static int reached = 0;

TEST(StandIn, Passes) { EXPECT_TRUE(1 + 1 == 2); EXPECT_EQ(2, 2); ASSERT_FALSE(false); }
TEST(StandIn, ExpectFailsAndContinues) {
  EXPECT_EQ(1, 2) << "streamed " << 42;
  EXPECT_TRUE(false);
  reached++;
}
TEST(StandIn, AssertLeavesTheBody) {
  ASSERT_EQ(1, 2);
  reached += 100;
}
TEST(StandIn, ExceptionIsContained) { throw std::runtime_error("boom"); }
TEST(StandIn, ZLast) { EXPECT_EQ(reached, 1); }
