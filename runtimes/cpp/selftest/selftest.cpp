// Self-test of the C++ harness runtime (runtimes/cpp). Build and run with ./run.sh in this directory.
#include "selftest_msgs.hpp"
#include <gtest/gtest.h>

#include <cmath>
#include <cstring>

static std::string hex(const ByteBuf& b) {
  static const char* d = "0123456789abcdef";
  std::string s;
  for (std::size_t i = 0; i < b.size(); i++) {
    s.push_back(d[b.data()[i] >> 4]);
    s.push_back(d[b.data()[i] & 15]);
  }
  return s;
}

static ByteBuf from(std::initializer_list<int> l) {
  std::vector<uint8_t> v;
  for (int x : l) v.push_back(static_cast<uint8_t>(x));
  return ByteBuf(v);
}

template <class F>
static bool throwsOutOfRange(F f) {
  try {
    f();
  } catch (const std::out_of_range&) {
    return true;
  } catch (...) {
    return false;
  }
  return false;
}

template <class E, class F>
static bool throwsE(F f) {
  try {
    f();
  } catch (const E&) {
    return true;
  } catch (...) {
    return false;
  }
  return false;
}

TEST(ByteBuf, BigAndLittleEndianIntegers) {
  ByteBuf b;
  b.write_u8(0xab);
  b.write_i8(-2);
  b.write_u16(0x0102);
  b.write_u16_le(0x0102);
  b.write_i16(-2);
  b.write_i16_le(-2);
  b.write_u32(0x01020304u);
  b.write_u32_le(0x01020304u);
  b.write_i32(-3);
  b.write_i32_le(-3);
  b.write_u64(0x0102030405060708ull);
  b.write_u64_le(0x0102030405060708ull);
  b.write_i64(-4);
  b.write_i64_le(-4);
  EXPECT_EQ(hex(b),
            "abfe" "0102" "0201" "fffe" "feff" "01020304" "04030201" "fffffffd" "fdffffff"
            "0102030405060708" "0807060504030201" "fffffffffffffffc" "fcffffffffffffff");
  EXPECT_EQ(b.writer_index(), 58u);
  EXPECT_EQ(b.read_u8(), 0xab);
  EXPECT_EQ(b.read_i8(), -2);
  EXPECT_EQ(b.read_u16(), 0x0102);
  EXPECT_EQ(b.read_u16_le(), 0x0102);
  EXPECT_EQ(b.read_i16(), -2);
  EXPECT_EQ(b.read_i16_le(), -2);
  EXPECT_EQ(b.read_u32(), 0x01020304u);
  EXPECT_EQ(b.read_u32_le(), 0x01020304u);
  EXPECT_EQ(b.read_i32(), -3);
  EXPECT_EQ(b.read_i32_le(), -3);
  EXPECT_EQ(b.read_u64(), 0x0102030405060708ull);
  EXPECT_EQ(b.read_u64_le(), 0x0102030405060708ull);
  EXPECT_EQ(b.read_i64(), -4);
  EXPECT_EQ(b.read_i64_le(), -4);
  EXPECT_EQ(b.reader_index(), 58u);
  EXPECT_EQ(b.readable_bytes(), 0u);
}

TEST(ByteBuf, Floats) {
  ByteBuf b;
  b.write_f32(1.5f);
  b.write_f32_le(1.5f);
  b.write_f64(-2.25);
  b.write_f64_le(-2.25);
  EXPECT_EQ(hex(b), "3fc00000" "0000c03f" "c002000000000000" "00000000000002c0");
  EXPECT_EQ(b.read_f32(), 1.5f);
  EXPECT_EQ(b.read_f32_le(), 1.5f);
  EXPECT_EQ(b.read_f64(), -2.25);
  EXPECT_EQ(b.read_f64_le(), -2.25);
  // bit patterns survive (denormal, negative zero)
  ByteBuf c = from({0x00, 0x00, 0x00, 0x01, 0x80, 0, 0, 0, 0, 0, 0, 0});
  float den = c.read_f32();
  uint32_t bits;
  std::memcpy(&bits, &den, 4);
  EXPECT_EQ(bits, 1u);
  double nz = c.read_f64();
  EXPECT_TRUE(std::signbit(nz));
  EXPECT_EQ(nz, 0.0);
}

TEST(ByteBuf, WriteAt) {
  ByteBuf b;
  b.write_u16(0);
  b.write_u32(0);
  b.write_u8(9);
  b.write_u16_at(0, 0x1234);
  b.write_u32_le_at(2, 0x01020304u);
  EXPECT_EQ(hex(b), "1234" "04030201" "09");
  b.write_u8_at(6, 7);
  b.write_i8_le_at(6, -1);
  EXPECT_EQ(hex(b), "1234" "04030201" "ff");
  EXPECT_EQ(b.writer_index(), 7u);
  EXPECT_TRUE(throwsOutOfRange([&] { b.write_u16_at(6, 1); }));
  EXPECT_TRUE(throwsOutOfRange([&] { b.write_u8_at(7, 1); }));
  EXPECT_TRUE(throwsOutOfRange([&] { b.write_u64_at(static_cast<std::size_t>(-1), 1); }));
  EXPECT_EQ(hex(b), "1234" "04030201" "ff");
}

TEST(ByteBuf, ReadsBeyondTheEndThrow) {
  ByteBuf e;
  EXPECT_TRUE(throwsOutOfRange([&] { e.read_u8(); }));
  ByteBuf b = from({1, 2, 3});
  EXPECT_TRUE(throwsOutOfRange([&] { b.read_u32(); }));
  EXPECT_EQ(b.reader_index(), 0u);  // a failed read consumes nothing
  EXPECT_EQ(b.read_u16(), 0x0102);
  EXPECT_TRUE(throwsOutOfRange([&] { b.read_u16_le(); }));
  EXPECT_TRUE(throwsOutOfRange([&] { b.read_f64(); }));
  EXPECT_EQ(b.read_u8(), 3);
  EXPECT_TRUE(throwsOutOfRange([&] { b.read_i8(); }));
}

TEST(Codec, StringsAndPrefixes) {
  ByteBuf b;
  codec::write_string<uint16_t>(b, "h\xc3\xa9");  // 3 UTF-8 bytes
  codec::write_string_le<uint16_t>(b, "ab");
  codec::write_string<uint8_t>(b, "");
  codec::write_string<uint32_t>(b, "x");
  codec::write_string_le<uint64_t>(b, "y");
  EXPECT_EQ(hex(b), "0003" "68c3a9" "0200" "6162" "00" "00000001" "78" "0100000000000000" "79");
  EXPECT_EQ(codec::read_string<uint16_t>(b), "h\xc3\xa9");
  EXPECT_EQ(codec::read_string_le<uint16_t>(b), "ab");
  EXPECT_EQ(codec::read_string<uint8_t>(b), "");
  EXPECT_EQ(codec::read_string<uint32_t>(b), "x");
  EXPECT_EQ(codec::read_string_le<uint64_t>(b), "y");
  // prefix too small for the value: loud, not truncated
  ByteBuf c;
  EXPECT_TRUE(throwsE<std::length_error>([&] { codec::write_string<uint8_t>(c, std::string(256, 'y')); }));
  codec::write_string<uint8_t>(c, std::string(255, 'x'));
  EXPECT_EQ(c.size(), 256u);
  // short input
  ByteBuf s1 = from({0x00});
  EXPECT_TRUE(throwsOutOfRange([&] { codec::read_string<uint16_t>(s1); }));
  ByteBuf s2 = from({0x00, 0x05, 'a', 'b'});
  EXPECT_TRUE(throwsOutOfRange([&] { codec::read_string<uint16_t>(s2); }));
  ByteBuf s3 = from({0xff, 0xff, 0xff, 0xff, 0xff, 0xff, 0xff, 0xff, 'a'});
  EXPECT_TRUE(throwsOutOfRange([&] { codec::read_string<uint64_t>(s3); }));
  ByteBuf s4 = from({0xff, 'a'});
  EXPECT_TRUE(throwsOutOfRange([&] { codec::read_string<int8_t>(s4); }));  // negative length
}

TEST(Codec, BasicTypeLists) {
  ByteBuf b;
  codec::write_basic_type<uint16_t, uint32_t>(b, {1, 0x01020304u});
  codec::write_basic_type_le<uint16_t, int16_t>(b, {-2});
  codec::write_basic_type<uint8_t, uint8_t>(b, {});
  codec::write_basic_type_le<uint32_t, double>(b, {1.5});
  codec::write_basic_type<uint64_t, float>(b, {1.5f});
  EXPECT_EQ(hex(b), "0002" "00000001" "01020304" "0100" "feff" "00" "01000000" "000000000000f83f"
                    "0000000000000001" "3fc00000");
  EXPECT_EQ((codec::read_basic_type<uint16_t, uint32_t>(b)), (std::vector<uint32_t>{1, 0x01020304u}));
  EXPECT_EQ((codec::read_basic_type_le<uint16_t, int16_t>(b)), (std::vector<int16_t>{-2}));
  EXPECT_EQ((codec::read_basic_type<uint8_t, uint8_t>(b)).size(), 0u);
  EXPECT_EQ((codec::read_basic_type_le<uint32_t, double>(b)), (std::vector<double>{1.5}));
  EXPECT_EQ((codec::read_basic_type<uint64_t, float>(b)), (std::vector<float>{1.5f}));
  ByteBuf s = from({0x00, 0x03, 0x00, 0x01, 0x00});
  EXPECT_TRUE(throwsOutOfRange([&] { codec::read_basic_type<uint16_t, uint16_t>(s); }));
  ByteBuf huge = from({0xff, 0xff, 0xff, 0xff, 0xff, 0xff, 0xff, 0xff, 1, 2});
  EXPECT_TRUE(throwsOutOfRange([&] { codec::read_basic_type<uint64_t, uint64_t>(huge); }));
}

TEST(Codec, StringLists) {
  ByteBuf b;
  codec::write_string_list<uint16_t, uint8_t>(b, {"a", "", "bc"});
  codec::write_string_list_le<uint32_t, uint16_t>(b, {"z"});
  EXPECT_EQ(hex(b), "0003" "0161" "00" "026263" "01000000" "0100" "7a");
  EXPECT_EQ((codec::read_string_list<uint16_t, uint8_t>(b)), (std::vector<std::string>{"a", "", "bc"}));
  EXPECT_EQ((codec::read_string_list_le<uint32_t, uint16_t>(b)), (std::vector<std::string>{"z"}));
  ByteBuf s = from({0x00, 0x02, 0x01, 'a'});
  EXPECT_TRUE(throwsOutOfRange([&] { codec::read_string_list<uint16_t, uint8_t>(s); }));
}

TEST(Codec, FixedStringsPadding) {
  ByteBuf b;
  codec::write_fixed_string(b, "ab", 4);               // default: ' ' on the right
  codec::write_fixed_string(b, "ab", 4, '0', true);    // pad first
  codec::write_fixed_string(b, "ab", 4, '0', false);
  codec::write_fixed_string(b, "ab", 4, '\0', false);
  codec::write_fixed_string(b, "", 2, ' ', true);
  codec::write_fixed_string(b, "xyz", 3);
  EXPECT_EQ(hex(b), "61622020" "30306162" "61623030" "61620000" "2020" "78797a");
  EXPECT_EQ(codec::read_fixed_string(b, 4), "ab");
  EXPECT_EQ(codec::read_fixed_string(b, 4, '0', true), "ab");
  EXPECT_EQ(codec::read_fixed_string(b, 4, '0', false), "ab");
  EXPECT_EQ(codec::read_fixed_string(b, 4, '\0', false), "ab");
  EXPECT_EQ(codec::read_fixed_string(b, 2, ' ', true), "");
  EXPECT_EQ(codec::read_fixed_string(b, 3), "xyz");
  // trimming is on one side only and only of the pad character
  ByteBuf c = from({' ', 'a', ' ', ' ', '0', 'a', '0', '0', '0', 'a', '0', '0'});
  EXPECT_EQ(codec::read_fixed_string(c, 4), " a");
  EXPECT_EQ(codec::read_fixed_string(c, 4, '0', true), "a00");
  EXPECT_EQ(codec::read_fixed_string(c, 4, '0', false), "0a");
  // too long is an error and writes nothing
  ByteBuf d;
  EXPECT_TRUE(throwsE<std::length_error>([&] { codec::write_fixed_string(d, "abcde", 4); }));
  EXPECT_TRUE(throwsE<std::length_error>([&] { codec::write_fixed_string(d, "abcde", 4, '0', true); }));
  EXPECT_EQ(d.size(), 0u);
  ByteBuf s = from({'a', 'b'});
  EXPECT_TRUE(throwsOutOfRange([&] { codec::read_fixed_string(s, 3); }));
  EXPECT_TRUE(throwsOutOfRange([&] { codec::read_fixed_string(s, 3, '0', true); }));
}

TEST(Codec, FixedStringLists) {
  ByteBuf b;
  codec::write_fixed_string_list<uint16_t>(b, {"a", "bc"}, 2);
  codec::write_fixed_string_list<uint8_t>(b, {"a"}, 3, '0', true);
  codec::write_fixed_string_list_le<uint32_t>(b, {"q"}, 2, '\0', false);
  codec::write_fixed_string_list_le<uint16_t>(b, {}, 2);
  EXPECT_EQ(hex(b), "0002" "6120" "6263" "01" "303061" "01000000" "7100" "0000");
  EXPECT_EQ((codec::read_fixed_string_list<uint16_t>(b, 2)), (std::vector<std::string>{"a", "bc"}));
  EXPECT_EQ((codec::read_fixed_string_list<uint8_t>(b, 3, '0', true)), (std::vector<std::string>{"a"}));
  EXPECT_EQ((codec::read_fixed_string_list_le<uint32_t>(b, 2, '\0', false)), (std::vector<std::string>{"q"}));
  EXPECT_EQ((codec::read_fixed_string_list_le<uint16_t>(b, 2)).size(), 0u);
  ByteBuf s = from({0x00, 0x02, 'a', 'b', 'c'});
  EXPECT_TRUE(throwsOutOfRange([&] { codec::read_fixed_string_list<uint16_t>(s, 2); }));
}

TEST(Codec, ObjectListsEqualityAndJoin) {
  Beta x{};
  x.b1 = 5;
  Beta y{};
  y.b1 = 6;
  std::vector<Beta> v{x, y};
  ByteBuf b;
  codec::write_object_List<uint16_t>(b, v);
  codec::write_object_List_le<uint32_t>(b, v);
  EXPECT_EQ(hex(b), "0002" "0506" "02000000" "0506");
  auto r1 = codec::read_object_List<uint16_t, Beta>(b);
  auto r2 = codec::read_object_List_le<uint32_t, Beta>(b);
  EXPECT_TRUE(r1 == v);  // operator== over equals, found by ADL inside std::vector
  EXPECT_TRUE(r2 == v);
  EXPECT_TRUE(x == x);
  EXPECT_FALSE(x == y);
  Alpha a{};
  EXPECT_FALSE(static_cast<const codec::BinaryCodec&>(x) == a);  // different dynamic types
  EXPECT_EQ(codec::join_vector<Beta>(v), "[Beta { B1: 5 }, Beta { B1: 6 }]");
  EXPECT_EQ(codec::join_vector<uint8_t>({1, 200}), "[1, 200]");
  EXPECT_EQ(codec::join_vector<int8_t>({-1}), "[-1]");
  EXPECT_EQ(codec::join_vector<std::string>({"a", "b"}), "[a, b]");
  EXPECT_EQ(codec::join_vector<uint32_t>({}), "[]");
  ByteBuf s = from({0x00, 0x02, 0x01});
  EXPECT_TRUE(throwsOutOfRange([&] { codec::read_object_List<uint16_t, Beta>(s); }));
}

TEST(Checksum, FormulaWidthsAndSignedness) {
  ByteBuf b = from({0x01, 0x02, 0x80});  // sum = 1*1 + 2*2 + 128*3 = 389 = 0x185
  auto& ctx = ChecksumServiceContext::instance();
  // 0x185 * 0x0101010101010101 = 0x...8685 pattern: bytes (from the low end) 85, 86, 86, ...
  ASSERT_TRUE((ctx.get<ByteBuf, uint8_t>("SUMU8")) != nullptr);
  EXPECT_EQ((ctx.get<ByteBuf, uint8_t>("SUMU8")->calc(b)), 0x85);
  EXPECT_EQ((ctx.get<ByteBuf, uint16_t>("SUMU16")->calc(b)), 0x8685);
  EXPECT_EQ((ctx.get<ByteBuf, uint32_t>("SUMU32")->calc(b)), 0x86868685u);
  EXPECT_EQ((ctx.get<ByteBuf, uint64_t>("SUMU64")->calc(b)), 0x8686868686868685ull);
  EXPECT_EQ((ctx.get<ByteBuf, uint32_t>("CRC32")->calc(b)), 0x86868685u);
  EXPECT_EQ((ctx.get<ByteBuf, int8_t>("SUMI8")->calc(b)), static_cast<int8_t>(0x85));
  EXPECT_TRUE((ctx.get<ByteBuf, int8_t>("SUMI8")->calc(b)) < 0);
  EXPECT_EQ((ctx.get<ByteBuf, int16_t>("SUMI16")->calc(b)), static_cast<int16_t>(0x8685));
  EXPECT_EQ((ctx.get<ByteBuf, int32_t>("SUMI32")->calc(b)), static_cast<int32_t>(0x86868685u));
  EXPECT_EQ((ctx.get<ByteBuf, int64_t>("SUMI64")->calc(b)), static_cast<int64_t>(0x8686868686868685ull));
  ByteBuf empty;
  EXPECT_EQ((ctx.get<ByteBuf, uint32_t>("SUMU32")->calc(empty)), 0u);
  // covers every byte written so far, independent of the reader index
  ByteBuf c = from({0x01, 0x02, 0x80});
  c.read_u16();
  EXPECT_EQ((ctx.get<ByteBuf, uint16_t>("SUMU16")->calc(c)), 0x8685);
}

TEST(Checksum, UnregisteredAndMistypedLookupsReturnNull) {
  auto& ctx = ChecksumServiceContext::instance();
  EXPECT_TRUE((ctx.get<ByteBuf, uint32_t>("NOSUCH")) == nullptr);
  EXPECT_TRUE((ctx.get<ByteBuf, uint32_t>("")) == nullptr);
  EXPECT_TRUE((ctx.get<ByteBuf, uint32_t>("sumu32")) == nullptr);
  EXPECT_TRUE((ctx.get<ByteBuf, uint16_t>("SUMU32")) == nullptr);  // width mismatch
  EXPECT_TRUE((ctx.get<ByteBuf, int32_t>("SUMU32")) == nullptr);   // signedness mismatch
  EXPECT_TRUE((ctx.get<ByteBuf, int32_t>("CRC32")) == nullptr);
  EXPECT_TRUE((ctx.get<ByteBuf, uint16_t>("CRC32")) == nullptr);
  EXPECT_TRUE((ctx.get<ByteBuf, float>("SUMU32")) == nullptr);
  ctx.add<ByteBuf, uint16_t>("MINE", std::function<uint16_t(const ByteBuf&)>([](const ByteBuf& b) {
                               return static_cast<uint16_t>(b.size());
                             }));
  ASSERT_TRUE((ctx.get<ByteBuf, uint16_t>("MINE")) != nullptr);
  ByteBuf three = from({1, 2, 3});
  EXPECT_EQ((ctx.get<ByteBuf, uint16_t>("MINE")->calc(three)), 3);
  EXPECT_TRUE((ctx.get<ByteBuf, uint32_t>("MINE")) == nullptr);
}

TEST(MessageFactory, RegisteredInAHeaderSeveralTimesPerFactory) {
  auto& f = MsgMessageFactory::getInstance();
  EXPECT_EQ(f.size(), 3u);
  auto a = f.create(1);
  ASSERT_TRUE(a != nullptr);
  EXPECT_TRUE(dynamic_cast<Alpha*>(a.get()) != nullptr);
  EXPECT_TRUE(dynamic_cast<Beta*>(f.create(2).get()) != nullptr);
  EXPECT_TRUE(dynamic_cast<Beta*>(f.create(7).get()) != nullptr);
  uint16_t k = 2;
  std::unique_ptr<codec::BinaryCodec> body;
  body = f.create(k);  // the emitted assignment shape
  EXPECT_TRUE(dynamic_cast<Beta*>(body.get()) != nullptr);
  EXPECT_EQ(dynamic_cast<Beta*>(body.get())->b1, 0);  // created value-initialised

  auto& s = StrMessageFactory::getInstance();
  EXPECT_EQ(s.size(), 3u);
  std::string key = "B";
  EXPECT_TRUE(dynamic_cast<Alpha*>(s.create(key).get()) != nullptr);
  EXPECT_TRUE(dynamic_cast<Beta*>(s.create("C").get()) != nullptr);

  int8_t neg = -1;
  EXPECT_TRUE(dynamic_cast<Beta*>(NegMessageFactory::getInstance().create(neg).get()) != nullptr);
}

TEST(MessageFactory, UnmappedKeyThrowsRuntimeError) {
  EXPECT_TRUE(throwsE<std::runtime_error>([] { MsgMessageFactory::getInstance().create(3); }));
  EXPECT_TRUE(throwsE<std::runtime_error>([] { MsgMessageFactory::getInstance().create(0); }));
  EXPECT_TRUE(throwsE<std::runtime_error>([] { StrMessageFactory::getInstance().create("a"); }));
  EXPECT_TRUE(throwsE<std::runtime_error>([] { StrMessageFactory::getInstance().create(""); }));
  EXPECT_TRUE(throwsE<std::runtime_error>([] { NegMessageFactory::getInstance().create(1); }));
  // factories with the same key type but different tags are distinct
  struct OtherTag {};
  using Other = MessageFactory<uint16_t, codec::BinaryCodec, OtherTag>;
  EXPECT_EQ(Other::getInstance().size(), 0u);
  EXPECT_TRUE(throwsE<std::runtime_error>([] { Other::getInstance().create(1); }));
}

TEST(EmittedShape, LengthPatchMatchChecksumRoundTrip) {
  auto body = std::make_unique<Alpha>();
  body->a1 = 4;
  body->a2 = "hello";
  Beta e{};
  e.b1 = 9;
  Msg original;
  original.bodyLen = 0;
  original.kind = 1;
  original.body = std::move(body);
  original.list = {e};
  original.sum = 0;
  ByteBuf buf;
  original.encode(buf);
  // len(=11) kind body(u32 4, u16 5, hello) count(1) 09, then CRC32 over the 18 preceding bytes
  EXPECT_EQ(hex(buf).substr(0, 36), "000b" "0001" "00000004" "0005" "68656c6c6f" "0001" "09");
  EXPECT_EQ(buf.size(), 22u);
  ByteBuf pre(buf.data(), 18);
  uint32_t want = ChecksumServiceContext::instance().get<ByteBuf, uint32_t>("CRC32")->calc(pre);
  Msg decoded;
  decoded.decode(buf);
  EXPECT_EQ(decoded.sum, want);
  EXPECT_EQ(decoded.bodyLen, 11);
  EXPECT_EQ(buf.reader_index(), 22u);
  original.bodyLen = decoded.bodyLen;
  original.sum = decoded.sum;
  EXPECT_TRUE(original == decoded);
  EXPECT_EQ(decoded.toString(), "Msg { Body: Alpha { A1: 4, A2: hello }, List: [Beta { B1: 9 }] }");
  // unmapped key and short input surface as exceptions from decode
  ByteBuf bad = from({0x00, 0x00, 0x00, 0x09});
  Msg m1;
  EXPECT_TRUE(throwsE<std::runtime_error>([&] { m1.decode(bad); }));
  ByteBuf shortBuf(buf.data(), 10);
  Msg m2;
  EXPECT_TRUE(throwsOutOfRange([&] { m2.decode(shortBuf); }));
}
