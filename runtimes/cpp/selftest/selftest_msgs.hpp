// Shaped like an emitted header: structs, factories and REGISTER_MESSAGE at namespace scope of a header.
#pragma once
#include <cstdint>
#include <functional>
#include <iomanip>
#include <memory>
#include <string>
#include <unordered_map>
#include <vector>
#include <iostream>
#include "include/codec.hpp"
#include "include/bytebuf.hpp"
#include "include/checksum.hpp"
#include "message_factory.hpp"

struct Alpha : public codec::BinaryCodec {
    uint32_t a1;
    std::string a2;
    void encode(ByteBuf& buf) const override {
        buf.write_u32(a1);
        codec::write_string<uint16_t>(buf, a2);
    }
    void decode(ByteBuf& buf) override {
        a1 = buf.read_u32();
        a2 = codec::read_string<uint16_t>(buf);
    }
    bool equals(const BinaryCodec& other) const override {
        const auto* checkType = dynamic_cast<const Alpha*>(&other);
        if(!checkType) return false;
        return a1 == checkType->a1 && a2 == checkType->a2;
    }
    std::string toString() const override {
        std::ostringstream oss;
        oss << "Alpha { " << "A1: " << std::to_string(a1) << ", " << "A2: " << a2 << " }";
        return oss.str();
    }
};
inline std::ostream& operator<<(std::ostream& os, const Alpha& pkt) { return os << pkt.toString(); }

struct Beta : public codec::BinaryCodec {
    uint8_t b1;
    void encode(ByteBuf& buf) const override { buf.write_u8(b1); }
    void decode(ByteBuf& buf) override { b1 = buf.read_u8(); }
    bool equals(const BinaryCodec& other) const override {
        const auto* checkType = dynamic_cast<const Beta*>(&other);
        if(!checkType) return false;
        return b1 == checkType->b1;
    }
    std::string toString() const override {
        std::ostringstream oss;
        oss << "Beta { " << "B1: " << static_cast<unsigned>(b1) << " }";
        return oss.str();
    }
};
inline std::ostream& operator<<(std::ostream& os, const Beta& pkt) { return os << pkt.toString(); }

struct MsgTag{};
using MsgMessageFactory = MessageFactory<uint16_t, codec::BinaryCodec, MsgTag>;
REGISTER_MESSAGE(MsgMessageFactory, 1, Alpha);
REGISTER_MESSAGE(MsgMessageFactory, 2, Beta);
REGISTER_MESSAGE(MsgMessageFactory, 7, Beta);

struct StrTag{};
using StrMessageFactory = MessageFactory<std::string, codec::BinaryCodec, StrTag>;
REGISTER_MESSAGE(StrMessageFactory, "A", Alpha);
REGISTER_MESSAGE(StrMessageFactory, "B", Alpha);
REGISTER_MESSAGE(StrMessageFactory, "C", Beta);

struct NegTag{};
using NegMessageFactory = MessageFactory<int8_t, codec::BinaryCodec, NegTag>;
REGISTER_MESSAGE(NegMessageFactory, -1, Beta);

struct Msg : public codec::BinaryCodec {
    uint16_t bodyLen;
    uint16_t kind;
    std::unique_ptr<codec::BinaryCodec> body;
    std::vector<Beta> list;
    uint32_t sum;
    void encode(ByteBuf& buf) const override {
        auto bodyLenPos = buf.writer_index();
        buf.write_u16(0);
        buf.write_u16(kind);
        auto bodyStart = buf.writer_index();
        body->encode(buf);
        auto bodyEnd = buf.writer_index();
        auto bodyLen_ = static_cast<unsigned int>(bodyEnd - bodyStart);
        buf.write_u16_at(bodyLenPos, bodyLen_);
        codec::write_object_List<uint16_t>(buf,list);
        auto service = ChecksumServiceContext::instance().get<ByteBuf, uint32_t>("CRC32");
        if(service != nullptr){
            auto cs = service->calc(buf);
            buf.write_u32(cs);
        } else {
            buf.write_u32(sum);
        }
    }
    void decode(ByteBuf& buf) override {
        bodyLen = buf.read_u16();
        kind = buf.read_u16();
        body = MsgMessageFactory::getInstance().create(kind);
        body->decode(buf);
        list = codec::read_object_List<uint16_t,Beta>(buf);
        sum = buf.read_u32();
    }
    bool equals(const BinaryCodec& other) const override {
        const auto* checkType = dynamic_cast<const Msg*>(&other);
        if(!checkType) return false;
        return bodyLen == checkType->bodyLen && kind == checkType->kind
               && body->equals(*checkType->body) && list == checkType->list && sum == checkType->sum;
    }
    std::string toString() const override {
        std::ostringstream oss;
        oss << "Msg { " << "Body: " << body->toString() << ", " << "List: " << codec::join_vector<Beta>(list) << " }";
        return oss.str();
    }
};
inline std::ostream& operator<<(std::ostream& os, const Msg& pkt) { return os << pkt.toString(); }
