#!/bin/bash
# Self-test of the C++ harness runtime. usage: runtimes/cpp/selftest/run.sh   (exit 0 = all good)
# Builds with both installed compilers under ASan+UBSan; scratch under /var/tmp.
set -u
HERE="$(cd "$(dirname "$0")" && pwd)"
RT="$(dirname "$HERE")"
OUT="$(mktemp -d /var/tmp/cpp-selftest.XXXXXX)" || exit 2
trap 'rm -rf "$OUT"' EXIT
rc=0
for CXX in g++ clang++; do
  command -v "$CXX" >/dev/null || { echo "skip $CXX (not installed)"; continue; }
  FLAGS="-std=c++17 -O0 -g0 -Wall -Wextra -fsanitize=address,undefined -fno-sanitize-recover=undefined -I$RT -I$HERE"
  if ! timeout 300 "$CXX" $FLAGS "$HERE/selftest.cpp" -o "$OUT/selftest.$CXX" 2>"$OUT/log"; then
    echo "FAIL $CXX: selftest.cpp does not compile"; head -30 "$OUT/log"; rc=1; continue
  fi
  [ -s "$OUT/log" ] && { echo "warnings from $CXX:"; head -20 "$OUT/log"; }
  ASAN_OPTIONS=detect_leaks=0 timeout 60 "$OUT/selftest.$CXX" >"$OUT/out" 2>&1; st=$?
  last="$(grep '^RAN ' "$OUT/out" | tail -1)"
  if [ $st -ne 0 ] || ! echo "$last" | grep -q ' FAILED 0$'; then
    echo "FAIL $CXX: selftest (exit $st)"; cat "$OUT/out"; rc=1
  else
    echo "ok   $CXX: selftest $last"
  fi
  if ! timeout 300 "$CXX" $FLAGS "$HERE/selftest_failing.cpp" -o "$OUT/failing.$CXX" 2>"$OUT/log"; then
    echo "FAIL $CXX: selftest_failing.cpp does not compile"; head -30 "$OUT/log"; rc=1; continue
  fi
  ASAN_OPTIONS=detect_leaks=0 timeout 60 "$OUT/failing.$CXX" >"$OUT/out" 2>&1; st=$?
  last="$(grep '^RAN ' "$OUT/out" | tail -1)"
  if [ $st -ne 1 ] || [ "$last" != "RAN 5 FAILED 3" ]; then
    echo "FAIL $CXX: gtest stand-in check: exit $st, last line '$last' (want exit 1, 'RAN 5 FAILED 3')"; cat "$OUT/out"; rc=1
  else
    echo "ok   $CXX: gtest stand-in counts failures ($last, exit 1)"
  fi
done
exit $rc
