// Package drv is the generic observer for emitted Go codecs. A generated main hands it a registry of
// the struct types the emitted package declares; everything else is done by reflection. It speaks the
// harness line protocol on stdin/stdout (see /verif/engine/internal/wire/tree.go) and contains no
// expected values: it builds what it is told to build, calls the emitted Encode/Decode and prints what
// it sees.
package drv

import (
	"bufio"
	"bytes"
	"encoding/hex"
	"fmt"
	"io"
	"math"
	"os"
	"reflect"
	"runtime"
	"runtime/debug"
	"sort"
	"strconv"
	"strings"
	"sync/atomic"
	"time"

	"github.com/xinchentechnote/fin-proto-go/codec"
)

// Limits that keep one misbehaving command from taking the process' neighbours down. When one trips,
// the process prints "FATAL <id> <text>" on stderr and exits with status 3; the orchestrator answers
// that command with an ERR and restarts the driver on the remaining commands.
var (
	CommandTimeout = 20 * time.Second
	HeapLimit      = uint64(1) << 30
)

func norm(s string) string { return strings.ToLower(strings.ReplaceAll(s, "_", "")) }

func oneline(s string) string {
	s = strings.Join(strings.Fields(s), " ")
	if len(s) > 300 {
		s = s[:300]
	}
	if s == "" {
		s = "(no message)"
	}
	return s
}

// unsupported is raised (as a panic value) while building a value the emitted code has no place for.
type unsupported struct{ what string }

type driver struct {
	types map[string]func() any // by exact name
	byLow map[string][]string   // normalised name -> exact names
	toks  []string
	pos   int
	pre   []byte // one-shot prefix of the next ENC's output buffer
	skip  int    // one-shot number of input bytes read before the next DEC
	twice bool   // ENCX: answer with the second encoding of the same object
}

var codecType = reflect.TypeOf((*codec.BinaryCodec)(nil)).Elem()

func (d *driver) lookup(name string) (reflect.Value, bool) {
	if f, ok := d.types[name]; ok {
		return reflect.ValueOf(f()), true
	}
	if c := d.byLow[norm(name)]; len(c) > 0 {
		return reflect.ValueOf(d.types[c[0]]()), true
	}
	return reflect.Value{}, false
}

func (d *driver) next() string {
	if d.pos >= len(d.toks) {
		panic(unsupported{"syntax unexpected end of value"})
	}
	t := d.toks[d.pos]
	d.pos++
	return t
}

func (d *driver) peek() string {
	if d.pos >= len(d.toks) {
		return ""
	}
	return d.toks[d.pos]
}

func fieldByName(t reflect.Type, name string) (reflect.StructField, bool) {
	want := norm(name)
	var found reflect.StructField
	ok := false
	for i := 0; i < t.NumField(); i++ {
		f := t.Field(i)
		if !f.IsExported() {
			continue
		}
		if f.Name == name {
			return f, true
		}
		if !ok && norm(f.Name) == want {
			found, ok = f, true
		}
	}
	return found, ok
}

// build parses one value from the token stream into a new reflect.Value of type t.
// where names the member being built (for messages).
func (d *driver) build(t reflect.Type, where string) reflect.Value {
	tok := d.next()
	switch {
	case tok == "nil":
		return reflect.Zero(t)

	case tok == "[":
		if t.Kind() != reflect.Slice {
			panic(unsupported{fmt.Sprintf("badtype %s is %s, not a list", where, t)})
		}
		out := reflect.MakeSlice(t, 0, 4)
		i := 0
		for d.peek() != "]" {
			out = reflect.Append(out, d.build(t.Elem(), fmt.Sprintf("%s[%d]", where, i)))
			i++
		}
		d.next()
		return out

	case strings.HasPrefix(tok, "P:"):
		name := tok[2:]
		if d.next() != "{" {
			panic(unsupported{"syntax expected { after " + tok})
		}
		ptr := d.object(t, name, where)
		st := ptr.Elem()
		for d.peek() != "}" {
			fname := d.next()
			if d.next() != "=" {
				panic(unsupported{"syntax expected = after " + fname})
			}
			sf, ok := fieldByName(st.Type(), fname)
			if !ok {
				panic(unsupported{fmt.Sprintf("nomember %s.%s", name, fname)})
			}
			v := d.build(sf.Type, name+"."+fname)
			st.FieldByIndex(sf.Index).Set(v)
		}
		d.next()
		switch {
		case t == nil:
			return ptr
		case ptr.Type().AssignableTo(t):
			return ptr
		case st.Type().AssignableTo(t):
			return st
		}
		panic(unsupported{fmt.Sprintf("badtype %s is %s, cannot hold %s", where, t, ptr.Type())})

	case strings.HasPrefix(tok, "i:"):
		p := strings.Split(tok, ":")
		if len(p) != 3 || len(p[1]) < 2 {
			panic(unsupported{"syntax " + tok})
		}
		bits, err := strconv.ParseUint(p[2], 16, 64)
		w, err2 := strconv.Atoi(p[1][1:])
		if err != nil || err2 != nil || w < 8 || w > 64 {
			panic(unsupported{"syntax " + tok})
		}
		signed := p[1][0] == 'i'
		var sv int64
		if signed {
			sv = int64(bits<<(64-uint(w))) >> (64 - uint(w))
		}
		v := reflect.New(t).Elem()
		switch t.Kind() {
		case reflect.Int, reflect.Int8, reflect.Int16, reflect.Int32, reflect.Int64:
			if !signed {
				if bits > math.MaxInt64 {
					panic(unsupported{fmt.Sprintf("badtype %s is %s, cannot hold %d", where, t, bits)})
				}
				sv = int64(bits)
			}
			if v.OverflowInt(sv) {
				panic(unsupported{fmt.Sprintf("badtype %s is %s, cannot hold %d", where, t, sv)})
			}
			v.SetInt(sv)
		case reflect.Uint, reflect.Uint8, reflect.Uint16, reflect.Uint32, reflect.Uint64, reflect.Uintptr:
			if signed {
				if sv < 0 {
					panic(unsupported{fmt.Sprintf("badtype %s is %s, cannot hold %d", where, t, sv)})
				}
				bits = uint64(sv)
			}
			if v.OverflowUint(bits) {
				panic(unsupported{fmt.Sprintf("badtype %s is %s, cannot hold %d", where, t, bits)})
			}
			v.SetUint(bits)
		case reflect.Float32, reflect.Float64:
			if signed {
				v.SetFloat(float64(sv))
			} else {
				v.SetFloat(float64(bits))
			}
		case reflect.Bool:
			v.SetBool(bits != 0)
		default:
			panic(unsupported{fmt.Sprintf("badtype %s is %s, not an integer", where, t)})
		}
		return v

	case strings.HasPrefix(tok, "f:"):
		p := strings.Split(tok, ":")
		if len(p) != 3 {
			panic(unsupported{"syntax " + tok})
		}
		bits, err := strconv.ParseUint(p[2], 16, 64)
		if err != nil {
			panic(unsupported{"syntax " + tok})
		}
		v := reflect.New(t).Elem()
		switch t.Kind() {
		case reflect.Float32:
			if p[1] == "f32" {
				// keep the exact bit pattern (NaN payloads) when the widths agree
				f := math.Float32frombits(uint32(bits))
				*(*float32)(v.Addr().UnsafePointer()) = f
			} else {
				v.SetFloat(math.Float64frombits(bits))
			}
		case reflect.Float64:
			if p[1] == "f32" {
				v.SetFloat(float64(math.Float32frombits(uint32(bits))))
			} else {
				*(*float64)(v.Addr().UnsafePointer()) = math.Float64frombits(bits)
			}
		default:
			panic(unsupported{fmt.Sprintf("badtype %s is %s, not a float", where, t)})
		}
		return v

	case strings.HasPrefix(tok, "c:"):
		n, err := strconv.ParseInt(tok[2:], 10, 64)
		if err != nil {
			panic(unsupported{"syntax " + tok})
		}
		v := reflect.New(t).Elem()
		switch t.Kind() {
		case reflect.Int8:
			v.SetInt(int64(int8(n)))
		case reflect.Int, reflect.Int16, reflect.Int32, reflect.Int64:
			v.SetInt(n)
		case reflect.Uint, reflect.Uint8, reflect.Uint16, reflect.Uint32, reflect.Uint64:
			v.SetUint(uint64(n) & 0xff)
		case reflect.String:
			v.SetString(string([]byte{byte(n)}))
		default:
			panic(unsupported{fmt.Sprintf("badtype %s is %s, not a char", where, t)})
		}
		return v

	case strings.HasPrefix(tok, "s:"):
		b, err := hex.DecodeString(tok[2:])
		if err != nil {
			panic(unsupported{"syntax " + tok})
		}
		v := reflect.New(t).Elem()
		switch {
		case t.Kind() == reflect.String:
			v.SetString(string(b))
		case t.Kind() == reflect.Slice && t.Elem().Kind() == reflect.Uint8:
			v.SetBytes(b)
		case t.Kind() == reflect.Array && t.Elem().Kind() == reflect.Uint8:
			if len(b) > t.Len() {
				panic(unsupported{fmt.Sprintf("badtype %s is %s, cannot hold %d bytes", where, t, len(b))})
			}
			reflect.Copy(v, reflect.ValueOf(b))
		case t.Kind() == reflect.Ptr && t.Elem().Kind() == reflect.String:
			s := reflect.New(t.Elem())
			s.Elem().SetString(string(b))
			return s
		default:
			panic(unsupported{fmt.Sprintf("badtype %s is %s, not a string", where, t)})
		}
		return v
	}
	panic(unsupported{"syntax token " + tok})
}

// object makes a new struct for the packet called name that is to be stored in a place of type t
// (nil = a root object) and returns the pointer to it.
func (d *driver) object(t reflect.Type, name, where string) reflect.Value {
	// the place itself says which struct it holds: use it when it is the named one (this also reaches
	// types the registry cannot name)
	if t != nil {
		st := t
		if st.Kind() == reflect.Ptr {
			st = st.Elem()
		}
		if st.Kind() == reflect.Struct && st.Name() != "" && norm(st.Name()) == norm(name) {
			return reflect.New(st)
		}
	}
	v, ok := d.lookup(name)
	if !ok {
		panic(unsupported{"notype " + name})
	}
	if v.Kind() != reflect.Ptr || v.IsNil() || v.Elem().Kind() != reflect.Struct {
		panic(unsupported{"notype " + name + " (not a struct)"})
	}
	return v
}

// dump prints a value in the harness grammar.
func dump(b *strings.Builder, v reflect.Value, depth int) {
	if depth > 500 {
		panic("value nested deeper than 500 levels")
	}
	if !v.IsValid() {
		b.WriteString("nil")
		return
	}
	switch v.Kind() {
	case reflect.Ptr, reflect.Interface:
		if v.IsNil() {
			b.WriteString("nil")
			return
		}
		dump(b, v.Elem(), depth+1)
	case reflect.Struct:
		t := v.Type()
		name := t.Name()
		if name == "" {
			name = "_"
		}
		b.WriteString("P:" + name + " {")
		for i := 0; i < t.NumField(); i++ {
			b.WriteString(" " + t.Field(i).Name + " = ")
			dump(b, v.Field(i), depth+1)
		}
		b.WriteString(" }")
	case reflect.Slice, reflect.Array:
		if v.Kind() == reflect.Slice && v.IsNil() {
			b.WriteString("[ ]")
			return
		}
		b.WriteString("[")
		for i := 0; i < v.Len(); i++ {
			b.WriteString(" ")
			dump(b, v.Index(i), depth+1)
		}
		b.WriteString(" ]")
	case reflect.Int, reflect.Int8, reflect.Int16, reflect.Int32, reflect.Int64:
		b.WriteString("i:" + strconv.FormatInt(v.Int(), 10))
	case reflect.Uint, reflect.Uint8, reflect.Uint16, reflect.Uint32, reflect.Uint64, reflect.Uintptr:
		b.WriteString("i:" + strconv.FormatUint(v.Uint(), 10))
	case reflect.Bool:
		if v.Bool() {
			b.WriteString("i:1")
		} else {
			b.WriteString("i:0")
		}
	case reflect.Float32, reflect.Float64:
		b.WriteString("f:" + strconv.FormatUint(math.Float64bits(v.Float()), 16))
	case reflect.String:
		b.WriteString("s:" + hex.EncodeToString([]byte(v.String())))
	default:
		// maps, funcs, channels: nothing the emitter declares; keep the dump parsable
		b.WriteString("nil")
	}
}

func errText(r any) string {
	switch x := r.(type) {
	case error:
		return "panic: " + x.Error()
	default:
		return fmt.Sprintf("panic: %v", x)
	}
}

// guarded runs f and turns a panic into an error text ("" = fine). An unsupported panic is returned separately.
func guarded(f func() error) (msg string, uns *unsupported) {
	defer func() {
		if r := recover(); r != nil {
			if u, ok := r.(unsupported); ok {
				uns = &u
				return
			}
			msg = errText(r)
		}
	}()
	if err := f(); err != nil {
		return func() (s string) {
			defer func() {
				if r := recover(); r != nil {
					s = "error (its Error method panicked)"
				}
			}()
			s = err.Error()
			if s == "" {
				s = "error with empty text"
			}
			return
		}(), nil
	}
	return "", nil
}

var (
	current atomic.Value // string: id of the command being served
	started atomic.Int64 // unix nanos when it began (0 = idle)
)

func fatal(id, text string) {
	fmt.Fprintf(os.Stderr, "\nFATAL %s %s\n", id, oneline(text))
	os.Exit(3)
}

func watchdog() {
	var ms runtime.MemStats
	for {
		time.Sleep(250 * time.Millisecond)
		id, _ := current.Load().(string)
		if s := started.Load(); s != 0 && time.Since(time.Unix(0, s)) > CommandTimeout {
			fatal(id, fmt.Sprintf("command still running after %v (non-terminating encode/decode?)", CommandTimeout))
		}
		runtime.ReadMemStats(&ms)
		if ms.HeapAlloc > HeapLimit {
			fatal(id, fmt.Sprintf("heap grew beyond %d MiB", HeapLimit>>20))
		}
	}
}

// Main serves the protocol on stdin/stdout. types maps the name of every struct type the emitted
// package declares to a constructor returning a pointer to a new zero value.
func Main(types map[string]func() any) {
	Serve(types, os.Stdin, os.Stdout)
}

// Serve is Main on arbitrary streams.
func Serve(types map[string]func() any, in io.Reader, outw io.Writer) {
	debug.SetMaxStack(256 << 20)
	if ms, err := strconv.Atoi(os.Getenv("VERIF_DRV_CMD_TIMEOUT_MS")); err == nil && ms > 0 {
		CommandTimeout = time.Duration(ms) * time.Millisecond
	}
	d := &driver{types: types, byLow: map[string][]string{}}
	names := make([]string, 0, len(types))
	for n := range types {
		names = append(names, n)
	}
	sort.Strings(names)
	for _, n := range names {
		d.byLow[norm(n)] = append(d.byLow[norm(n)], n)
	}
	current.Store("")
	go watchdog()

	rd := bufio.NewReaderSize(in, 1<<20)
	out := bufio.NewWriterSize(outw, 1<<16)
	defer out.Flush()
	for {
		line, err := rd.ReadString('\n')
		if line == "" && err != nil {
			return
		}
		toks := strings.Fields(line)
		if len(toks) == 0 {
			if err != nil {
				return
			}
			continue
		}
		if toks[0] == "END" {
			return
		}
		if len(toks) < 2 {
			continue
		}
		id := toks[1]
		current.Store(id)
		started.Store(time.Now().UnixNano())
		switch toks[0] {
		case "ENC", "ENCX":
			d.twice = toks[0] == "ENCX"
			d.enc(out, id, toks[2:])
		case "DEC":
			d.dec(out, id, toks[2:])
		case "DECX":
			d.decTwice(out, id, toks[2:])
		case "PRE":
			// one-shot: the next ENC finds these bytes already in the output buffer
			d.pre = nil
			if len(toks) > 2 {
				d.pre, _ = hex.DecodeString(toks[2])
			}
			fmt.Fprintf(out, "OK %s\n", id)
		case "SKIP":
			// one-shot: the next DEC starts after this many bytes of its input have been read
			d.skip = 0
			if len(toks) > 2 {
				d.skip, _ = strconv.Atoi(toks[2])
			}
			fmt.Fprintf(out, "OK %s\n", id)
		case "UNREG", "REG":
			// the application changes the checksum registry between messages
			if len(toks) > 2 {
				if toks[0] == "REG" {
					codec.Restore(toks[2])
				} else {
					codec.Unregister(toks[2])
				}
			}
			fmt.Fprintf(out, "OK %s\n", id)
		default:
			fmt.Fprintf(out, "ERR %s unsupported command %s\n", id, toks[0])
		}
		started.Store(0)
		out.Flush()
		if err != nil {
			return
		}
	}
}

func (d *driver) enc(out *bufio.Writer, id string, toks []string) {
	d.toks, d.pos = toks, 0
	var obj reflect.Value
	msg, uns := guarded(func() error {
		obj = d.build(nil, "")
		return nil
	})
	if uns != nil {
		fmt.Fprintf(out, "ERR %s unsupported %s\n", id, oneline(uns.what))
		return
	}
	if msg != "" {
		fmt.Fprintf(out, "ERR %s unsupported build %s\n", id, oneline(msg))
		return
	}
	bc, ok := asCodec(obj)
	if !ok {
		fmt.Fprintf(out, "ERR %s unsupported nocodec %s has no Encode/Decode(*bytes.Buffer) error\n", id, obj.Type())
		return
	}
	var buf bytes.Buffer
	buf.Write(d.pre)
	d.pre = nil
	if msg, _ := guarded(func() error { return bc.Encode(&buf) }); msg != "" {
		fmt.Fprintf(out, "ERR %s error %s\n", id, oneline(msg))
		return
	}
	if d.twice {
		buf.Reset()
		if msg, _ := guarded(func() error { return bc.Encode(&buf) }); msg != "" {
			fmt.Fprintf(out, "ERR %s error second encoding of the same object: %s\n", id, oneline(msg))
			return
		}
	}
	fmt.Fprintf(out, "ENC %s %s\n", id, hex.EncodeToString(buf.Bytes()))
}

// decTwice: the same object decodes two messages one after the other; the answer describes the second decode.
func (d *driver) decTwice(out *bufio.Writer, id string, toks []string) {
	if len(toks) < 3 {
		fmt.Fprintf(out, "ERR %s unsupported syntax DECX <packet> <hex> <hex>\n", id)
		return
	}
	first, err1 := hex.DecodeString(toks[1])
	second, err2 := hex.DecodeString(toks[2])
	if err1 != nil || err2 != nil {
		fmt.Fprintf(out, "ERR %s unsupported syntax bad hex\n", id)
		return
	}
	obj, ok := d.lookup(toks[0])
	if !ok {
		fmt.Fprintf(out, "ERR %s unsupported notype %s\n", id, toks[0])
		return
	}
	bc, ok := asCodec(obj)
	if !ok {
		fmt.Fprintf(out, "ERR %s unsupported nocodec %s\n", id, obj.Type())
		return
	}
	if msg, _ := guarded(func() error { return bc.Decode(bytes.NewBuffer(first)) }); msg != "" {
		fmt.Fprintf(out, "ERR %s inapplicable first decode failed: %s\n", id, oneline(msg))
		return
	}
	buf := bytes.NewBuffer(second)
	if msg, _ := guarded(func() error { return bc.Decode(buf) }); msg != "" {
		fmt.Fprintf(out, "ERR %s error %s\n", id, oneline(msg))
		return
	}
	var sb strings.Builder
	if msg, _ := guarded(func() error { dump(&sb, obj, 0); return nil }); msg != "" {
		fmt.Fprintf(out, "ERR %s error dump: %s\n", id, oneline(msg))
		return
	}
	fmt.Fprintf(out, "DEC %s %d %s\n", id, len(second)-buf.Len(), sb.String())
}

func asCodec(v reflect.Value) (codec.BinaryCodec, bool) {
	if !v.IsValid() || !v.CanInterface() {
		return nil, false
	}
	bc, ok := v.Interface().(codec.BinaryCodec)
	return bc, ok
}

func (d *driver) dec(out *bufio.Writer, id string, toks []string) {
	if len(toks) < 1 {
		fmt.Fprintf(out, "ERR %s unsupported syntax DEC without a packet name\n", id)
		return
	}
	name := toks[0]
	var data []byte
	if len(toks) > 1 {
		b, err := hex.DecodeString(toks[1])
		if err != nil {
			fmt.Fprintf(out, "ERR %s unsupported syntax bad hex\n", id)
			return
		}
		data = b
	}
	obj, ok := d.lookup(name)
	if !ok {
		fmt.Fprintf(out, "ERR %s unsupported notype %s\n", id, name)
		return
	}
	bc, ok := asCodec(obj)
	if !ok {
		fmt.Fprintf(out, "ERR %s unsupported nocodec %s has no Encode/Decode(*bytes.Buffer) error\n", id, obj.Type())
		return
	}
	buf := bytes.NewBuffer(data)
	buf.Next(d.skip)
	d.skip = 0
	if msg, _ := guarded(func() error { return bc.Decode(buf) }); msg != "" {
		fmt.Fprintf(out, "ERR %s error %s\n", id, oneline(msg))
		return
	}
	pos := len(data) - buf.Len()
	var sb strings.Builder
	if msg, _ := guarded(func() error { dump(&sb, obj, 0); return nil }); msg != "" {
		fmt.Fprintf(out, "ERR %s error dump: %s\n", id, oneline(msg))
		return
	}
	fmt.Fprintf(out, "DEC %s %d %s\n", id, pos, sb.String())
	out.Flush()
	var buf2 bytes.Buffer
	if msg, _ := guarded(func() error { return bc.Encode(&buf2) }); msg != "" {
		fmt.Fprintf(out, "REENCERR %s %s\n", id, oneline(msg))
		return
	}
	fmt.Fprintf(out, "REENC %s %s\n", id, hex.EncodeToString(buf2.Bytes()))
}
