package drv

import (
	"bytes"
	"fmt"
	"strings"
	"testing"

	"github.com/xinchentechnote/fin-proto-go/codec"
)

type Sub struct {
	X int16
}

func (p *Sub) Encode(b *bytes.Buffer) error { return codec.WriteBasicType(b, p.X) }
func (p *Sub) Decode(b *bytes.Buffer) error {
	v, err := codec.ReadBasicType[int16](b)
	p.X = v
	return err
}

type Alpha struct{ A1 uint8 }

func (p *Alpha) Encode(b *bytes.Buffer) error { return codec.WriteBasicType(b, p.A1) }
func (p *Alpha) Decode(b *bytes.Buffer) error {
	v, err := codec.ReadBasicType[uint8](b)
	p.A1 = v
	return err
}

type Msg struct {
	MsgKind uint8
	F32     float32
	Name    string
	Tags    []string
	Nums    []int32
	Sub     *Sub
	Subs    []*Sub
	Body    codec.BinaryCodec
}

func (p *Msg) Encode(b *bytes.Buffer) error {
	codec.WriteBasicType(b, p.MsgKind)
	codec.WriteBasicTypeLE(b, p.F32)
	if err := codec.WriteString[uint8](b, p.Name); err != nil {
		return err
	}
	codec.WriteStringList[uint8, uint8](b, p.Tags)
	codec.WriteBasicTypeList[uint8](b, p.Nums)
	if err := p.Sub.Encode(b); err != nil { // panics on a nil Sub, like the emitted code
		return err
	}
	codec.WriteObjectList[uint8](b, p.Subs)
	if p.Body == nil {
		return fmt.Errorf("unknown message type")
	}
	return p.Body.Encode(b)
}

func (p *Msg) Decode(b *bytes.Buffer) error {
	var err error
	if p.MsgKind, err = codec.ReadBasicType[uint8](b); err != nil {
		return err
	}
	if p.F32, err = codec.ReadBasicTypeLE[float32](b); err != nil {
		return err
	}
	if p.Name, err = codec.ReadString[uint8](b); err != nil {
		return err
	}
	if p.Tags, err = codec.ReadStringList[uint8, uint8](b); err != nil {
		return err
	}
	if p.Nums, err = codec.ReadBasicTypeList[uint8, int32](b); err != nil {
		return err
	}
	p.Sub = &Sub{}
	if err = p.Sub.Decode(b); err != nil {
		return err
	}
	if p.Subs, err = codec.ReadObjectList[uint8](b, func() *Sub { return &Sub{} }); err != nil {
		return err
	}
	if p.MsgKind != 1 {
		return fmt.Errorf("unknown message type")
	}
	p.Body = &Alpha{}
	return p.Body.Decode(b)
}

type NoCodec struct{ X uint8 }

var registry = map[string]func() any{
	"Sub":     func() any { return new(Sub) },
	"Alpha":   func() any { return new(Alpha) },
	"Msg":     func() any { return new(Msg) },
	"NoCodec": func() any { return new(NoCodec) },
}

func serve(t *testing.T, script ...string) []string {
	t.Helper()
	var out bytes.Buffer
	Serve(registry, strings.NewReader(strings.Join(script, "\n")+"\nEND\nENC after P:Sub { }\n"), &out)
	lines := strings.Split(strings.TrimRight(out.String(), "\n"), "\n")
	return lines
}

func TestProtocol(t *testing.T) {
	val := "P:Msg { msg_kind = i:u8:1 F32 = f:f32:3fc00000 NAME = s:6869 Tags = [ s:61 s: ] Nums = [ i:i32:ffffffff i:i32:2 ] " +
		"Sub = P:Sub { X = i:i16:8000 } Subs = [ P:Sub { X = i:i16:1 } P:Sub { x = i:i16:2 } ] Body = P:Alpha { A_1 = i:u8:ff } }"
	wire := "01" + "0000c03f" + "026869" + "02" + "0161" + "00" + "02" + "ffffffff" + "00000002" + "8000" + "02" + "0001" + "0002" + "ff"
	got := serve(t,
		"ENC m0 "+val,
		"DEC d0 Msg "+wire+"aabb",
		"DEC d1 Msg "+wire[:len(wire)-2],
		"DEC d2 Msg",
		"DEC d3 msg 02"+wire[2:],
		"ENC e1 P:Msg { MsgKind = i:u8:1 }",
		"ENC e2 P:Msg { MsgKind = i:u8:1 Sub = P:Sub { } }",
		"ENC e3 P:Nope { }",
		"ENC e4 P:Msg { Zork = i:u8:1 }",
		"ENC e5 P:Msg { Sub = P:Sub { Y = i:u8:1 } }",
		"ENC e6 P:NoCodec { X = i:u8:1 }",
		"DEC e7 NoCodec 01",
		"DEC e8 Nope 01",
		"ENC e9 P:Msg { Name = nil Tags = nil Sub = P:Sub { X = i:i16:7fff } Subs = [ ] Body = P:Alpha { } }",
		"",
		"ENC e10 P:Sub { X = i:u16:ffff }",
	)
	want := []string{
		"ENC m0 " + wire,
		"DEC d0 " + fmt.Sprint(len(wire)/2) + " P:Msg { MsgKind = i:1 F32 = f:3ff8000000000000 Name = s:6869 Tags = [ s:61 s: ] Nums = [ i:-1 i:2 ] Sub = P:Sub { X = i:-32768 } Subs = [ P:Sub { X = i:1 } P:Sub { X = i:2 } ] Body = P:Alpha { A1 = i:255 } }",
		"REENC d0 " + wire,
		"ERR d1 error codec: read of 1 bytes (uint8) beyond end of buffer (0 left)",
		"ERR d2 error codec: read of 1 bytes (uint8) beyond end of buffer (0 left)",
		"ERR d3 error unknown message type",
		"ERR e1 error panic: runtime error: invalid memory address or nil pointer dereference",
		"ERR e2 error unknown message type",
		"ERR e3 unsupported notype Nope",
		"ERR e4 unsupported nomember Msg.Zork",
		"ERR e5 unsupported nomember Sub.Y",
		"ERR e6 unsupported nocodec *drv.NoCodec has no Encode/Decode(*bytes.Buffer) error",
		"ERR e7 unsupported nocodec *drv.NoCodec has no Encode/Decode(*bytes.Buffer) error",
		"ERR e8 unsupported notype Nope",
		"ENC e9 01" + "00000000" + "00" + "00" + "00" + "7fff" + "00" + "00",
		"ERR e10 unsupported badtype Sub.X is int16, cannot hold 65535",
	}
	// e9 has MsgKind unset: 00, not 01
	want[14] = "ENC e9 00" + "00000000" + "00" + "00" + "00" + "7fff" + "00" + "00"
	if len(got) != len(want) {
		t.Fatalf("got %d lines, want %d:\n%s", len(got), len(want), strings.Join(got, "\n"))
	}
	for i := range want {
		if got[i] != want[i] {
			t.Errorf("line %d:\n got %s\nwant %s", i, got[i], want[i])
		}
	}
}
