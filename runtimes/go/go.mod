module github.com/xinchentechnote/fin-proto-go

go 1.24

toolchain go1.24.2
