// Package codec is the harness' minimal conforming runtime for the Go target of fin-protoc.
//
// Its API surface is exactly what /repo/internal/parser/go_generator.go prints calls to (see
// /verif/DESIGN.md, Appendix A). Where a call site does not fix the shape of a parameter (the pad
// character, the prefix type) the helper is generic and permissive; it never repairs a wrong call:
// a helper instantiated with a prefix type really writes / reads that prefix type.
//
// Wire semantics (see /verif/runtimes/SPEC.md): big-endian unless the LE variant is called; strings
// carry a byte-count prefix; lists an element-count prefix; fixed strings are exactly n bytes,
// space padded on the right unless a pad character / side is given; reading beyond the end of the
// buffer is an error, never garbage.
package codec

import (
	"bytes"
	"encoding/binary"
	"fmt"
	"reflect"
)

// BinaryCodec is what every emitted packet type implements.
type BinaryCodec interface {
	Encode(buf *bytes.Buffer) error
	Decode(buf *bytes.Buffer) error
}

// Number is every fixed-width scalar the emitter can name (and named types over them).
type Number interface {
	~int8 | ~int16 | ~int32 | ~int64 | ~uint8 | ~uint16 | ~uint32 | ~uint64 | ~float32 | ~float64
}

// PadChar is anything a pad character may reasonably be passed as: the emitter prints rune literals
// ('0', ' ', '\x00'), which arrive as rune; byte, other integers and one-byte strings are accepted too.
type PadChar interface {
	~int | ~int8 | ~int16 | ~int32 | ~int64 | ~uint | ~uint8 | ~uint16 | ~uint32 | ~uint64 | ~uintptr | ~string
}

var (
	be binary.ByteOrder = binary.BigEndian
	le binary.ByteOrder = binary.LittleEndian
)

func need(buf *bytes.Buffer, n int, what string) error {
	if buf == nil {
		return fmt.Errorf("codec: nil buffer")
	}
	if n < 0 || buf.Len() < n {
		return fmt.Errorf("codec: read of %d bytes (%s) beyond end of buffer (%d left)", n, what, buf.Len())
	}
	return nil
}

// ---------------------------------------------------------------------------------------------
// scalars

func writeNum[T Number](buf *bytes.Buffer, o binary.ByteOrder, v T) error {
	if buf == nil {
		return fmt.Errorf("codec: nil buffer")
	}
	return binary.Write(buf, o, v)
}

func readNum[T Number](buf *bytes.Buffer, o binary.ByteOrder) (T, error) {
	var v T
	n := binary.Size(v)
	if err := need(buf, n, fmt.Sprintf("%T", v)); err != nil {
		return v, err
	}
	if err := binary.Read(bytes.NewReader(buf.Next(n)), o, &v); err != nil {
		return v, err
	}
	return v, nil
}

// WriteBasicType appends v big-endian at its declared width.
func WriteBasicType[T Number](buf *bytes.Buffer, v T) error { return writeNum(buf, be, v) }

// WriteBasicTypeLE appends v little-endian at its declared width.
func WriteBasicTypeLE[T Number](buf *bytes.Buffer, v T) error { return writeNum(buf, le, v) }

// ReadBasicType reads a big-endian T.
func ReadBasicType[T Number](buf *bytes.Buffer) (T, error) { return readNum[T](buf, be) }

// ReadBasicTypeLE reads a little-endian T.
func ReadBasicTypeLE[T Number](buf *bytes.Buffer) (T, error) { return readNum[T](buf, le) }

// ---------------------------------------------------------------------------------------------
// prefixes

func writeLen[L Number](buf *bytes.Buffer, o binary.ByteOrder, n int, what string) error {
	l := L(n)
	if back := int(l); back != n || l < 0 {
		var z L
		return fmt.Errorf("codec: %s %d does not fit the %T prefix", what, n, z)
	}
	return writeNum(buf, o, l)
}

func readLen[L Number](buf *bytes.Buffer, o binary.ByteOrder, what string) (int, error) {
	l, err := readNum[L](buf, o)
	if err != nil {
		return 0, err
	}
	n := int(l)
	if l < 0 || n < 0 || L(n) != l {
		return 0, fmt.Errorf("codec: invalid %s prefix %v", what, l)
	}
	return n, nil
}

// ---------------------------------------------------------------------------------------------
// lists of scalars

func writeNumList[L, T Number](buf *bytes.Buffer, o binary.ByteOrder, list []T) error {
	if err := writeLen[L](buf, o, len(list), "element count"); err != nil {
		return err
	}
	for _, v := range list {
		if err := writeNum(buf, o, v); err != nil {
			return err
		}
	}
	return nil
}

func readNumList[L, T Number](buf *bytes.Buffer, o binary.ByteOrder) ([]T, error) {
	n, err := readLen[L](buf, o, "element count")
	if err != nil {
		return nil, err
	}
	var z T
	sz := binary.Size(z)
	if sz > 0 && n > buf.Len()/sz {
		return nil, fmt.Errorf("codec: list of %d %T beyond end of buffer (%d bytes left)", n, z, buf.Len())
	}
	out := make([]T, 0, n)
	for i := 0; i < n; i++ {
		v, err := readNum[T](buf, o)
		if err != nil {
			return nil, err
		}
		out = append(out, v)
	}
	return out, nil
}

// WriteBasicTypeList writes an L element count, then the elements, big-endian.
func WriteBasicTypeList[L, T Number](buf *bytes.Buffer, list []T) error {
	return writeNumList[L](buf, be, list)
}

// WriteBasicTypeListLE is the little-endian variant (count and elements).
func WriteBasicTypeListLE[L, T Number](buf *bytes.Buffer, list []T) error {
	return writeNumList[L](buf, le, list)
}

// ReadBasicTypeList reads an L element count, then the elements, big-endian.
func ReadBasicTypeList[L, T Number](buf *bytes.Buffer) ([]T, error) {
	return readNumList[L, T](buf, be)
}

// ReadBasicTypeListLE is the little-endian variant.
func ReadBasicTypeListLE[L, T Number](buf *bytes.Buffer) ([]T, error) {
	return readNumList[L, T](buf, le)
}

// ---------------------------------------------------------------------------------------------
// dynamic strings

func writeStr[S Number](buf *bytes.Buffer, o binary.ByteOrder, s string) error {
	if err := writeLen[S](buf, o, len(s), "string length"); err != nil {
		return err
	}
	buf.WriteString(s)
	return nil
}

func readStr[S Number](buf *bytes.Buffer, o binary.ByteOrder) (string, error) {
	n, err := readLen[S](buf, o, "string length")
	if err != nil {
		return "", err
	}
	if err := need(buf, n, "string body"); err != nil {
		return "", err
	}
	return string(buf.Next(n)), nil
}

// WriteString writes an S byte-count prefix (big-endian), then the UTF-8 bytes of s.
func WriteString[S Number](buf *bytes.Buffer, s string) error { return writeStr[S](buf, be, s) }

// WriteStringLE is the little-endian variant.
func WriteStringLE[S Number](buf *bytes.Buffer, s string) error { return writeStr[S](buf, le, s) }

// ReadString reads an S byte-count prefix (big-endian), then that many bytes.
func ReadString[S Number](buf *bytes.Buffer) (string, error) { return readStr[S](buf, be) }

// ReadStringLE is the little-endian variant.
func ReadStringLE[S Number](buf *bytes.Buffer) (string, error) { return readStr[S](buf, le) }

func writeStrList[L, S Number](buf *bytes.Buffer, o binary.ByteOrder, list []string) error {
	if err := writeLen[L](buf, o, len(list), "element count"); err != nil {
		return err
	}
	for _, s := range list {
		if err := writeStr[S](buf, o, s); err != nil {
			return err
		}
	}
	return nil
}

func readStrList[L, S Number](buf *bytes.Buffer, o binary.ByteOrder) ([]string, error) {
	n, err := readLen[L](buf, o, "element count")
	if err != nil {
		return nil, err
	}
	var z S
	if sz := binary.Size(z); sz > 0 && n > buf.Len()/sz {
		return nil, fmt.Errorf("codec: list of %d strings beyond end of buffer (%d bytes left)", n, buf.Len())
	}
	out := make([]string, 0, n)
	for i := 0; i < n; i++ {
		s, err := readStr[S](buf, o)
		if err != nil {
			return nil, err
		}
		out = append(out, s)
	}
	return out, nil
}

// WriteStringList writes an L element count, then every string with its S prefix.
func WriteStringList[L, S Number](buf *bytes.Buffer, list []string) error {
	return writeStrList[L, S](buf, be, list)
}

// WriteStringListLE is the little-endian variant.
func WriteStringListLE[L, S Number](buf *bytes.Buffer, list []string) error {
	return writeStrList[L, S](buf, le, list)
}

// ReadStringList reads an L element count, then that many S-prefixed strings.
func ReadStringList[L, S Number](buf *bytes.Buffer) ([]string, error) {
	return readStrList[L, S](buf, be)
}

// ReadStringListLE is the little-endian variant.
func ReadStringListLE[L, S Number](buf *bytes.Buffer) ([]string, error) {
	return readStrList[L, S](buf, le)
}

// ---------------------------------------------------------------------------------------------
// fixed strings

func padByte[P PadChar](pad P) (byte, error) {
	v := reflect.ValueOf(pad)
	switch v.Kind() {
	case reflect.String:
		s := v.String()
		if len(s) != 1 {
			return 0, fmt.Errorf("codec: pad %q is not a single byte", s)
		}
		return s[0], nil
	case reflect.Int, reflect.Int8, reflect.Int16, reflect.Int32, reflect.Int64:
		n := v.Int()
		if v.Kind() == reflect.Int8 {
			n &= 0xff
		}
		if n < 0 || n > 0xff {
			return 0, fmt.Errorf("codec: pad character %#x is not a single byte", n)
		}
		return byte(n), nil
	default:
		n := v.Uint()
		if n > 0xff {
			return 0, fmt.Errorf("codec: pad character %#x is not a single byte", n)
		}
		return byte(n), nil
	}
}

func writeFixed(buf *bytes.Buffer, s string, n int, pad byte, left bool) error {
	if buf == nil {
		return fmt.Errorf("codec: nil buffer")
	}
	if n < 0 {
		return fmt.Errorf("codec: negative fixed string width %d", n)
	}
	if len(s) > n {
		return fmt.Errorf("codec: string of %d bytes longer than the fixed width %d", len(s), n)
	}
	fill := bytes.Repeat([]byte{pad}, n-len(s))
	if left {
		buf.Write(fill)
		buf.WriteString(s)
	} else {
		buf.WriteString(s)
		buf.Write(fill)
	}
	return nil
}

func readFixed(buf *bytes.Buffer, n int, pad byte, left bool) (string, error) {
	if err := need(buf, n, "fixed string"); err != nil {
		return "", err
	}
	b := buf.Next(n)
	if left {
		i := 0
		for i < len(b) && b[i] == pad {
			i++
		}
		b = b[i:]
	} else {
		j := len(b)
		for j > 0 && b[j-1] == pad {
			j--
		}
		b = b[:j]
	}
	return string(b), nil
}

// WriteFixedString writes s in exactly n bytes, padded with spaces on the right.
func WriteFixedString(buf *bytes.Buffer, s string, n int) error {
	return writeFixed(buf, s, n, ' ', false)
}

// ReadFixedString reads n bytes and trims trailing spaces.
func ReadFixedString(buf *bytes.Buffer, n int) (string, error) { return readFixed(buf, n, ' ', false) }

// WriteFixedStringWithPadding writes s in exactly n bytes; left == true puts the pad characters first.
func WriteFixedStringWithPadding[P PadChar](buf *bytes.Buffer, s string, n int, pad P, left bool) error {
	p, err := padByte(pad)
	if err != nil {
		return err
	}
	return writeFixed(buf, s, n, p, left)
}

// ReadFixedStringTrimPadding reads n bytes and trims the pad characters from the padded side.
func ReadFixedStringTrimPadding[P PadChar](buf *bytes.Buffer, n int, pad P, left bool) (string, error) {
	p, err := padByte(pad)
	if err != nil {
		return "", err
	}
	return readFixed(buf, n, p, left)
}

func writeFixedList[L Number](buf *bytes.Buffer, o binary.ByteOrder, list []string, n int, pad byte, left bool) error {
	if err := writeLen[L](buf, o, len(list), "element count"); err != nil {
		return err
	}
	for _, s := range list {
		if err := writeFixed(buf, s, n, pad, left); err != nil {
			return err
		}
	}
	return nil
}

func readFixedList[L Number](buf *bytes.Buffer, o binary.ByteOrder, n int, pad byte, left bool) ([]string, error) {
	cnt, err := readLen[L](buf, o, "element count")
	if err != nil {
		return nil, err
	}
	if n < 0 {
		return nil, fmt.Errorf("codec: negative fixed string width %d", n)
	}
	if n > 0 && cnt > buf.Len()/n {
		return nil, fmt.Errorf("codec: list of %d fixed strings of %d bytes beyond end of buffer (%d bytes left)", cnt, n, buf.Len())
	}
	if n == 0 && cnt > 1<<24 {
		return nil, fmt.Errorf("codec: list of %d zero-width strings", cnt)
	}
	out := make([]string, 0, cnt)
	for i := 0; i < cnt; i++ {
		s, err := readFixed(buf, n, pad, left)
		if err != nil {
			return nil, err
		}
		out = append(out, s)
	}
	return out, nil
}

// WriteFixedStringList writes an L element count, then every string space padded to n bytes.
func WriteFixedStringList[L Number](buf *bytes.Buffer, list []string, n int) error {
	return writeFixedList[L](buf, be, list, n, ' ', false)
}

// WriteFixedStringListLE is the little-endian variant.
func WriteFixedStringListLE[L Number](buf *bytes.Buffer, list []string, n int) error {
	return writeFixedList[L](buf, le, list, n, ' ', false)
}

// ReadFixedStringList reads an L element count, then that many n-byte strings (trailing spaces trimmed).
func ReadFixedStringList[L Number](buf *bytes.Buffer, n int) ([]string, error) {
	return readFixedList[L](buf, be, n, ' ', false)
}

// ReadFixedStringListLE is the little-endian variant.
func ReadFixedStringListLE[L Number](buf *bytes.Buffer, n int) ([]string, error) {
	return readFixedList[L](buf, le, n, ' ', false)
}

// WriteFixedStringListWithPadding is WriteFixedStringList with an explicit pad character and side.
func WriteFixedStringListWithPadding[L Number, P PadChar](buf *bytes.Buffer, list []string, n int, pad P, left bool) error {
	p, err := padByte(pad)
	if err != nil {
		return err
	}
	return writeFixedList[L](buf, be, list, n, p, left)
}

// WriteFixedStringListWithPaddingLE is the little-endian variant.
func WriteFixedStringListWithPaddingLE[L Number, P PadChar](buf *bytes.Buffer, list []string, n int, pad P, left bool) error {
	p, err := padByte(pad)
	if err != nil {
		return err
	}
	return writeFixedList[L](buf, le, list, n, p, left)
}

// ReadFixedStringListTrimPadding is ReadFixedStringList with an explicit pad character and side.
func ReadFixedStringListTrimPadding[L Number, P PadChar](buf *bytes.Buffer, n int, pad P, left bool) ([]string, error) {
	p, err := padByte(pad)
	if err != nil {
		return nil, err
	}
	return readFixedList[L](buf, be, n, p, left)
}

// ReadFixedStringListTrimPaddingLE is the little-endian variant.
func ReadFixedStringListTrimPaddingLE[L Number, P PadChar](buf *bytes.Buffer, n int, pad P, left bool) ([]string, error) {
	p, err := padByte(pad)
	if err != nil {
		return nil, err
	}
	return readFixedList[L](buf, le, n, p, left)
}

// ---------------------------------------------------------------------------------------------
// lists of objects

func writeObjList[L Number, T BinaryCodec](buf *bytes.Buffer, o binary.ByteOrder, list []T) error {
	if err := writeLen[L](buf, o, len(list), "element count"); err != nil {
		return err
	}
	for _, e := range list {
		if err := e.Encode(buf); err != nil {
			return err
		}
	}
	return nil
}

func readObjList[L Number, T BinaryCodec](buf *bytes.Buffer, o binary.ByteOrder, factory func() T) ([]T, error) {
	n, err := readLen[L](buf, o, "element count")
	if err != nil {
		return nil, err
	}
	if factory == nil {
		return nil, fmt.Errorf("codec: nil object factory")
	}
	// no pre-allocation by an untrusted count: elements are appended as they decode
	c := n
	if c > buf.Len() {
		c = buf.Len()
	}
	out := make([]T, 0, c)
	for i := 0; i < n; i++ {
		e := factory()
		if err := e.Decode(buf); err != nil {
			return nil, err
		}
		out = append(out, e)
	}
	return out, nil
}

// WriteObjectList writes an L element count, then every element's Encode.
func WriteObjectList[L Number, T BinaryCodec](buf *bytes.Buffer, list []T) error {
	return writeObjList[L](buf, be, list)
}

// WriteObjectListLE is the little-endian variant (of the count; elements encode themselves).
func WriteObjectListLE[L Number, T BinaryCodec](buf *bytes.Buffer, list []T) error {
	return writeObjList[L](buf, le, list)
}

// ReadObjectList reads an L element count, then decodes that many elements made by factory.
func ReadObjectList[L Number, T BinaryCodec](buf *bytes.Buffer, factory func() T) ([]T, error) {
	return readObjList[L](buf, be, factory)
}

// ReadObjectListLE is the little-endian variant.
func ReadObjectListLE[L Number, T BinaryCodec](buf *bytes.Buffer, factory func() T) ([]T, error) {
	return readObjList[L](buf, le, factory)
}
