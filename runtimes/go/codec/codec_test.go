package codec

import (
	"bytes"
	"encoding/hex"
	"math"
	"reflect"
	"strings"
	"testing"
)

func hx(b *bytes.Buffer) string { return hex.EncodeToString(b.Bytes()) }

func mustHex(t *testing.T, s string) *bytes.Buffer {
	t.Helper()
	b, err := hex.DecodeString(s)
	if err != nil {
		t.Fatal(err)
	}
	return bytes.NewBuffer(b)
}

func TestScalarsBothOrders(t *testing.T) {
	var b bytes.Buffer
	ok := func(err error) {
		t.Helper()
		if err != nil {
			t.Fatal(err)
		}
	}
	ok(WriteBasicType(&b, uint8(0xab)))
	ok(WriteBasicType(&b, int8(-2)))
	ok(WriteBasicType(&b, uint16(0x0102)))
	ok(WriteBasicTypeLE(&b, uint16(0x0102)))
	ok(WriteBasicType(&b, int32(-2)))
	ok(WriteBasicTypeLE(&b, uint32(0x01020304)))
	ok(WriteBasicType(&b, uint64(0x0102030405060708)))
	ok(WriteBasicTypeLE(&b, int64(-2)))
	ok(WriteBasicType(&b, float32(1.5)))
	ok(WriteBasicTypeLE(&b, float64(-2)))
	want := "ab" + "fe" + "0102" + "0201" + "fffffffe" + "04030201" + "0102030405060708" + "feffffffffffffff" + "3fc00000" + "00000000000000c0"
	if hx(&b) != want {
		t.Fatalf("got %s want %s", hx(&b), want)
	}
	r := bytes.NewBuffer(b.Bytes())
	if v, err := ReadBasicType[uint8](r); err != nil || v != 0xab {
		t.Fatal(v, err)
	}
	if v, err := ReadBasicType[int8](r); err != nil || v != -2 {
		t.Fatal(v, err)
	}
	if v, err := ReadBasicType[uint16](r); err != nil || v != 0x0102 {
		t.Fatal(v, err)
	}
	if v, err := ReadBasicTypeLE[uint16](r); err != nil || v != 0x0102 {
		t.Fatal(v, err)
	}
	if v, err := ReadBasicType[int32](r); err != nil || v != -2 {
		t.Fatal(v, err)
	}
	if v, err := ReadBasicTypeLE[uint32](r); err != nil || v != 0x01020304 {
		t.Fatal(v, err)
	}
	if v, err := ReadBasicType[uint64](r); err != nil || v != 0x0102030405060708 {
		t.Fatal(v, err)
	}
	if v, err := ReadBasicTypeLE[int64](r); err != nil || v != -2 {
		t.Fatal(v, err)
	}
	if v, err := ReadBasicType[float32](r); err != nil || v != 1.5 {
		t.Fatal(v, err)
	}
	if v, err := ReadBasicTypeLE[float64](r); err != nil || v != -2 {
		t.Fatal(v, err)
	}
	if r.Len() != 0 {
		t.Fatal("left", r.Len())
	}
}

func TestNaNBitsSurvive(t *testing.T) {
	var b bytes.Buffer
	f := math.Float32frombits(0x7fa00001)
	if err := WriteBasicType(&b, f); err != nil {
		t.Fatal(err)
	}
	if hx(&b) != "7fa00001" {
		t.Fatal(hx(&b))
	}
	v, err := ReadBasicType[float32](&b)
	if err != nil || math.Float32bits(v) != 0x7fa00001 {
		t.Fatalf("%x %v", math.Float32bits(v), err)
	}
}

func TestShortReadsFailAndConsumeNothing(t *testing.T) {
	b := mustHex(t, "010203")
	if _, err := ReadBasicType[uint32](b); err == nil {
		t.Fatal("no error on short read")
	}
	if b.Len() != 3 {
		t.Fatal("short read consumed bytes")
	}
	if _, err := ReadString[uint16](mustHex(t, "000568656c")); err == nil {
		t.Fatal("no error on short string")
	}
	if _, err := ReadString[uint16](mustHex(t, "00")); err == nil {
		t.Fatal("no error on short prefix")
	}
	if _, err := ReadFixedString(mustHex(t, "4142"), 3); err == nil {
		t.Fatal("no error on short fixed string")
	}
	if _, err := ReadBasicTypeList[uint16, uint32](mustHex(t, "000200000001")); err == nil {
		t.Fatal("no error on short list")
	}
	if _, err := ReadBasicTypeList[uint64, uint8](mustHex(t, "ffffffffffffffff00")); err == nil {
		t.Fatal("no error on absurd count")
	}
	if _, err := ReadStringList[uint32, uint8](mustHex(t, "7fffffff00")); err == nil {
		t.Fatal("no error on absurd count")
	}
	if _, err := ReadBasicType[uint8](nil); err == nil {
		t.Fatal("nil buffer accepted")
	}
}

func TestStringsPrefixTypeAndOrder(t *testing.T) {
	var b bytes.Buffer
	s := "hé" // 3 UTF-8 bytes
	WriteString[uint8](&b, s)
	WriteString[uint16](&b, s)
	WriteStringLE[uint16](&b, s)
	WriteString[uint32](&b, s)
	WriteStringLE[uint64](&b, "")
	want := "0368c3a9" + "000368c3a9" + "030068c3a9" + "0000000368c3a9" + "0000000000000000"
	if hx(&b) != want {
		t.Fatalf("got %s want %s", hx(&b), want)
	}
	r := bytes.NewBuffer(b.Bytes())
	for i, f := range []func(*bytes.Buffer) (string, error){ReadString[uint8], ReadString[uint16], ReadStringLE[uint16], ReadString[uint32]} {
		if v, err := f(r); err != nil || v != s {
			t.Fatal(i, v, err)
		}
	}
	if v, err := ReadStringLE[uint64](r); err != nil || v != "" || r.Len() != 0 {
		t.Fatal(v, err, r.Len())
	}
	// a length that does not fit the prefix is an error, not a silent truncation
	if err := WriteString[uint8](&b, strings.Repeat("x", 256)); err == nil {
		t.Fatal("256 bytes fit a u8 prefix?")
	}
	if err := WriteString[uint8](&b, strings.Repeat("x", 255)); err != nil {
		t.Fatal(err)
	}
	if err := WriteString[int8](&b, strings.Repeat("x", 128)); err == nil {
		t.Fatal("128 bytes fit an i8 prefix?")
	}
	if _, err := ReadString[int8](mustHex(t, "ff41")); err == nil {
		t.Fatal("negative prefix accepted")
	}
}

func TestLists(t *testing.T) {
	var b bytes.Buffer
	WriteBasicTypeList[uint16](&b, []uint32{1, 2})
	WriteBasicTypeListLE[uint16](&b, []uint32{1, 2})
	WriteBasicTypeList[uint8](&b, []int16(nil))
	WriteStringList[uint16, uint8](&b, []string{"a", "", "bc"})
	WriteStringListLE[uint32, uint16](&b, []string{"a"})
	want := "0002" + "00000001" + "00000002" + "0200" + "01000000" + "02000000" + "00" +
		"0003" + "0161" + "00" + "026263" + "01000000" + "0100" + "61"
	if hx(&b) != want {
		t.Fatalf("got %s\nwant %s", hx(&b), want)
	}
	r := bytes.NewBuffer(b.Bytes())
	if v, err := ReadBasicTypeList[uint16, uint32](r); err != nil || !reflect.DeepEqual(v, []uint32{1, 2}) {
		t.Fatal(v, err)
	}
	if v, err := ReadBasicTypeListLE[uint16, uint32](r); err != nil || !reflect.DeepEqual(v, []uint32{1, 2}) {
		t.Fatal(v, err)
	}
	if v, err := ReadBasicTypeList[uint8, int16](r); err != nil || len(v) != 0 {
		t.Fatal(v, err)
	}
	if v, err := ReadStringList[uint16, uint8](r); err != nil || !reflect.DeepEqual(v, []string{"a", "", "bc"}) {
		t.Fatal(v, err)
	}
	if v, err := ReadStringListLE[uint32, uint16](r); err != nil || !reflect.DeepEqual(v, []string{"a"}) || r.Len() != 0 {
		t.Fatal(v, err)
	}
	if err := WriteBasicTypeList[uint8](&b, make([]uint8, 256)); err == nil {
		t.Fatal("256 elements fit a u8 count?")
	}
}

func TestFixedStrings(t *testing.T) {
	var b bytes.Buffer
	WriteFixedString(&b, "ab", 4)
	WriteFixedStringWithPadding(&b, "ab", 4, '0', true)
	WriteFixedStringWithPadding(&b, "ab", 4, '0', false)
	WriteFixedStringWithPadding(&b, "ab", 4, '\x00', false)
	WriteFixedStringWithPadding(&b, "ab", 4, ' ', true)
	WriteFixedStringWithPadding(&b, "ab", 4, byte('*'), true)
	WriteFixedStringWithPadding(&b, "ab", 4, "#", false)
	WriteFixedStringWithPadding(&b, "", 0, '0', false)
	want := "61622020" + "30306162" + "61623030" + "61620000" + "20206162" + "2a2a6162" + "61622323"
	if hx(&b) != want {
		t.Fatalf("got %s want %s", hx(&b), want)
	}
	r := bytes.NewBuffer(b.Bytes())
	rd := func(v string, err error) {
		t.Helper()
		if err != nil || v != "ab" {
			t.Fatalf("%q %v", v, err)
		}
	}
	rd(ReadFixedString(r, 4))
	rd(ReadFixedStringTrimPadding(r, 4, '0', true))
	rd(ReadFixedStringTrimPadding(r, 4, '0', false))
	rd(ReadFixedStringTrimPadding(r, 4, '\x00', false))
	rd(ReadFixedStringTrimPadding(r, 4, ' ', true))
	rd(ReadFixedStringTrimPadding(r, 4, byte('*'), true))
	rd(ReadFixedStringTrimPadding(r, 4, "#", false))
	if r.Len() != 0 {
		t.Fatal(r.Len())
	}
	// only the padded side is trimmed
	if v, _ := ReadFixedStringTrimPadding(mustHex(t, "30613030"), 4, '0', true); v != "a00" {
		t.Fatalf("%q", v)
	}
	if v, _ := ReadFixedStringTrimPadding(mustHex(t, "30613030"), 4, '0', false); v != "0a" {
		t.Fatalf("%q", v)
	}
	if v, _ := ReadFixedString(mustHex(t, "20612020"), 4); v != " a" {
		t.Fatalf("%q", v)
	}
	if v, _ := ReadFixedString(mustHex(t, "20202020"), 4); v != "" {
		t.Fatalf("%q", v)
	}
	// too long is an error, and nothing is written
	n := b.Len()
	if err := WriteFixedString(&b, "abcde", 4); err == nil || b.Len() != n {
		t.Fatal("over-long fixed string accepted")
	}
	if err := WriteFixedStringWithPadding(&b, "héllo", 5, '0', true); err == nil {
		t.Fatal("6 UTF-8 bytes fit char[5]?")
	}
	if err := WriteFixedStringWithPadding(&b, "a", 2, '中', true); err == nil {
		t.Fatal("multi-byte pad accepted")
	}
}

func TestFixedStringLists(t *testing.T) {
	var b bytes.Buffer
	WriteFixedStringList[uint16](&b, []string{"a", "bc"}, 2)
	WriteFixedStringListLE[uint16](&b, []string{"a"}, 2)
	WriteFixedStringListWithPadding[uint8](&b, []string{"a"}, 2, '0', true)
	WriteFixedStringListWithPaddingLE[uint32](&b, []string{"a"}, 2, '\x00', false)
	want := "0002" + "6120" + "6263" + "0100" + "6120" + "01" + "3061" + "01000000" + "6100"
	if hx(&b) != want {
		t.Fatalf("got %s want %s", hx(&b), want)
	}
	r := bytes.NewBuffer(b.Bytes())
	if v, err := ReadFixedStringList[uint16](r, 2); err != nil || !reflect.DeepEqual(v, []string{"a", "bc"}) {
		t.Fatal(v, err)
	}
	if v, err := ReadFixedStringListLE[uint16](r, 2); err != nil || !reflect.DeepEqual(v, []string{"a"}) {
		t.Fatal(v, err)
	}
	if v, err := ReadFixedStringListTrimPadding[uint8](r, 2, '0', true); err != nil || !reflect.DeepEqual(v, []string{"a"}) {
		t.Fatal(v, err)
	}
	if v, err := ReadFixedStringListTrimPaddingLE[uint32](r, 2, '\x00', false); err != nil || !reflect.DeepEqual(v, []string{"a"}) || r.Len() != 0 {
		t.Fatal(v, err)
	}
	if err := WriteFixedStringList[uint16](&b, []string{"abc"}, 2); err == nil {
		t.Fatal("over-long element accepted")
	}
}

type pt struct{ X uint16 }

func (p *pt) Encode(b *bytes.Buffer) error { return WriteBasicType(b, p.X) }
func (p *pt) Decode(b *bytes.Buffer) error {
	v, err := ReadBasicType[uint16](b)
	p.X = v
	return err
}

func TestObjectLists(t *testing.T) {
	var b bytes.Buffer
	if err := WriteObjectList[uint16](&b, []*pt{{1}, {2}}); err != nil {
		t.Fatal(err)
	}
	if err := WriteObjectListLE[uint32](&b, []*pt{{3}}); err != nil {
		t.Fatal(err)
	}
	if err := WriteObjectList[uint8](&b, []*pt(nil)); err != nil {
		t.Fatal(err)
	}
	want := "0002" + "0001" + "0002" + "01000000" + "0003" + "00"
	if hx(&b) != want {
		t.Fatalf("got %s want %s", hx(&b), want)
	}
	r := bytes.NewBuffer(b.Bytes())
	v, err := ReadObjectList[uint16](r, func() *pt { return &pt{} })
	if err != nil || len(v) != 2 || v[0].X != 1 || v[1].X != 2 {
		t.Fatal(v, err)
	}
	v, err = ReadObjectListLE[uint32](r, func() *pt { return &pt{} })
	if err != nil || len(v) != 1 || v[0].X != 3 {
		t.Fatal(v, err)
	}
	v, err = ReadObjectList[uint8](r, func() *pt { return &pt{} })
	if err != nil || len(v) != 0 || r.Len() != 0 {
		t.Fatal(v, err)
	}
	if _, err := ReadObjectList[uint16](mustHex(t, "00020001"), func() *pt { return &pt{} }); err == nil {
		t.Fatal("short object list accepted")
	}
	// the interface form the emitter uses for match payloads
	var bc BinaryCodec = &pt{7}
	var b2 bytes.Buffer
	if err := bc.Encode(&b2); err != nil || hx(&b2) != "0007" {
		t.Fatal(hx(&b2), err)
	}
}

// formula: (Σ b[i]·(i+1)) · 0x0101010101010101 mod 2^(8w)
func TestChecksums(t *testing.T) {
	data := []byte{0x01, 0xff, 0x80, 0x7f, 0x10}
	var s uint64
	for i, c := range data {
		s += uint64(c) * uint64(i+1)
	}
	// 1 + 510 + 384 + 508 + 80 = 1483 = 0x5cb
	if s != 1483 {
		t.Fatal(s)
	}
	full := s * 0x0101010101010101
	buf := bytes.NewBuffer(data)
	get := func(name string) any {
		t.Helper()
		v, ok := Get(name)
		if !ok {
			t.Fatalf("%s not registered", name)
		}
		return v
	}
	if v := get("SUMU8").(ChecksumService[*bytes.Buffer, uint8]).Calc(buf); v != uint8(full) || v != 0xcb {
		t.Fatalf("%#x", v)
	}
	if v := get("SUMU16").(ChecksumService[*bytes.Buffer, uint16]).Calc(buf); v != uint16(full) {
		t.Fatalf("%#x", v)
	}
	if v := get("SUMU32").(ChecksumService[*bytes.Buffer, uint32]).Calc(buf); v != uint32(full) {
		t.Fatalf("%#x", v)
	}
	if v := get("SUMU64").(ChecksumService[*bytes.Buffer, uint64]).Calc(buf); v != full {
		t.Fatalf("%#x", v)
	}
	if v := get("SUMI8").(ChecksumService[*bytes.Buffer, int8]).Calc(buf); v != int8(uint8(full)) || v >= 0 {
		t.Fatalf("%#x", v)
	}
	if v := get("SUMI16").(ChecksumService[*bytes.Buffer, int16]).Calc(buf); v != int16(uint16(full)) {
		t.Fatalf("%#x", v)
	}
	if v := get("SUMI32").(ChecksumService[*bytes.Buffer, int32]).Calc(buf); v != int32(uint32(full)) {
		t.Fatalf("%#x", v)
	}
	if v := get("SUMI64").(ChecksumService[*bytes.Buffer, int64]).Calc(buf); v != int64(full) {
		t.Fatalf("%#x", v)
	}
	if v := get("CRC32").(ChecksumService[*bytes.Buffer, uint32]).Calc(buf); v != uint32(full) {
		t.Fatalf("%#x", v)
	}
	// the buffer is not consumed, and the sum covers what is in it *now*
	if buf.Len() != len(data) {
		t.Fatal("Calc consumed the buffer")
	}
	if v := get("SUMU16").(ChecksumService[*bytes.Buffer, uint16]).Calc(&bytes.Buffer{}); v != 0 {
		t.Fatal(v)
	}
	// a service of one width is not a service of another
	if _, ok := get("SUMU16").(ChecksumService[*bytes.Buffer, uint32]); ok {
		t.Fatal("SUMU16 passes for a u32 service")
	}
	for _, n := range []string{"", "sumu8", "CRC16", "CRC64", "MD5", "SUM"} {
		if v, ok := Get(n); ok || v != nil {
			t.Fatalf("%q is registered", n)
		}
	}
}
