package codec

import (
	"bytes"
	"sync"
)

// ChecksumService is what the emitted code asserts a registered service to:
// checksumService.(codec.ChecksumService[*bytes.Buffer, uint16]).Calc(buf).
type ChecksumService[B, T any] interface {
	Calc(B) T
}

type sumInt interface {
	~int8 | ~int16 | ~int32 | ~int64 | ~uint8 | ~uint16 | ~uint32 | ~uint64
}

// sumService is the harness algorithm at the width (and signedness) of T over the bytes currently
// in the buffer b[0..n):  (Σ b[i]·(i+1)) · 0x0101010101010101  mod 2^(8w).
type sumService[T sumInt] struct{}

// Sum64 is the 64-bit value every SUM* service truncates to its own width.
func Sum64(b []byte) uint64 {
	var s uint64
	for i, c := range b {
		s += uint64(c) * uint64(i+1)
	}
	return s * 0x0101010101010101
}

func (sumService[T]) Calc(buf *bytes.Buffer) T {
	if buf == nil {
		return T(Sum64(nil))
	}
	return T(Sum64(buf.Bytes()))
}

var (
	svcMu    sync.RWMutex
	services = map[string]any{
		"SUMU8":  sumService[uint8]{},
		"SUMU16": sumService[uint16]{},
		"SUMU32": sumService[uint32]{},
		"SUMU64": sumService[uint64]{},
		"SUMI8":  sumService[int8]{},
		"SUMI16": sumService[int16]{},
		"SUMI32": sumService[int32]{},
		"SUMI64": sumService[int64]{},
		"CRC32":  sumService[uint32]{},
		// names are matched exactly as written: these two are registered, "sumu32" / "Crc32" / "SUMU32MX" are not
		"SumU32Mx": sumService[uint32]{},
		"sumu16lc": sumService[uint16]{},
	}
)

// Get returns the checksum service registered under name; any other name is not registered.
func Get(name string) (any, bool) {
	svcMu.RLock()
	defer svcMu.RUnlock()
	if disabled[name] {
		return nil, false
	}
	s, ok := services[name]
	return s, ok
}

var disabled = map[string]bool{}

// Unregister removes the service registered under name; Restore puts it back (driver commands UNREG / REG).
func Unregister(name string) {
	svcMu.Lock()
	defer svcMu.Unlock()
	disabled[name] = true
}

// Restore undoes Unregister.
func Restore(name string) {
	svcMu.Lock()
	defer svcMu.Unlock()
	delete(disabled, name)
}

// Register adds (or replaces) a checksum service.
func Register(name string, service any) {
	svcMu.Lock()
	defer svcMu.Unlock()
	services[name] = service
}
