//! Minimal conforming `binary_codec` runtime for the Rust target of fin-protoc (supplied by the
//! verification harness; the real crate is not available offline).
//!
//! It implements exactly the API surface the emitter (/repo/internal/parser/rust_generator.go)
//! prints calls to. Wire semantics are those of /verif/runtimes/SPEC.md:
//!   * every `put_*`/`get_*` without suffix is big-endian, `_le` is little-endian (only the
//!     prefixes and the scalar list elements have a byte order);
//!   * string = byte-length prefix + UTF-8 bytes; list = element-count prefix + elements;
//!   * `char[n]` = exactly n bytes, padded / trimmed with space on the right unless a pad
//!     character and side are given;
//!   * every `get_*` returns `None` when the buffer is too short (or the bytes are not UTF-8);
//!   * every `put_*` panics when the value cannot be represented (count does not fit the prefix,
//!     fixed string longer than n): `encode` has no error channel, a panic is the idiom.
//! The helper really uses the prefix type it is called with: nothing is repaired here.

use bytes::{Buf, BufMut, Bytes, BytesMut};
use std::collections::HashMap;
use std::sync::LazyLock;

/// What every emitted struct implements.
pub trait BinaryCodec: Sized {
    fn encode(&self, buf: &mut BytesMut);
    fn decode(buf: &mut Bytes) -> Option<Self>;
}

/// A value with a fixed-width wire form in either byte order (list elements, prefixes).
pub trait Element: Copy + Sized {
    const SIZE: usize;
    fn put_be(self, buf: &mut BytesMut);
    fn put_le(self, buf: &mut BytesMut);
    /// `None` when fewer than `SIZE` bytes remain.
    fn get_be(buf: &mut Bytes) -> Option<Self>;
    fn get_le(buf: &mut Bytes) -> Option<Self>;
}

/// An integer type usable as a length / count prefix.
pub trait Prefix: Element {
    /// Panics when `n` is not representable.
    fn from_len(n: usize) -> Self;
    /// `None` when the value is negative or does not fit `usize`.
    fn to_len(self) -> Option<usize>;
}

macro_rules! impl_element {
    ($t:ty, $put:ident, $put_le:ident, $get:ident, $get_le:ident) => {
        impl Element for $t {
            const SIZE: usize = std::mem::size_of::<$t>();
            #[inline]
            fn put_be(self, buf: &mut BytesMut) {
                buf.$put(self)
            }
            #[inline]
            fn put_le(self, buf: &mut BytesMut) {
                buf.$put_le(self)
            }
            #[inline]
            fn get_be(buf: &mut Bytes) -> Option<Self> {
                if buf.remaining() < Self::SIZE {
                    None
                } else {
                    Some(buf.$get())
                }
            }
            #[inline]
            fn get_le(buf: &mut Bytes) -> Option<Self> {
                if buf.remaining() < Self::SIZE {
                    None
                } else {
                    Some(buf.$get_le())
                }
            }
        }
    };
}

macro_rules! impl_prefix {
    ($t:ty) => {
        impl Prefix for $t {
            #[inline]
            fn from_len(n: usize) -> Self {
                match <$t>::try_from(n) {
                    Ok(v) => v,
                    Err(_) => panic!("length {} does not fit the {} prefix", n, stringify!($t)),
                }
            }
            #[inline]
            fn to_len(self) -> Option<usize> {
                usize::try_from(self).ok()
            }
        }
    };
}

impl_element!(u8, put_u8, put_u8, get_u8, get_u8);
impl_element!(i8, put_i8, put_i8, get_i8, get_i8);
impl_element!(u16, put_u16, put_u16_le, get_u16, get_u16_le);
impl_element!(i16, put_i16, put_i16_le, get_i16, get_i16_le);
impl_element!(u32, put_u32, put_u32_le, get_u32, get_u32_le);
impl_element!(i32, put_i32, put_i32_le, get_i32, get_i32_le);
impl_element!(u64, put_u64, put_u64_le, get_u64, get_u64_le);
impl_element!(i64, put_i64, put_i64_le, get_i64, get_i64_le);
impl_element!(f32, put_f32, put_f32_le, get_f32, get_f32_le);
impl_element!(f64, put_f64, put_f64_le, get_f64, get_f64_le);
impl_prefix!(u8);
impl_prefix!(i8);
impl_prefix!(u16);
impl_prefix!(i16);
impl_prefix!(u32);
impl_prefix!(i32);
impl_prefix!(u64);
impl_prefix!(i64);

#[inline]
fn char_byte(c: char) -> u8 {
    let n = c as u32;
    if n > 0xff {
        panic!("char U+{:04X} does not fit in one byte", n);
    }
    n as u8
}

/// `char` travels as one byte (Latin-1 code point), so `put_list::<char, L>` also type-checks.
impl Element for char {
    const SIZE: usize = 1;
    fn put_be(self, buf: &mut BytesMut) {
        buf.put_u8(char_byte(self))
    }
    fn put_le(self, buf: &mut BytesMut) {
        buf.put_u8(char_byte(self))
    }
    fn get_be(buf: &mut Bytes) -> Option<Self> {
        if buf.remaining() < 1 {
            None
        } else {
            Some(buf.get_u8() as char)
        }
    }
    fn get_le(buf: &mut Bytes) -> Option<Self> {
        Self::get_be(buf)
    }
}

/// A pad character argument: the emitter prints a `char` literal; a byte is accepted as well.
pub trait PadChar: Copy {
    fn pad_byte(self) -> u8;
}
impl PadChar for char {
    fn pad_byte(self) -> u8 {
        char_byte(self)
    }
}
impl PadChar for u8 {
    fn pad_byte(self) -> u8 {
        self
    }
}

// ---------------------------------------------------------------- internal, order as a flag

#[inline]
fn put_el<T: Element>(buf: &mut BytesMut, v: T, le: bool) {
    if le {
        v.put_le(buf)
    } else {
        v.put_be(buf)
    }
}

#[inline]
fn get_el<T: Element>(buf: &mut Bytes, le: bool) -> Option<T> {
    if le {
        T::get_le(buf)
    } else {
        T::get_be(buf)
    }
}

#[inline]
fn put_len<L: Prefix>(buf: &mut BytesMut, n: usize, le: bool) {
    put_el(buf, L::from_len(n), le)
}

#[inline]
fn get_len<L: Prefix>(buf: &mut Bytes, le: bool) -> Option<usize> {
    get_el::<L>(buf, le)?.to_len()
}

fn take(buf: &mut Bytes, n: usize) -> Option<Bytes> {
    if buf.remaining() < n {
        None
    } else {
        Some(buf.split_to(n))
    }
}

fn put_str<S: Prefix>(buf: &mut BytesMut, s: &str, le: bool) {
    put_len::<S>(buf, s.len(), le);
    buf.put_slice(s.as_bytes());
}

fn get_str<S: Prefix>(buf: &mut Bytes, le: bool) -> Option<String> {
    let n = get_len::<S>(buf, le)?;
    let b = take(buf, n)?;
    String::from_utf8(b.to_vec()).ok()
}

fn put_fixed(buf: &mut BytesMut, s: &str, n: usize, pad: u8, left: bool) {
    let b = s.as_bytes();
    if b.len() > n {
        panic!("fixed string of {} bytes does not fit char[{}]", b.len(), n);
    }
    let fill = n - b.len();
    if left {
        buf.put_bytes(pad, fill);
        buf.put_slice(b);
    } else {
        buf.put_slice(b);
        buf.put_bytes(pad, fill);
    }
}

fn get_fixed(buf: &mut Bytes, n: usize, pad: u8, left: bool) -> Option<String> {
    let b = take(buf, n)?;
    let mut s: &[u8] = &b;
    if left {
        while let [first, rest @ ..] = s {
            if *first == pad {
                s = rest;
            } else {
                break;
            }
        }
    } else {
        while let [rest @ .., last] = s {
            if *last == pad {
                s = rest;
            } else {
                break;
            }
        }
    }
    String::from_utf8(s.to_vec()).ok()
}

fn put_scalars<T: Element, L: Prefix>(buf: &mut BytesMut, v: &[T], le: bool) {
    put_len::<L>(buf, v.len(), le);
    for x in v {
        put_el(buf, *x, le);
    }
}

fn get_scalars<T: Element, L: Prefix>(buf: &mut Bytes, le: bool) -> Option<Vec<T>> {
    let n = get_len::<L>(buf, le)?;
    // never allocate for a count the buffer cannot hold
    if n.checked_mul(T::SIZE)? > buf.remaining() {
        return None;
    }
    let mut out = Vec::with_capacity(n);
    for _ in 0..n {
        out.push(get_el::<T>(buf, le)?);
    }
    Some(out)
}

fn put_strs<L: Prefix, S: Prefix>(buf: &mut BytesMut, v: &[String], le: bool) {
    put_len::<L>(buf, v.len(), le);
    for s in v {
        put_str::<S>(buf, s, le);
    }
}

fn get_strs<L: Prefix, S: Prefix>(buf: &mut Bytes, le: bool) -> Option<Vec<String>> {
    let n = get_len::<L>(buf, le)?;
    if n.checked_mul(S::SIZE)? > buf.remaining() {
        return None;
    }
    let mut out = Vec::new();
    for _ in 0..n {
        out.push(get_str::<S>(buf, le)?);
    }
    Some(out)
}

fn put_fixeds<L: Prefix>(buf: &mut BytesMut, v: &[String], n: usize, pad: u8, left: bool, le: bool) {
    put_len::<L>(buf, v.len(), le);
    for s in v {
        put_fixed(buf, s, n, pad, left);
    }
}

fn get_fixeds<L: Prefix>(buf: &mut Bytes, n: usize, pad: u8, left: bool, le: bool) -> Option<Vec<String>> {
    let c = get_len::<L>(buf, le)?;
    if c.checked_mul(n)? > buf.remaining() {
        return None;
    }
    let mut out = Vec::new();
    for _ in 0..c {
        out.push(get_fixed(buf, n, pad, left)?);
    }
    Some(out)
}

fn put_objs<T: BinaryCodec, L: Prefix>(buf: &mut BytesMut, v: &[T], le: bool) {
    put_len::<L>(buf, v.len(), le);
    for o in v {
        o.encode(buf);
    }
}

fn get_objs<T: BinaryCodec, L: Prefix>(buf: &mut Bytes, le: bool) -> Option<Vec<T>> {
    let n = get_len::<L>(buf, le)?;
    let mut out = Vec::new();
    for _ in 0..n {
        out.push(T::decode(buf)?);
    }
    Some(out)
}

// ---------------------------------------------------------------- the public surface

pub fn put_char(buf: &mut BytesMut, c: char) {
    buf.put_u8(char_byte(c));
}

pub fn get_char(buf: &mut Bytes) -> Option<char> {
    <char as Element>::get_be(buf)
}

pub fn put_char_list<L: Prefix>(buf: &mut BytesMut, v: &[char]) {
    put_scalars::<char, L>(buf, v, false)
}

pub fn get_char_list<L: Prefix>(buf: &mut Bytes) -> Option<Vec<char>> {
    get_scalars::<char, L>(buf, false)
}

/// Not printed by the emitter today (char lists have no `_le` call); present for symmetry.
pub fn put_char_list_le<L: Prefix>(buf: &mut BytesMut, v: &[char]) {
    put_scalars::<char, L>(buf, v, true)
}

pub fn get_char_list_le<L: Prefix>(buf: &mut Bytes) -> Option<Vec<char>> {
    get_scalars::<char, L>(buf, true)
}

pub fn put_string<S: Prefix>(buf: &mut BytesMut, s: &str) {
    put_str::<S>(buf, s, false)
}

pub fn put_string_le<S: Prefix>(buf: &mut BytesMut, s: &str) {
    put_str::<S>(buf, s, true)
}

pub fn get_string<S: Prefix>(buf: &mut Bytes) -> Option<String> {
    get_str::<S>(buf, false)
}

pub fn get_string_le<S: Prefix>(buf: &mut Bytes) -> Option<String> {
    get_str::<S>(buf, true)
}

pub fn put_char_array(buf: &mut BytesMut, s: &str, n: usize) {
    put_fixed(buf, s, n, b' ', false)
}

pub fn put_char_array_with_pad_char(buf: &mut BytesMut, s: &str, n: usize, pad: impl PadChar, left: bool) {
    put_fixed(buf, s, n, pad.pad_byte(), left)
}

pub fn get_char_array(buf: &mut Bytes, n: usize) -> Option<String> {
    get_fixed(buf, n, b' ', false)
}

pub fn get_char_array_trim_pad_char(buf: &mut Bytes, n: usize, pad: impl PadChar, left: bool) -> Option<String> {
    get_fixed(buf, n, pad.pad_byte(), left)
}

pub fn put_list<T: Element, L: Prefix>(buf: &mut BytesMut, v: &[T]) {
    put_scalars::<T, L>(buf, v, false)
}

pub fn put_list_le<T: Element, L: Prefix>(buf: &mut BytesMut, v: &[T]) {
    put_scalars::<T, L>(buf, v, true)
}

pub fn get_list<T: Element, L: Prefix>(buf: &mut Bytes) -> Option<Vec<T>> {
    get_scalars::<T, L>(buf, false)
}

pub fn get_list_le<T: Element, L: Prefix>(buf: &mut Bytes) -> Option<Vec<T>> {
    get_scalars::<T, L>(buf, true)
}

pub fn put_string_list<L: Prefix, S: Prefix>(buf: &mut BytesMut, v: &[String]) {
    put_strs::<L, S>(buf, v, false)
}

pub fn put_string_list_le<L: Prefix, S: Prefix>(buf: &mut BytesMut, v: &[String]) {
    put_strs::<L, S>(buf, v, true)
}

pub fn get_string_list<L: Prefix, S: Prefix>(buf: &mut Bytes) -> Option<Vec<String>> {
    get_strs::<L, S>(buf, false)
}

pub fn get_string_list_le<L: Prefix, S: Prefix>(buf: &mut Bytes) -> Option<Vec<String>> {
    get_strs::<L, S>(buf, true)
}

pub fn put_fixed_string_list<L: Prefix>(buf: &mut BytesMut, v: &[String], n: usize) {
    put_fixeds::<L>(buf, v, n, b' ', false, false)
}

pub fn put_fixed_string_list_le<L: Prefix>(buf: &mut BytesMut, v: &[String], n: usize) {
    put_fixeds::<L>(buf, v, n, b' ', false, true)
}

pub fn put_fixed_string_list_with_pad_char<L: Prefix>(buf: &mut BytesMut, v: &[String], n: usize, pad: impl PadChar, left: bool) {
    put_fixeds::<L>(buf, v, n, pad.pad_byte(), left, false)
}

pub fn put_fixed_string_list_with_pad_char_le<L: Prefix>(buf: &mut BytesMut, v: &[String], n: usize, pad: impl PadChar, left: bool) {
    put_fixeds::<L>(buf, v, n, pad.pad_byte(), left, true)
}

pub fn get_fixed_string_list<L: Prefix>(buf: &mut Bytes, n: usize) -> Option<Vec<String>> {
    get_fixeds::<L>(buf, n, b' ', false, false)
}

pub fn get_fixed_string_list_le<L: Prefix>(buf: &mut Bytes, n: usize) -> Option<Vec<String>> {
    get_fixeds::<L>(buf, n, b' ', false, true)
}

pub fn get_fixed_string_list_trim_pad_char<L: Prefix>(buf: &mut Bytes, n: usize, pad: impl PadChar, left: bool) -> Option<Vec<String>> {
    get_fixeds::<L>(buf, n, pad.pad_byte(), left, false)
}

pub fn get_fixed_string_list_trim_pad_char_le<L: Prefix>(buf: &mut Bytes, n: usize, pad: impl PadChar, left: bool) -> Option<Vec<String>> {
    get_fixeds::<L>(buf, n, pad.pad_byte(), left, true)
}

pub fn put_object_list<T: BinaryCodec, L: Prefix>(buf: &mut BytesMut, v: &[T]) {
    put_objs::<T, L>(buf, v, false)
}

pub fn put_object_list_le<T: BinaryCodec, L: Prefix>(buf: &mut BytesMut, v: &[T]) {
    put_objs::<T, L>(buf, v, true)
}

pub fn get_object_list<T: BinaryCodec, L: Prefix>(buf: &mut Bytes) -> Option<Vec<T>> {
    get_objs::<T, L>(buf, false)
}

pub fn get_object_list_le<T: BinaryCodec, L: Prefix>(buf: &mut Bytes) -> Option<Vec<T>> {
    get_objs::<T, L>(buf, true)
}

// ---------------------------------------------------------------- checksum services

/// The result of a checksum service, in the natural type of its width.
#[derive(Debug, Clone, Copy, PartialEq)]
pub enum Checksum {
    U8(u8),
    U16(u16),
    U32(u32),
    U64(u64),
    I8(i8),
    I16(i16),
    I32(i32),
    I64(i64),
}

pub trait ChecksumService: Send + Sync {
    /// Checksum over the bytes currently in the buffer.
    fn calc(&self, buf: &BytesMut) -> Checksum;
}

/// The harness algorithm: (Σ b[i]·(i+1)) · 0x0101010101010101 mod 2^(8w).
pub fn harness_sum(data: &[u8]) -> u64 {
    let mut s: u64 = 0;
    for (i, b) in data.iter().enumerate() {
        s = s.wrapping_add((*b as u64).wrapping_mul(i as u64 + 1));
    }
    s.wrapping_mul(0x0101_0101_0101_0101)
}

struct Sum {
    width: u8,
    signed: bool,
}

impl ChecksumService for Sum {
    fn calc(&self, buf: &BytesMut) -> Checksum {
        let s = harness_sum(&buf[..]);
        match (self.width, self.signed) {
            (1, false) => Checksum::U8(s as u8),
            (2, false) => Checksum::U16(s as u16),
            (4, false) => Checksum::U32(s as u32),
            (8, false) => Checksum::U64(s),
            (1, true) => Checksum::I8(s as u8 as i8),
            (2, true) => Checksum::I16(s as u16 as i16),
            (4, true) => Checksum::I32(s as u32 as i32),
            _ => Checksum::I64(s as i64),
        }
    }
}

pub struct ChecksumServiceContext {
    services: HashMap<String, Box<dyn ChecksumService>>,
}

impl ChecksumServiceContext {
    fn new() -> Self {
        let mut c = ChecksumServiceContext { services: HashMap::new() };
        for (name, width, signed) in [
            ("SUMU8", 1u8, false),
            ("SUMU16", 2, false),
            ("SUMU32", 4, false),
            ("SUMU64", 8, false),
            ("SUMI8", 1, true),
            ("SUMI16", 2, true),
            ("SUMI32", 4, true),
            ("SUMI64", 8, true),
            ("CRC32", 4, false),
            ("SumU32Mx", 4, false),
            ("sumu16lc", 2, false),
        ] {
            c.register(name, Box::new(Sum { width, signed }));
        }
        c
    }

    pub fn register(&mut self, name: &str, service: Box<dyn ChecksumService>) {
        self.services.insert(name.to_string(), service);
    }

    /// `None` for a name that is not registered.
    pub fn get(&self, name: &str) -> Option<&dyn ChecksumService> {
        if DISABLED.lock().map(|d| d.iter().any(|n| n == name)).unwrap_or(false) {
            return None;
        }
        self.services.get(name).map(|b| b.as_ref())
    }
}

static DISABLED: std::sync::Mutex<Vec<String>> = std::sync::Mutex::new(Vec::new());

/// The application removes the service registered under `name` (driver command UNREG).
pub fn checksum_unregister(name: &str) {
    if let Ok(mut d) = DISABLED.lock() {
        if !d.iter().any(|n| n == name) {
            d.push(name.to_string());
        }
    }
}

/// Undoes `checksum_unregister` (driver command REG).
pub fn checksum_restore(name: &str) {
    if let Ok(mut d) = DISABLED.lock() {
        d.retain(|n| n != name);
    }
}

pub static CHECKSUM_SERVICE_CONTEXT: LazyLock<ChecksumServiceContext> = LazyLock::new(ChecksumServiceContext::new);
