// Self-test of the harness runtime crate `binary_codec` (runtimes/rust/binary_codec/lib.rs).
// Run:  /verif/runtimes/rust/selftest/run.sh      (builds the rlibs if needed, `rustc --test`, runs)
#![allow(unused_imports)]
use binary_codec::*;
use bytes::{Buf, BufMut, Bytes, BytesMut};
use std::panic::catch_unwind;

fn enc(f: impl FnOnce(&mut BytesMut)) -> Vec<u8> {
    let mut b = BytesMut::new();
    f(&mut b);
    b.to_vec()
}

fn by(v: &[u8]) -> Bytes {
    Bytes::from(v.to_vec())
}

fn strs(v: &[&str]) -> Vec<String> {
    v.iter().map(|s| s.to_string()).collect()
}

#[test]
fn char_is_one_byte() {
    assert_eq!(enc(|b| put_char(b, 'A')), vec![0x41]);
    assert_eq!(enc(|b| put_char(b, '\u{7f}')), vec![0x7f]);
    let mut r = by(&[0x41, 0xff]);
    assert_eq!(get_char(&mut r), Some('A'));
    assert_eq!(get_char(&mut r), Some('\u{ff}'));
    assert_eq!(get_char(&mut r), None);
    assert!(catch_unwind(|| enc(|b| put_char(b, '€'))).is_err());
}

#[test]
fn char_list_prefix_is_big_endian() {
    let v = vec!['A', '0'];
    assert_eq!(enc(|b| put_char_list::<u16>(b, &v)), vec![0, 2, 0x41, 0x30]);
    assert_eq!(enc(|b| put_char_list::<u8>(b, &v)), vec![2, 0x41, 0x30]);
    assert_eq!(enc(|b| put_char_list::<u32>(b, &v)), vec![0, 0, 0, 2, 0x41, 0x30]);
    let mut r = by(&[0, 2, 0x41, 0x30, 9]);
    assert_eq!(get_char_list::<u16>(&mut r), Some(v));
    assert_eq!(r.remaining(), 1);
    assert_eq!(get_char_list::<u16>(&mut by(&[0, 3, 0x41, 0x30])), None);
    assert_eq!(get_char_list::<u16>(&mut by(&[0])), None);
}

#[test]
fn string_prefix_types_and_orders() {
    let s = String::from("é€😀"); // 2 + 3 + 4 bytes
    assert_eq!(s.len(), 9);
    let body = s.as_bytes().to_vec();
    let cat = |p: &[u8]| [p, &body[..]].concat();
    assert_eq!(enc(|b| put_string::<u8>(b, &s)), cat(&[9]));
    assert_eq!(enc(|b| put_string::<u16>(b, &s)), cat(&[0, 9]));
    assert_eq!(enc(|b| put_string_le::<u16>(b, &s)), cat(&[9, 0]));
    assert_eq!(enc(|b| put_string::<u32>(b, &s)), cat(&[0, 0, 0, 9]));
    assert_eq!(enc(|b| put_string_le::<u32>(b, &s)), cat(&[9, 0, 0, 0]));
    assert_eq!(enc(|b| put_string::<u64>(b, &s)), cat(&[0, 0, 0, 0, 0, 0, 0, 9]));
    assert_eq!(enc(|b| put_string_le::<u64>(b, &s)), cat(&[9, 0, 0, 0, 0, 0, 0, 0]));
    assert_eq!(enc(|b| put_string_le::<u8>(b, &s)), cat(&[9]));
    assert_eq!(get_string::<u16>(&mut by(&cat(&[0, 9]))), Some(s.clone()));
    assert_eq!(get_string_le::<u16>(&mut by(&cat(&[9, 0]))), Some(s.clone()));
    assert_eq!(get_string_le::<u64>(&mut by(&cat(&[9, 0, 0, 0, 0, 0, 0, 0]))), Some(s.clone()));
    // the wrong order reads another length: nothing is repaired
    assert_eq!(get_string::<u16>(&mut by(&cat(&[9, 0]))), None);
    // empty string
    assert_eq!(enc(|b| put_string::<u16>(b, "")), vec![0, 0]);
    assert_eq!(get_string::<u16>(&mut by(&[0, 0])), Some(String::new()));
}

#[test]
fn string_short_input_is_none() {
    assert_eq!(get_string::<u16>(&mut by(&[])), None);
    assert_eq!(get_string::<u16>(&mut by(&[0])), None);
    assert_eq!(get_string::<u16>(&mut by(&[0, 3, b'a', b'b'])), None);
    assert_eq!(get_string::<u64>(&mut by(&[0xff; 8])), None);
    assert_eq!(get_string::<u32>(&mut by(&[0xff, 0xff, 0xff, 0xff, 1, 2, 3])), None);
    // not UTF-8
    assert_eq!(get_string::<u8>(&mut by(&[1, 0xff])), None);
}

#[test]
fn string_too_long_for_prefix_panics() {
    let s = "y".repeat(256);
    assert!(catch_unwind(|| enc(|b| put_string::<u8>(b, &s))).is_err());
    let s = "x".repeat(255);
    assert_eq!(enc(|b| put_string::<u8>(b, &s)).len(), 256);
}

#[test]
fn fixed_string_default_padding() {
    assert_eq!(enc(|b| put_char_array(b, "ab", 4)), b"ab  ".to_vec());
    assert_eq!(enc(|b| put_char_array(b, "", 3)), b"   ".to_vec());
    assert_eq!(enc(|b| put_char_array(b, "abcd", 4)), b"abcd".to_vec());
    assert_eq!(enc(|b| put_char_array(b, "é", 4)), vec![0xc3, 0xa9, b' ', b' ']);
    assert_eq!(enc(|b| put_char_array(b, "", 0)), Vec::<u8>::new());
    assert!(catch_unwind(|| enc(|b| put_char_array(b, "abcde", 4))).is_err());
    assert!(catch_unwind(|| enc(|b| put_char_array(b, "éé€", 4))).is_err());
    let mut r = by(b"ab  cd");
    assert_eq!(get_char_array(&mut r, 4), Some("ab".to_string()));
    assert_eq!(r.remaining(), 2);
    assert_eq!(get_char_array(&mut r, 4), None);
    assert_eq!(get_char_array(&mut by(b"    "), 4), Some(String::new()));
    assert_eq!(get_char_array(&mut by(b"  ab"), 4), Some("  ab".to_string()));
    assert_eq!(get_char_array(&mut by(b""), 0), Some(String::new()));
}

#[test]
fn fixed_string_explicit_padding() {
    assert_eq!(enc(|b| put_char_array_with_pad_char(b, "ab", 4, '0', true)), b"00ab".to_vec());
    assert_eq!(enc(|b| put_char_array_with_pad_char(b, "ab", 4, '0', false)), b"ab00".to_vec());
    assert_eq!(enc(|b| put_char_array_with_pad_char(b, "ab", 4, '\0', false)), vec![b'a', b'b', 0, 0]);
    assert_eq!(enc(|b| put_char_array_with_pad_char(b, "ab", 4, '\x00', true)), vec![0, 0, b'a', b'b']);
    assert_eq!(enc(|b| put_char_array_with_pad_char(b, "ab", 4, ' ', true)), b"  ab".to_vec());
    assert_eq!(enc(|b| put_char_array_with_pad_char(b, "ab", 4, b'*', true)), b"**ab".to_vec());
    assert!(catch_unwind(|| enc(|b| put_char_array_with_pad_char(b, "abcde", 4, '0', true))).is_err());
    assert_eq!(get_char_array_trim_pad_char(&mut by(b"00ab"), 4, '0', true), Some("ab".to_string()));
    assert_eq!(get_char_array_trim_pad_char(&mut by(b"00ab"), 4, '0', false), Some("00ab".to_string()));
    assert_eq!(get_char_array_trim_pad_char(&mut by(b"ab00"), 4, '0', false), Some("ab".to_string()));
    assert_eq!(get_char_array_trim_pad_char(&mut by(b"a0b0"), 4, '0', false), Some("a0b".to_string()));
    assert_eq!(get_char_array_trim_pad_char(&mut by(b"0000"), 4, '0', true), Some(String::new()));
    assert_eq!(get_char_array_trim_pad_char(&mut by(&[b'a', 0, 0, 0]), 4, '\0', false), Some("a".to_string()));
    assert_eq!(get_char_array_trim_pad_char(&mut by(b"00a"), 4, '0', true), None);
}

#[test]
fn scalar_lists() {
    let v: Vec<u16> = vec![0x0102, 0xfffe];
    assert_eq!(enc(|b| put_list::<u16, u16>(b, &v)), vec![0, 2, 1, 2, 0xff, 0xfe]);
    assert_eq!(enc(|b| put_list_le::<u16, u16>(b, &v)), vec![2, 0, 2, 1, 0xfe, 0xff]);
    assert_eq!(enc(|b| put_list::<u16, u8>(b, &v)), vec![2, 1, 2, 0xff, 0xfe]);
    assert_eq!(enc(|b| put_list_le::<u16, u32>(b, &v)), vec![2, 0, 0, 0, 2, 1, 0xfe, 0xff]);
    assert_eq!(get_list::<u16, u16>(&mut by(&[0, 2, 1, 2, 0xff, 0xfe])), Some(v.clone()));
    assert_eq!(get_list_le::<u16, u16>(&mut by(&[2, 0, 2, 1, 0xfe, 0xff])), Some(v.clone()));
    let w: Vec<i8> = vec![-1, 127, -128];
    assert_eq!(enc(|b| put_list::<i8, u16>(b, &w)), vec![0, 3, 0xff, 0x7f, 0x80]);
    assert_eq!(get_list_le::<i8, u16>(&mut by(&[3, 0, 0xff, 0x7f, 0x80])), Some(w));
    let x: Vec<i64> = vec![-2];
    assert_eq!(enc(|b| put_list_le::<i64, u8>(b, &x)), vec![1, 0xfe, 0xff, 0xff, 0xff, 0xff, 0xff, 0xff, 0xff]);
    assert_eq!(get_list::<i64, u8>(&mut by(&[1, 0xff, 0xff, 0xff, 0xff, 0xff, 0xff, 0xff, 0xfe])), Some(x));
    let f: Vec<f32> = vec![1.5, -2.25];
    assert_eq!(enc(|b| put_list::<f32, u16>(b, &f)), vec![0, 2, 0x3f, 0xc0, 0, 0, 0xc0, 0x10, 0, 0]);
    assert_eq!(enc(|b| put_list_le::<f32, u16>(b, &f)), vec![2, 0, 0, 0, 0xc0, 0x3f, 0, 0, 0x10, 0xc0]);
    assert_eq!(get_list::<f32, u16>(&mut by(&[0, 2, 0x3f, 0xc0, 0, 0, 0xc0, 0x10, 0, 0])), Some(f));
    let d: Vec<f64> = vec![1.5];
    assert_eq!(enc(|b| put_list::<f64, u16>(b, &d)), vec![0, 1, 0x3f, 0xf8, 0, 0, 0, 0, 0, 0]);
    assert_eq!(get_list_le::<f64, u16>(&mut by(&[1, 0, 0, 0, 0, 0, 0, 0, 0xf8, 0x3f])), Some(d));
    let e: Vec<u32> = vec![];
    assert_eq!(enc(|b| put_list::<u32, u16>(b, &e)), vec![0, 0]);
    assert_eq!(get_list::<u32, u16>(&mut by(&[0, 0])), Some(e));
}

#[test]
fn scalar_list_short_input_is_none_and_does_not_allocate() {
    assert_eq!(get_list::<u16, u16>(&mut by(&[0, 2, 1, 2, 0xff])), None);
    assert_eq!(get_list::<u64, u64>(&mut by(&[0xff; 12])), None);
    assert_eq!(get_list::<u8, u32>(&mut by(&[0xff, 0xff, 0xff, 0xff, 1])), None);
    assert_eq!(get_list::<u8, u16>(&mut by(&[0])), None);
    assert_eq!(get_list::<u8, i8>(&mut by(&[0x80, 1, 2])), None); // negative count
}

#[test]
fn count_255_and_256_with_u8_prefix() {
    let v = vec![7u8; 255];
    let e = enc(|b| put_list::<u8, u8>(b, &v));
    assert_eq!(e.len(), 256);
    assert_eq!(e[0], 255);
    assert_eq!(get_list::<u8, u8>(&mut by(&e)), Some(v));
    let v = vec![7u8; 256];
    assert!(catch_unwind(|| enc(|b| put_list::<u8, u8>(b, &v))).is_err());
}

#[test]
fn string_lists() {
    let v = strs(&["hello", ""]);
    assert_eq!(enc(|b| put_string_list::<u16, u16>(b, &v)), [&[0u8, 2, 0, 5][..], b"hello", &[0, 0]].concat());
    assert_eq!(enc(|b| put_string_list_le::<u16, u16>(b, &v)), [&[2u8, 0, 5, 0][..], b"hello", &[0, 0]].concat());
    // first type parameter is the list prefix, the second the string prefix
    assert_eq!(enc(|b| put_string_list::<u8, u32>(b, &v)), [&[2u8, 0, 0, 0, 5][..], b"hello", &[0, 0, 0, 0]].concat());
    assert_eq!(enc(|b| put_string_list_le::<u32, u8>(b, &v)), [&[2u8, 0, 0, 0, 5][..], b"hello", &[0]].concat());
    let w = enc(|b| put_string_list::<u8, u32>(b, &v));
    assert_eq!(get_string_list::<u8, u32>(&mut by(&w)), Some(v.clone()));
    let w = enc(|b| put_string_list_le::<u32, u8>(b, &v));
    assert_eq!(get_string_list_le::<u32, u8>(&mut by(&w)), Some(v.clone()));
    assert_eq!(get_string_list::<u16, u16>(&mut by(&[0, 2, 0, 1, b'a'])), None);
    assert_eq!(get_string_list::<u64, u16>(&mut by(&[0xff; 9])), None);
}

#[test]
fn fixed_string_lists() {
    let v = strs(&["ab", "x"]);
    assert_eq!(enc(|b| put_fixed_string_list::<u16>(b, &v, 3)), [&[0u8, 2][..], b"ab x  "].concat());
    assert_eq!(enc(|b| put_fixed_string_list_le::<u16>(b, &v, 3)), [&[2u8, 0][..], b"ab x  "].concat());
    assert_eq!(enc(|b| put_fixed_string_list_with_pad_char::<u8>(b, &v, 3, '0', true)), [&[2u8][..], b"0ab00x"].concat());
    assert_eq!(enc(|b| put_fixed_string_list_with_pad_char_le::<u32>(b, &v, 3, '\0', false)), vec![2, 0, 0, 0, b'a', b'b', 0, b'x', 0, 0]);
    assert_eq!(get_fixed_string_list::<u16>(&mut by(&[&[0u8, 2][..], b"ab x  "].concat()), 3), Some(v.clone()));
    assert_eq!(get_fixed_string_list_le::<u16>(&mut by(&[&[2u8, 0][..], b"ab x  "].concat()), 3), Some(v.clone()));
    assert_eq!(get_fixed_string_list_trim_pad_char::<u8>(&mut by(&[&[2u8][..], b"0ab00x"].concat()), 3, '0', true), Some(v.clone()));
    assert_eq!(get_fixed_string_list_trim_pad_char_le::<u32>(&mut by(&[2, 0, 0, 0, b'a', b'b', 0, b'x', 0, 0]), 3, '\0', false), Some(v.clone()));
    assert_eq!(get_fixed_string_list::<u16>(&mut by(&[&[0u8, 2][..], b"ab x "].concat()), 3), None);
    assert_eq!(get_fixed_string_list::<u64>(&mut by(&[0xff; 10]), 3), None);
    assert!(catch_unwind(|| enc(|b| put_fixed_string_list::<u16>(b, &strs(&["abcd"]), 3))).is_err());
}

#[derive(Debug, Clone, PartialEq)]
struct Pair {
    a: u16,
    s: String,
}

impl BinaryCodec for Pair {
    fn encode(&self, buf: &mut BytesMut) {
        buf.put_u16(self.a);
        put_string::<u8>(buf, &self.s);
    }
    fn decode(buf: &mut Bytes) -> Option<Pair> {
        let a = <u16 as Element>::get_be(buf)?;
        let s = get_string::<u8>(buf)?;
        Some(Pair { a, s })
    }
}

#[test]
fn object_lists() {
    let v = vec![Pair { a: 1, s: "x".into() }, Pair { a: 0x0203, s: "".into() }];
    assert_eq!(enc(|b| put_object_list::<Pair, u16>(b, &v)), vec![0, 2, 0, 1, 1, b'x', 2, 3, 0]);
    // only the count prefix has the list's byte order: elements encode themselves
    assert_eq!(enc(|b| put_object_list_le::<Pair, u16>(b, &v)), vec![2, 0, 0, 1, 1, b'x', 2, 3, 0]);
    assert_eq!(enc(|b| put_object_list_le::<Pair, u32>(b, &v)), vec![2, 0, 0, 0, 0, 1, 1, b'x', 2, 3, 0]);
    assert_eq!(get_object_list::<Pair, u16>(&mut by(&[0, 2, 0, 1, 1, b'x', 2, 3, 0])), Some(v.clone()));
    assert_eq!(get_object_list_le::<Pair, u16>(&mut by(&[2, 0, 0, 1, 1, b'x', 2, 3, 0])), Some(v.clone()));
    assert_eq!(get_object_list::<Pair, u16>(&mut by(&[0, 2, 0, 1, 1, b'x', 2])), None);
    assert_eq!(get_object_list::<Pair, u16>(&mut by(&[0, 0])), Some(vec![]));
    assert_eq!(get_object_list::<Pair, u64>(&mut by(&[0xff; 9])), None);
}

fn model(data: &[u8], w: u32) -> u64 {
    // (Σ b[i]·(i+1)) · 0x0101010101010101 mod 2^(8w), in 128-bit arithmetic
    let mut s: u128 = 0;
    for (i, b) in data.iter().enumerate() {
        s += (*b as u128) * (i as u128 + 1);
    }
    let p = s * 0x0101_0101_0101_0101u128;
    (p % (1u128 << (8 * w))) as u64
}

#[test]
fn checksum_formula_and_types() {
    let mut buf = BytesMut::new();
    buf.put_slice(&[1, 2, 3, 0xff, 0x80]);
    // Σ = 1 + 4 + 9 + 1020 + 640 = 1674 = 0x68a
    assert_eq!(harness_sum(&buf[..]), 0x068au64.wrapping_mul(0x0101_0101_0101_0101));
    let get = |n: &str| CHECKSUM_SERVICE_CONTEXT.get(n).map(|s| s.calc(&buf));
    assert_eq!(get("SUMU8"), Some(Checksum::U8(model(&buf, 1) as u8)));
    assert_eq!(get("SUMU8"), Some(Checksum::U8(0x8a)));
    assert_eq!(get("SUMU16"), Some(Checksum::U16(model(&buf, 2) as u16)));
    assert_eq!(get("SUMU16"), Some(Checksum::U16(0x908a)));
    assert_eq!(get("SUMU32"), Some(Checksum::U32(model(&buf, 4) as u32)));
    assert_eq!(get("SUMU64"), Some(Checksum::U64(model(&buf, 8))));
    assert_eq!(get("SUMI8"), Some(Checksum::I8(0x8au8 as i8)));
    assert_eq!(get("SUMI16"), Some(Checksum::I16(0x908au16 as i16)));
    assert_eq!(get("SUMI32"), Some(Checksum::I32(model(&buf, 4) as u32 as i32)));
    assert_eq!(get("SUMI64"), Some(Checksum::I64(model(&buf, 8) as i64)));
    assert_eq!(get("CRC32"), Some(Checksum::U32(model(&buf, 4) as u32)));
    assert!(CHECKSUM_SERVICE_CONTEXT.get("CRC16").is_none());
    assert!(CHECKSUM_SERVICE_CONTEXT.get("sumu8").is_none());
    assert!(CHECKSUM_SERVICE_CONTEXT.get("").is_none());
    let empty = BytesMut::new();
    assert_eq!(CHECKSUM_SERVICE_CONTEXT.get("SUMU32").unwrap().calc(&empty), Checksum::U32(0));
}

// The call shape the emitter prints for a checksum field must type-check and leave `buf` usable.
struct Ck {
    c: u16,
    d: i32,
}

impl BinaryCodec for Ck {
    fn encode(&self, buf: &mut BytesMut) {
        buf.put_u8(7);
        let val = CHECKSUM_SERVICE_CONTEXT.get("SUMU16")
            .and_then(|service| match service.calc(buf) {
                Checksum::U16(v) => Some(v),
                _ => None,
                }).unwrap_or(self.c);
            buf.put_u16(val);
        let val = CHECKSUM_SERVICE_CONTEXT.get("NOPE")
            .and_then(|service| match service.calc(buf) {
                Checksum::I32(v) => Some(v),
                _ => None,
                }).unwrap_or(self.d);
            buf.put_i32(val);
    }
    fn decode(_buf: &mut Bytes) -> Option<Ck> {
        None
    }
}

#[test]
fn checksum_call_shape() {
    let e = enc(|b| Ck { c: 9, d: -2 }.encode(b));
    assert_eq!(e, vec![7, 0x07, 0x07, 0xff, 0xff, 0xff, 0xfe]);
}
