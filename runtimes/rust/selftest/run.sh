#!/bin/bash
# Self-test of the harness Rust runtime (binary_codec). Builds bytes/byteorder/binary_codec rlibs in a
# scratch directory under /var/tmp, compiles selftest.rs with `rustc --test` and runs it.
# exit 0 = all tests passed.
set -eu
HERE="$(cd "$(dirname "$0")" && pwd)"
RT="$(dirname "$HERE")"
SCR="$(mktemp -d /var/tmp/rust-selftest.XXXXXX)"
trap 'rm -rf "$SCR"' EXIT
REG="$(ls -d "${CARGO_HOME:-$HOME/.cargo}"/registry/src/*/ | head -1)"
F="--edition 2021 -C opt-level=0 -C debuginfo=0"
rustc $F --crate-type rlib --crate-name bytes --cfg 'feature="std"' --cap-lints allow --out-dir "$SCR" "$REG/bytes-1.11.1/src/lib.rs"
rustc $F --crate-type rlib --crate-name byteorder --cfg 'feature="std"' --cap-lints allow --out-dir "$SCR" "$REG/byteorder-1.5.0/src/lib.rs"
rustc $F --crate-type rlib --crate-name binary_codec -L "$SCR" --extern bytes="$SCR/libbytes.rlib" --out-dir "$SCR" "$RT/binary_codec/lib.rs"
rustc $F --test -L "$SCR" --extern binary_codec="$SCR/libbinary_codec.rlib" --extern bytes="$SCR/libbytes.rlib" --extern byteorder="$SCR/libbyteorder.rlib" \
  -o "$SCR/selftest" "$HERE/selftest.rs"
"$SCR/selftest" "$@"
