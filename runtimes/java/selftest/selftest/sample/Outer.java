package selftest.sample;

import com.finproto.codec.BinaryCodec;
import io.netty.buffer.ByteBuf;
import java.nio.charset.StandardCharsets;
import java.util.ArrayList;
import java.util.List;

/** Hand-written class in the shape the emitter produces; used only by the driver self-test. */
public class Outer implements BinaryCodec {
    private byte a;
    private short bB;
    private long big;
    private float f;
    private String name;
    private String fix;
    private List<Short> nums;
    private List<Sub> subs;
    private Sub sub;
    private BinaryCodec body;

    public byte getA() { return a; }
    public void setA(byte a) { this.a = a; }
    public short getBB() { return bB; }
    public void setBB(short bB) { this.bB = bB; }
    public long getBig() { return big; }
    public void setBig(long big) { this.big = big; }
    public float getF() { return f; }
    public void setF(float f) { this.f = f; }
    public String getName() { return name; }
    public void setName(String name) { this.name = name; }
    public String getFix() { return fix; }
    public void setFix(String fix) { this.fix = fix; }
    public List<Short> getNums() { return nums; }
    public void setNums(List<Short> nums) { this.nums = nums; }
    public List<Sub> getSubs() { return subs; }
    public void setSubs(List<Sub> subs) { this.subs = subs; }
    public Sub getSub() { return sub; }
    public void setSub(Sub sub) { this.sub = sub; }
    public BinaryCodec getBody() { return body; }
    public void setBody(BinaryCodec body) { this.body = body; }

    @Override
    public void encode(ByteBuf buf) {
        buf.writeByte(a);
        buf.writeShort(bB);
        buf.writeLongLE(big);
        buf.writeFloat(f);
        byte[] b = name == null ? new byte[0] : name.getBytes(StandardCharsets.UTF_8);
        buf.writeShort(b.length);
        buf.writeBytes(b);
        writeFixedString(buf, fix, 4, '*', true);
        buf.writeByte(nums == null ? 0 : nums.size());
        if (nums != null) {
            for (Short s : nums) {
                buf.writeShort(s);
            }
        }
        buf.writeByte(subs == null ? 0 : subs.size());
        if (subs != null) {
            for (Sub s : subs) {
                s.encode(buf);
            }
        }
        sub.encode(buf);
        if (body != null) {
            body.encode(buf);
        }
    }

    @Override
    public void decode(ByteBuf buf) {
        a = buf.readByte();
        bB = buf.readShort();
        big = buf.readLongLE();
        f = buf.readFloat();
        short n = buf.readShort();
        if (n > 0) {
            name = buf.readCharSequence(n, StandardCharsets.UTF_8).toString();
        }
        fix = readFixedString(buf, 4, '*', true);
        byte k = buf.readByte();
        if (k > 0) {
            nums = new ArrayList<>();
            for (int i = 0; i < k; i++) {
                nums.add(buf.readShort());
            }
        }
        k = buf.readByte();
        if (k > 0) {
            subs = new ArrayList<>();
            for (int i = 0; i < k; i++) {
                Sub s = new Sub();
                s.decode(buf);
                subs.add(s);
            }
        }
        sub = new Sub();
        sub.decode(buf);
        if (a == 1) {
            body = new Payload();
            body.decode(buf);
        } else if (a == 2) {
            throw new IllegalArgumentException("Unsupported a:" + a);
        }
    }

    public static class Sub implements BinaryCodec {
        private int x;
        public int getX() { return x; }
        public void setX(int x) { this.x = x; }
        @Override public void encode(ByteBuf buf) { buf.writeIntLE(x); }
        @Override public void decode(ByteBuf buf) { x = buf.readIntLE(); }
    }
}
