package selftest.sample;

import com.finproto.codec.BinaryCodec;
import io.netty.buffer.ByteBuf;

public class Payload implements BinaryCodec {
    private double d;
    public double getD() { return d; }
    public void setD(double d) { this.d = d; }
    @Override public void encode(ByteBuf buf) { buf.writeDouble(d); }
    @Override public void decode(ByteBuf buf) { d = buf.readDouble(); }
}
