package selftest.sample;

import static org.junit.Assert.*;

import org.junit.Test;

public class OuterTest {
    @Test
    public void testPasses() { assertEquals(4, 2 + 2); assertEquals("a", "a"); assertNotNull(this); }

    @Test
    public void testFails() { assertEquals(new Payload(), new Payload()); }

    @Test(expected = IndexOutOfBoundsException.class)
    public void testExpected() { new Payload().decode(io.netty.buffer.Unpooled.buffer()); }

    public void notATest() { fail("must not run"); }
}
