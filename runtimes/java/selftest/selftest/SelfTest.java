package selftest;

import com.finproto.codec.BinaryCodec;
import com.finproto.codec.ChecksumService;
import com.finproto.codec.ChecksumServiceFactory;
import io.netty.buffer.ByteBuf;
import io.netty.buffer.Unpooled;
import io.netty.util.internal.StringUtil;
import java.io.ByteArrayOutputStream;
import java.io.InputStream;
import java.io.OutputStream;
import java.math.BigInteger;
import java.nio.charset.StandardCharsets;
import java.util.ArrayList;
import java.util.List;

/**
 * Self-test of the Java runtime, driver and test runner.
 *   cd runtimes/java && javac -d /var/tmp/jst $(find src selftest -name '*.java') && java -cp /var/tmp/jst selftest.SelfTest
 * Prints one line per failed expectation and "SELFTEST OK n checks" / "SELFTEST FAILED"; exit status 0 / 1.
 */
public final class SelfTest {
    private static int checks;
    private static int failures;

    private static void check(String what, Object want, Object got) {
        checks++;
        if (want == null ? got != null : !want.equals(got)) {
            failures++;
            System.out.println("FAILED " + what + ": want " + want + " got " + got);
        }
    }

    private interface Body { void run() throws Exception; }

    private static void throwsIt(String what, Class<? extends Throwable> cls, Body b) {
        checks++;
        try {
            b.run();
        } catch (Throwable t) {
            if (cls.isInstance(t)) {
                return;
            }
            failures++;
            System.out.println("FAILED " + what + ": threw " + t);
            return;
        }
        failures++;
        System.out.println("FAILED " + what + ": did not throw " + cls.getName());
    }

    private static String hex(ByteBuf b) {
        StringBuilder s = new StringBuilder();
        for (int i = 0; i < b.writerIndex(); i++) {
            s.append(String.format("%02x", b.getByte(i) & 0xFF));
        }
        return s.toString();
    }

    private static final class Codec implements BinaryCodec {
        @Override public void encode(ByteBuf b) {}
        @Override public void decode(ByteBuf b) {}
    }

    private static void byteBuf() {
        ByteBuf b = Unpooled.buffer();
        check("initial capacity", 256, b.capacity());
        b.writeByte(0x1ff).writeShort(0x10203).writeShortLE(0x0203).writeInt(0x01020304).writeIntLE(0x01020304)
            .writeLong(0x0102030405060708L).writeLongLE(0x0102030405060708L).writeFloat(1.5f).writeFloatLE(1.5f)
            .writeDouble(-2.0).writeDoubleLE(-2.0);
        check("BE/LE layout", "ff" + "0203" + "0302" + "01020304" + "04030201" + "0102030405060708" + "0807060504030201"
            + "3fc00000" + "0000c03f" + "c000000000000000" + "00000000000000c0", hex(b));
        check("writerIndex", 53, b.writerIndex());
        check("readByte", (byte) -1, b.readByte());
        check("readShort", (short) 0x0203, b.readShort());
        check("readShortLE", (short) 0x0203, b.readShortLE());
        check("readInt", 0x01020304, b.readInt());
        check("readIntLE", 0x01020304, b.readIntLE());
        check("readLong", 0x0102030405060708L, b.readLong());
        check("readLongLE", 0x0102030405060708L, b.readLongLE());
        check("readFloat", 1.5f, b.readFloat());
        check("readFloatLE", 1.5f, b.readFloatLE());
        check("readDouble", -2.0, b.readDouble());
        check("readDoubleLE", -2.0, b.readDoubleLE());
        check("readerIndex", 53, b.readerIndex());
        check("readableBytes", 0, b.readableBytes());
        throwsIt("read past writerIndex (capacity left)", IndexOutOfBoundsException.class, b::readByte);
        throwsIt("readInt past writerIndex", IndexOutOfBoundsException.class, b::readInt);

        // back-patching
        ByteBuf p = Unpooled.buffer();
        p.writeShort(0).writeInt(0).writeLong(0).writeByte(0);
        p.setShort(0, 0xABCD).setIntLE(2, 0x01020304).setLongLE(6, 1L).setByte(14, 0x7f);
        check("set*", "abcd" + "04030201" + "0100000000000000" + "7f", hex(p));
        p.setShortLE(0, 0xABCD).setInt(2, 0x01020304).setLong(6, 1L);
        check("set* other order", "cdab" + "01020304" + "0000000000000001" + "7f", hex(p));
        check("set does not move writerIndex", 15, p.writerIndex());
        throwsIt("set beyond capacity", IndexOutOfBoundsException.class, () -> p.setInt(254, 1));
        throwsIt("set at negative index", IndexOutOfBoundsException.class, () -> p.setShort(-1, 1));

        // NaN payloads survive
        ByteBuf n = Unpooled.buffer();
        n.writeFloat(Float.intBitsToFloat(0x7fa00001)).writeDouble(Double.longBitsToDouble(0x7ff4000000000001L));
        check("raw NaN bits", "7fa00001" + "7ff4000000000001", hex(n));

        // growth
        ByteBuf g = Unpooled.buffer();
        byte[] big = new byte[100000];
        big[99999] = 9;
        g.writeBytes(big);
        g.writeByte(1);
        check("growth", 100001, g.writerIndex());
        check("growth content", (byte) 9, g.getByte(99999));
        byte[] back = new byte[100001];
        g.readBytes(back);
        check("readBytes", (byte) 1, back[100000]);
        throwsIt("readBytes beyond", IndexOutOfBoundsException.class, () -> g.readBytes(new byte[1]));

        // wrapped buffers
        ByteBuf w = Unpooled.wrappedBuffer(new byte[] {0x01, 0x02, (byte) 0xe2, (byte) 0x82, (byte) 0xac});
        check("wrapped readable", 5, w.readableBytes());
        check("wrapped short", (short) 0x0102, w.readShort());
        check("readCharSequence", "\u20ac", w.readCharSequence(3, StandardCharsets.UTF_8).toString());
        check("wrapped readerIndex", 5, w.readerIndex());
        throwsIt("wrapped overread", IndexOutOfBoundsException.class, w::readByte);
        throwsIt("wrapped readCharSequence overread", IndexOutOfBoundsException.class, () -> w.readCharSequence(1, StandardCharsets.UTF_8));
        throwsIt("wrapped is full", IndexOutOfBoundsException.class, () -> w.writeByte(1));
        check("empty readCharSequence", "", Unpooled.wrappedBuffer(new byte[0]).readCharSequence(0, StandardCharsets.UTF_8).toString());
        throwsIt("empty read", IndexOutOfBoundsException.class, () -> Unpooled.wrappedBuffer(new byte[0]).readByte());

        check("isNullOrEmpty(null)", true, StringUtil.isNullOrEmpty(null));
        check("isNullOrEmpty(\"\")", true, StringUtil.isNullOrEmpty(""));
        check("isNullOrEmpty(\" \")", false, StringUtil.isNullOrEmpty(" "));
    }

    private static void fixedStrings() {
        Codec c = new Codec();
        ByteBuf b = Unpooled.buffer();
        c.writeFixedString(b, "ab", 4);
        c.writeFixedString(b, "ab", 4, '0', true);
        c.writeFixedString(b, "ab", 4, '\0', false);
        c.writeFixedString(b, "", 2);
        c.writeFixedString(b, "abcd", 4);
        c.writeFixedString(b, "\u00e9", 3, '*', true);
        check("fixed string layout", "61622020" + "30306162" + "61620000" + "2020" + "61626364" + "2ac3a9", hex(b));
        check("read default", "ab", c.readFixedString(b, 4));
        check("read left 0", "ab", c.readFixedString(b, 4, '0', true));
        check("read right NUL", "ab", c.readFixedString(b, 4, '\0', false));
        check("read empty", "", c.readFixedString(b, 2));
        check("read full", "abcd", c.readFixedString(b, 4));
        check("read multibyte", "\u00e9", c.readFixedString(b, 3, '*', true));
        check("all consumed", 0, b.readableBytes());
        ByteBuf t = Unpooled.wrappedBuffer(" a b  ".getBytes(StandardCharsets.UTF_8));
        check("default trims only the right", " a b", c.readFixedString(t, 6));
        ByteBuf l = Unpooled.wrappedBuffer("00a0".getBytes(StandardCharsets.UTF_8));
        check("left trims only the left", "a0", c.readFixedString(l, 4, '0', true));
        ByteBuf r = Unpooled.wrappedBuffer("0a00".getBytes(StandardCharsets.UTF_8));
        check("right trims only the right", "0a", c.readFixedString(r, 4, '0', false));
        throwsIt("too long", RuntimeException.class, () -> c.writeFixedString(Unpooled.buffer(), "abcde", 4));
        throwsIt("too long in bytes", RuntimeException.class, () -> c.writeFixedString(Unpooled.buffer(), "\u20ac\u20ac", 4, ' ', false));
        throwsIt("short buffer", IndexOutOfBoundsException.class, () -> c.readFixedString(Unpooled.wrappedBuffer(new byte[3]), 4));
    }

    private static void checksums() {
        byte[] data = new byte[300];
        for (int i = 0; i < data.length; i++) {
            data[i] = (byte) (i * 7 + 0x81);
        }
        BigInteger s = BigInteger.ZERO;
        for (int i = 0; i < data.length; i++) {
            s = s.add(BigInteger.valueOf((long) (data[i] & 0xFF) * (i + 1)));
        }
        s = s.multiply(new BigInteger("0101010101010101", 16));
        ByteBuf b = Unpooled.buffer();
        b.writeBytes(data);
        b.readInt(); // the reader index is irrelevant: the sum covers everything written
        ChecksumServiceFactory f = ChecksumServiceFactory.getInstance();
        for (int w : new int[] {1, 2, 4, 8}) {
            BigInteger m = s.mod(BigInteger.ONE.shiftLeft(8 * w));
            for (String name : new String[] {"SUMU" + 8 * w, "SUMI" + 8 * w}) {
                ChecksumService<ByteBuf, Number> svc = f.getChecksumService(name);
                checks++;
                if (svc == null) {
                    failures++;
                    System.out.println("FAILED " + name + " not registered");
                    continue;
                }
                Number v = svc.calc(b);
                long mask = w == 8 ? -1L : (1L << (8 * w)) - 1;
                check(name + " bit pattern", m.longValue() & mask, v.longValue() & mask);
                check(name + " result type", w == 8 ? Long.class : Integer.class, v.getClass());
                if (name.startsWith("SUMI") && w < 8) {
                    long sx = m.testBit(8 * w - 1) ? m.longValue() | ~mask : m.longValue();
                    check(name + " sign extension", sx, v.longValue());
                }
                if (name.startsWith("SUMU") && w < 4) {
                    check(name + " zero extension", m.longValue(), v.longValue());
                }
            }
        }
        ChecksumService<ByteBuf, Integer> crc = f.getChecksumService("CRC32");
        check("CRC32", s.mod(BigInteger.ONE.shiftLeft(32)).intValue(), crc.calc(b));
        // the declaration the emitter uses
        ChecksumService<ByteBuf, Integer> asEmitted = ChecksumServiceFactory.getInstance().getChecksumService("SUMU16");
        int v = (int) asEmitted.calc(b);
        check("as emitted (int)", s.mod(BigInteger.valueOf(65536)).intValue(), v);
        check("empty buffer", 0, ChecksumServiceFactory.getInstance().<ByteBuf, Integer>getChecksumService("SUMU32").calc(Unpooled.buffer()));
        ByteBuf one = Unpooled.buffer();
        one.writeByte(1).writeByte(2);
        check("(1*1+2*2)*0x01010101", 0x05050505, ChecksumServiceFactory.getInstance().<ByteBuf, Integer>getChecksumService("SUMI32").calc(one));
        for (String name : new String[] {"SUM8", "crc32", "", "CRC16", "NONE", "SUMU128"}) {
            check("unregistered " + name, null, f.getChecksumService(name));
        }
    }

    private static String run(List<String> cmd, String stdin) throws Exception {
        Process p = new ProcessBuilder(cmd).redirectError(ProcessBuilder.Redirect.DISCARD).start();
        try (OutputStream o = p.getOutputStream()) {
            o.write(stdin.getBytes(StandardCharsets.UTF_8));
        }
        ByteArrayOutputStream bo = new ByteArrayOutputStream();
        try (InputStream i = p.getInputStream()) {
            i.transferTo(bo);
        }
        p.waitFor();
        return bo.toString("UTF-8");
    }

    private static List<String> java(String main, String... args) {
        List<String> cmd = new ArrayList<>();
        cmd.add(System.getProperty("java.home") + "/bin/java");
        cmd.add("-cp");
        cmd.add(System.getProperty("java.class.path"));
        cmd.add(main);
        for (String a : args) {
            cmd.add(a);
        }
        return cmd;
    }

    private static void driver() throws Exception {
        String value = "P:Outer { A = i:u8:1 b_b = i:u16:fffe Big = i:u64:ffffffffffffffff F = f:f32:3fc00000 Name = s:c3a9 Fix = s:6162"
            + " Nums = [ i:i16:8000 i:i16:1 ] Subs = [ P:Sub { X = i:u32:80000000 } ] Sub = P:Sub { X = i:i32:5 } Body = P:Payload { D = f:f64:c000000000000000 } }";
        String wire = "01" + "fffe" + "ffffffffffffffff" + "3fc00000" + "0002c3a9" + "2a2a6162" + "02" + "8000" + "0001" + "01" + "00000080" + "05000000" + "c000000000000000";
        String in = "ENC m1 " + value + "\n"
            + "DEC d1 Outer " + wire + "ffff\n"
            + "DEC d2 Outer " + wire.substring(0, wire.length() - 2) + "\n"
            + "DEC d3 Outer\n"
            + "ENC m2 P:Nope { }\n"
            + "ENC m3 P:Outer { Zzz = i:u8:1 }\n"
            + "ENC m4 P:Outer { A = i:u8:0 }\n"
            + "DEC d4 Outer 02" + wire.substring(2, wire.length() - 16) + "\n"
            + "DEC d5 Sub 01000000\n"
            + "ENC m5 P:Outer { Fix = s:6162636465 Sub = P:Sub { } }\n"
            + "END\n";
        String out = run(java("verif.Driver", "selftest.sample"), in);
        String[] l = out.split("\n");
        check("driver lines", 12, l.length);
        if (l.length != 12) {
            System.out.println(out);
            return;
        }
        check("ENC", "ENC m1 " + wire, l[0]);
        check("DEC", "DEC d1 " + wire.length() / 2 + " P:Outer { a = i:1 bB = i:-2 big = i:-1 f = f:3ff8000000000000 name = s:c3a9 fix = s:6162"
            + " nums = [ i:-32768 i:1 ] subs = [ P:Sub { x = i:-2147483648 } ] sub = P:Sub { x = i:5 } body = P:Payload { d = f:c000000000000000 } }", l[1]);
        check("REENC", "REENC d1 " + wire, l[2]);
        check("truncated", true, l[3].startsWith("ERR d2 error java.lang.IndexOutOfBoundsException"));
        check("empty", true, l[4].startsWith("ERR d3 error java.lang.IndexOutOfBoundsException"));
        check("notype", "ERR m2 unsupported notype Nope", l[5]);
        check("nomember", "ERR m3 unsupported nomember Outer.Zzz", l[6]);
        check("exception in encode", true, l[7].startsWith("ERR m4 error java.lang.NullPointerException"));
        check("exception in decode", "ERR d4 error java.lang.IllegalArgumentException: Unsupported a:2", l[8]);
        check("nested class as root", "DEC d5 4 P:Sub { x = i:1 }", l[9]);
        check("nested reenc", "REENC d5 01000000", l[10]);
        check("fixed string too long", true, l[11].startsWith("ERR m5 error java.lang.IllegalArgumentException"));

        String t = run(java("verif.TestRunner", "selftest.sample.OuterTest", "selftest.sample.Missing"), "");
        check("runner passes", true, t.contains("PASS selftest.sample.OuterTest.testPasses\n"));
        check("runner expected", true, t.contains("PASS selftest.sample.OuterTest.testExpected\n"));
        check("runner fails", true, t.contains("FAIL selftest.sample.OuterTest.testFails java.lang.AssertionError"));
        check("runner load", true, t.contains("FAIL selftest.sample.Missing.<load> java.lang.ClassNotFoundException"));
        check("runner skips unannotated", false, t.contains("notATest"));
        check("runner summary", true, t.endsWith("RAN 3 FAILED 2\n"));
    }

    public static void main(String[] args) throws Exception {
        byteBuf();
        fixedStrings();
        checksums();
        driver();
        if (failures == 0) {
            System.out.println("SELFTEST OK " + checks + " checks");
        } else {
            System.out.println("SELFTEST FAILED " + failures + " of " + checks);
            System.exit(1);
        }
    }
}
