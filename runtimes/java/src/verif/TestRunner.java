package verif;

import java.io.PrintStream;
import java.lang.reflect.InvocationTargetException;
import java.lang.reflect.Method;
import java.lang.reflect.Modifier;
import java.util.ArrayList;
import java.util.Comparator;
import java.util.List;

/**
 * Reflective runner for the JUnit 4 stand-in: java -cp ... verif.TestRunner &lt;fully qualified test class&gt;...
 * Prints "PASS cls.m" / "FAIL cls.m &lt;throwable&gt;" per executed test method and finally "RAN &lt;n&gt; FAILED &lt;m&gt;".
 * RAN counts the test methods that were actually invoked; a class that cannot be loaded or instantiated
 * adds a FAIL line (and to FAILED) without adding to RAN.
 */
public final class TestRunner {
    private TestRunner() {}

    private static PrintStream out;
    private static int ran;
    private static int failed;

    private static List<Method> annotated(Class<?> cls, Class<? extends java.lang.annotation.Annotation> a) {
        List<Method> ms = new ArrayList<>();
        for (Method m : cls.getMethods()) {
            if (m.isAnnotationPresent(a)) {
                ms.add(m);
            }
        }
        ms.sort(Comparator.comparing(Method::getName));
        return ms;
    }

    private static Throwable invokeAll(List<Method> ms, Object target) {
        for (Method m : ms) {
            try {
                m.invoke(target);
            } catch (InvocationTargetException e) {
                return e.getCause();
            } catch (Throwable e) {
                return e;
            }
        }
        return null;
    }

    private static void fail(String what, Throwable t) {
        failed++;
        out.println("FAIL " + what + " " + Driver.describe(t));
        out.flush();
    }

    private static void runClass(String name) {
        Class<?> cls;
        try {
            cls = Class.forName(name);
        } catch (Throwable t) {
            fail(name + ".<load>", t);
            return;
        }
        if (cls.isAnnotationPresent(org.junit.Ignore.class)) {
            out.println("SKIP " + name);
            return;
        }
        Throwable t = invokeAll(annotated(cls, org.junit.BeforeClass.class), null);
        if (t != null) {
            fail(name + ".<beforeClass>", t);
            return;
        }
        for (Method m : annotated(cls, org.junit.Test.class)) {
            String id = name + "." + m.getName();
            if (m.isAnnotationPresent(org.junit.Ignore.class)) {
                out.println("SKIP " + id);
                continue;
            }
            if (m.getParameterCount() != 0 || Modifier.isStatic(m.getModifiers())) {
                fail(id, new IllegalArgumentException("@Test method must be a public instance method without parameters"));
                continue;
            }
            Object inst;
            try {
                inst = cls.getDeclaredConstructor().newInstance();
            } catch (InvocationTargetException e) {
                fail(id, e.getCause());
                continue;
            } catch (Throwable e) {
                fail(id, e);
                continue;
            }
            Class<? extends Throwable> expected = m.getAnnotation(org.junit.Test.class).expected();
            Throwable thrown = invokeAll(annotated(cls, org.junit.Before.class), inst);
            if (thrown == null) {
                ran++;
                try {
                    m.invoke(inst);
                } catch (InvocationTargetException e) {
                    thrown = e.getCause();
                } catch (Throwable e) {
                    thrown = e;
                }
                if (expected != org.junit.Test.None.class) {
                    if (thrown == null) {
                        thrown = new AssertionError("Expected exception: " + expected.getName());
                    } else if (expected.isInstance(thrown)) {
                        thrown = null;
                    }
                }
            }
            Throwable after = invokeAll(annotated(cls, org.junit.After.class), inst);
            if (thrown == null) {
                thrown = after;
            }
            if (thrown == null) {
                out.println("PASS " + id);
                out.flush();
            } else {
                fail(id, thrown);
            }
        }
        t = invokeAll(annotated(cls, org.junit.AfterClass.class), null);
        if (t != null) {
            fail(name + ".<afterClass>", t);
        }
    }

    public static void main(String[] args) throws Exception {
        out = new PrintStream(new java.io.FileOutputStream(java.io.FileDescriptor.out), false, "UTF-8");
        System.setOut(System.err);
        Thread t = new Thread(null, () -> {
            for (String a : args) {
                try {
                    runClass(a);
                } catch (Throwable e) {
                    fail(a + ".<runner>", e);
                }
            }
        }, "verif-tests", 64L << 20);
        t.start();
        t.join();
        out.println("RAN " + ran + " FAILED " + failed);
        out.flush();
        Runtime.getRuntime().halt(failed == 0 && ran > 0 ? 0 : 1);
    }
}
