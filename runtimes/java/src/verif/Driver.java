package verif;

import io.netty.buffer.ByteBuf;
import io.netty.buffer.Unpooled;
import java.io.BufferedReader;
import java.io.File;
import java.io.InputStreamReader;
import java.io.PrintStream;
import java.lang.reflect.Constructor;
import java.lang.reflect.Field;
import java.lang.reflect.InvocationTargetException;
import java.lang.reflect.Method;
import java.lang.reflect.Modifier;
import java.lang.reflect.ParameterizedType;
import java.lang.reflect.Type;
import java.lang.reflect.WildcardType;
import java.nio.charset.StandardCharsets;
import java.util.ArrayList;
import java.util.Collection;
import java.util.HashMap;
import java.util.List;
import java.util.Map;
import java.util.concurrent.ExecutorService;
import java.util.concurrent.Executors;
import java.util.concurrent.Future;
import java.util.concurrent.TimeUnit;
import java.util.concurrent.TimeoutException;

/**
 * Generic reflective observer for emitted Java codecs.
 *
 * usage: java -cp &lt;runtime classes&gt;:&lt;emitted classes&gt; verif.Driver &lt;java package&gt;
 *
 * Speaks the harness line protocol (engine/internal/wire/tree.go) on stdin/stdout. Contains no expected
 * values and repairs nothing: values are stored into the members the emitted code declares (bit pattern
 * truncated / reinterpreted to the member's Java type), objects are dumped as the emitted getters show them.
 */
public final class Driver {
    private Driver() {}

    /** The driver cannot build a value: a type or member is missing in the emitted code. */
    static final class Unsupported extends Exception {
        private static final long serialVersionUID = 1L;
        Unsupported(String m) { super(m); }
    }

    /** The code under observation threw. */
    static final class Observed extends Exception {
        private static final long serialVersionUID = 1L;
        Observed(Throwable cause) { super(cause); }
    }

    private static String pkg;
    /** normalised simple name -> binary class names, top-level classes first. */
    private static final Map<String, List<String>> classIndex = new HashMap<>();
    private static ClassLoader loader;

    static String norm(String s) { return s.replace("_", "").toLowerCase(java.util.Locale.ROOT); }

    // ------------------------------------------------------------------ class lookup

    private static void indexClasses() {
        String rel = pkg.replace('.', File.separatorChar);
        List<String> top = new ArrayList<>();
        List<String> nested = new ArrayList<>();
        for (String cp : System.getProperty("java.class.path", "").split(File.pathSeparator)) {
            File dir = new File(cp, rel);
            String[] names = dir.list();
            if (names == null) {
                continue;
            }
            java.util.Arrays.sort(names);
            for (String n : names) {
                if (!n.endsWith(".class")) {
                    continue;
                }
                String base = n.substring(0, n.length() - 6);
                (base.indexOf('$') < 0 ? top : nested).add(base);
            }
        }
        for (String b : top) {
            classIndex.computeIfAbsent(norm(b), k -> new ArrayList<>()).add(pkg + "." + b);
        }
        for (String b : nested) {
            String simple = b.substring(b.lastIndexOf('$') + 1);
            if (simple.isEmpty() || Character.isDigit(simple.charAt(0))) {
                continue; // anonymous / local classes
            }
            classIndex.computeIfAbsent(norm(simple), k -> new ArrayList<>()).add(pkg + "." + b);
        }
    }

    private static Class<?> load(String binaryName) {
        try {
            return Class.forName(binaryName, false, loader);
        } catch (Throwable t) {
            return null;
        }
    }

    private static boolean instantiable(Class<?> c) {
        return c != null && !c.isInterface() && !Modifier.isAbstract(c.getModifiers()) && !c.isEnum()
            && hasMethod(c, "encode") && hasMethod(c, "decode");
    }

    private static boolean hasMethod(Class<?> c, String name) {
        for (Method m : c.getMethods()) {
            if (m.getName().equals(name) && m.getParameterCount() == 1 && m.getParameterTypes()[0] == ByteBuf.class) {
                return true;
            }
        }
        return false;
    }

    /** Resolve a DSL packet name: the member's own concrete type if it carries that name, then pkg.Name, then every pkg.X$Name. */
    static Class<?> resolve(String name, Class<?> declared) throws Unsupported {
        String key = norm(name);
        if (declared != null && instantiable(declared) && norm(declared.getSimpleName()).equals(key)) {
            return declared;
        }
        List<String> cands = classIndex.get(key);
        Class<?> firstFit = null;
        if (cands != null) {
            for (String bn : cands) {
                Class<?> c = load(bn);
                if (!instantiable(c)) {
                    continue;
                }
                if (declared == null || declared.isAssignableFrom(c)) {
                    return c;
                }
                if (firstFit == null) {
                    firstFit = c;
                }
            }
        }
        if (firstFit != null) {
            return firstFit;
        }
        throw new Unsupported("notype " + name);
    }

    // ------------------------------------------------------------------ members

    static final class Member {
        String name;
        Method setter;
        Method getter;
        Field field;
        Type type;
    }

    private static final Map<Class<?>, List<Member>> memberCache = new HashMap<>();

    /** Members of an emitted class: its declared instance fields (superclasses first) with their public accessors. */
    static List<Member> members(Class<?> cls) {
        List<Member> ms = memberCache.get(cls);
        if (ms != null) {
            return ms;
        }
        ms = new ArrayList<>();
        List<Class<?>> chain = new ArrayList<>();
        for (Class<?> c = cls; c != null && c != Object.class; c = c.getSuperclass()) {
            chain.add(0, c);
        }
        Method[] pub = cls.getMethods();
        for (Class<?> c : chain) {
            for (Field f : c.getDeclaredFields()) {
                if (Modifier.isStatic(f.getModifiers()) || f.isSynthetic()) {
                    continue;
                }
                Member m = new Member();
                m.name = f.getName();
                m.field = f;
                m.type = f.getGenericType();
                try {
                    f.setAccessible(true);
                } catch (RuntimeException e) {
                    // left inaccessible: only the accessors can be used
                }
                String key = norm(f.getName());
                for (Method p : pub) {
                    if (Modifier.isStatic(p.getModifiers())) {
                        continue;
                    }
                    String n = p.getName();
                    if (p.getParameterCount() == 1 && n.startsWith("set") && norm(n.substring(3)).equals(key)) {
                        if (m.setter == null || p.getParameterTypes()[0] == f.getType()) {
                            m.setter = p;
                        }
                    } else if (p.getParameterCount() == 0 && p.getReturnType() != void.class
                        && ((n.startsWith("get") && norm(n.substring(3)).equals(key))
                            || (n.startsWith("is") && norm(n.substring(2)).equals(key)))) {
                        m.getter = p;
                    }
                }
                if (m.setter != null) {
                    m.type = m.setter.getGenericParameterTypes()[0];
                }
                ms.add(m);
            }
        }
        // accessor pairs without a backing field of that name
        for (Method p : pub) {
            String n = p.getName();
            if (Modifier.isStatic(p.getModifiers()) || p.getParameterCount() != 1 || !n.startsWith("set") || n.length() == 3
                || p.getDeclaringClass() == Object.class) {
                continue;
            }
            String key = norm(n.substring(3));
            boolean known = false;
            for (Member m : ms) {
                known |= norm(m.name).equals(key);
            }
            if (known) {
                continue;
            }
            Member m = new Member();
            m.name = Character.toLowerCase(n.charAt(3)) + n.substring(4);
            m.setter = p;
            m.type = p.getGenericParameterTypes()[0];
            for (Method g : pub) {
                if (g.getParameterCount() == 0 && g.getName().startsWith("get") && norm(g.getName().substring(3)).equals(key)
                    && g.getDeclaringClass() != Object.class) {
                    m.getter = g;
                }
            }
            ms.add(m);
        }
        memberCache.put(cls, ms);
        return ms;
    }

    static Member findMember(Class<?> cls, String name) {
        String key = norm(name);
        for (Member m : members(cls)) {
            if (norm(m.name).equals(key)) {
                return m;
            }
        }
        return null;
    }

    // ------------------------------------------------------------------ building values

    static final class Cursor {
        final String[] t;
        int i;
        Cursor(String[] t, int i) { this.t = t; this.i = i; }
        String next() throws Unsupported {
            if (i >= t.length) {
                throw new Unsupported("syntax unexpected end of command");
            }
            return t[i++];
        }
        String peek() throws Unsupported {
            if (i >= t.length) {
                throw new Unsupported("syntax unexpected end of command");
            }
            return t[i];
        }
    }

    private static Class<?> raw(Type t) {
        if (t instanceof Class) {
            return (Class<?>) t;
        }
        if (t instanceof ParameterizedType) {
            return raw(((ParameterizedType) t).getRawType());
        }
        if (t instanceof WildcardType) {
            Type[] up = ((WildcardType) t).getUpperBounds();
            return up.length > 0 ? raw(up[0]) : Object.class;
        }
        return Object.class;
    }

    private static Type elementType(Type t) {
        if (t instanceof ParameterizedType) {
            Type[] a = ((ParameterizedType) t).getActualTypeArguments();
            if (a.length == 1) {
                return a[0];
            }
        }
        return Object.class;
    }

    /** where: "Packet.member" for messages. */
    static Object build(Cursor c, Type target, String where) throws Unsupported, Observed {
        String t = c.next();
        Class<?> rt = raw(target);
        if (t.equals("nil")) {
            if (rt.isPrimitive()) {
                throw new Unsupported("badtype " + where + " (nil for a member of type " + rt.getName() + ")");
            }
            return null;
        }
        if (t.equals("[")) {
            if (!(rt.isAssignableFrom(ArrayList.class))) {
                // consume nothing more: the command is abandoned
                throw new Unsupported("badtype " + where + " (list for a member of type " + rt.getName() + ")");
            }
            Type et = elementType(target);
            List<Object> out = new ArrayList<>();
            while (!c.peek().equals("]")) {
                out.add(build(c, et, where));
            }
            c.next();
            return out;
        }
        if (t.startsWith("P:")) {
            return buildObject(c, t.substring(2), rt, where);
        }
        if (t.startsWith("i:")) {
            String[] p = t.split(":");
            long bits = Long.parseUnsignedLong(p[2], 16);
            return integer(bits, p[1], rt, where);
        }
        if (t.startsWith("c:")) {
            return integer(Long.parseLong(t.substring(2)), "u8", rt, where);
        }
        if (t.startsWith("f:")) {
            String[] p = t.split(":");
            long bits = Long.parseUnsignedLong(p[2], 16);
            boolean f32 = p[1].equals("f32");
            if (rt == float.class || rt == Float.class) {
                return f32 ? Float.intBitsToFloat((int) bits) : (float) Double.longBitsToDouble(bits);
            }
            if (rt == double.class || rt == Double.class) {
                return f32 ? (double) Float.intBitsToFloat((int) bits) : Double.longBitsToDouble(bits);
            }
            if (rt.isAssignableFrom(Float.class) && f32) {
                return Float.intBitsToFloat((int) bits);
            }
            if (rt.isAssignableFrom(Double.class) && !f32) {
                return Double.longBitsToDouble(bits);
            }
            throw new Unsupported("badtype " + where + " (" + p[1] + " for a member of type " + rt.getName() + ")");
        }
        if (t.startsWith("s:")) {
            byte[] b = unhex(t.substring(2));
            if (rt == byte[].class) {
                return b;
            }
            if (rt.isAssignableFrom(String.class)) {
                return new String(b, StandardCharsets.UTF_8);
            }
            throw new Unsupported("badtype " + where + " (string for a member of type " + rt.getName() + ")");
        }
        throw new Unsupported("syntax token " + t);
    }

    /** Truncate / sign-reinterpret the bit pattern to the member's Java type. */
    private static Object integer(long bits, String typ, Class<?> rt, String where) throws Unsupported {
        if (rt == byte.class || rt == Byte.class) {
            return (byte) bits;
        }
        if (rt == short.class || rt == Short.class) {
            return (short) bits;
        }
        if (rt == int.class || rt == Integer.class) {
            return (int) bits;
        }
        if (rt == long.class || rt == Long.class) {
            return widen(bits, typ);
        }
        if (rt == char.class || rt == Character.class) {
            return (char) bits;
        }
        if (rt == boolean.class || rt == Boolean.class) {
            return bits != 0;
        }
        if (rt == float.class || rt == Float.class) {
            return (float) widen(bits, typ);
        }
        if (rt == double.class || rt == Double.class) {
            return (double) widen(bits, typ);
        }
        if (rt.isAssignableFrom(Long.class) || rt.isAssignableFrom(Byte.class)) {
            // untyped slot (Object / Number): the Java type the emitter uses for that width
            switch (typ.substring(1)) {
                case "8":
                    if (rt.isAssignableFrom(Byte.class)) {
                        return (byte) bits;
                    }
                    break;
                case "16":
                    if (rt.isAssignableFrom(Short.class)) {
                        return (short) bits;
                    }
                    break;
                case "32":
                    if (rt.isAssignableFrom(Integer.class)) {
                        return (int) bits;
                    }
                    break;
                default:
                    if (rt.isAssignableFrom(Long.class)) {
                        return bits;
                    }
            }
        }
        throw new Unsupported("badtype " + where + " (" + typ + " for a member of type " + rt.getName() + ")");
    }

    /** A wider member than the declared width: the value of the pattern at its declared width and signedness. */
    private static long widen(long bits, String typ) {
        int w;
        try {
            w = Integer.parseInt(typ.substring(1));
        } catch (NumberFormatException e) {
            return bits;
        }
        if (w >= 64) {
            return bits;
        }
        long mask = (1L << w) - 1;
        bits &= mask;
        if (typ.charAt(0) == 'i' && (bits & (1L << (w - 1))) != 0) {
            bits |= ~mask;
        }
        return bits;
    }

    static Object newInstance(Class<?> cls) throws Observed, Unsupported {
        Constructor<?> k;
        try {
            k = cls.getDeclaredConstructor();
            k.setAccessible(true);
        } catch (NoSuchMethodException | RuntimeException e) {
            throw new Unsupported("noctor " + cls.getSimpleName());
        }
        try {
            return k.newInstance();
        } catch (InvocationTargetException e) {
            throw new Observed(e.getCause());
        } catch (Throwable e) {
            throw new Observed(e);
        }
    }

    private static Object buildObject(Cursor c, String name, Class<?> declared, String where) throws Unsupported, Observed {
        Class<?> cls = resolve(name, declared == Object.class ? null : declared);
        if (!declared.isAssignableFrom(cls)) {
            throw new Unsupported("badtype " + where + " (object " + name + " for a member of type " + declared.getName() + ")");
        }
        Object obj = newInstance(cls);
        if (!c.next().equals("{")) {
            throw new Unsupported("syntax expected {");
        }
        while (!c.peek().equals("}")) {
            String fname = c.next();
            if (!c.next().equals("=")) {
                throw new Unsupported("syntax expected =");
            }
            Member m = findMember(cls, fname);
            if (m == null) {
                throw new Unsupported("nomember " + name + "." + fname);
            }
            Object v = build(c, m.type, name + "." + fname);
            store(obj, m, v, name + "." + fname);
        }
        c.next();
        return obj;
    }

    private static void store(Object obj, Member m, Object v, String where) throws Unsupported, Observed {
        try {
            if (m.setter != null) {
                m.setter.invoke(obj, v);
            } else {
                m.field.set(obj, v);
            }
        } catch (InvocationTargetException e) {
            throw new Observed(e.getCause());
        } catch (IllegalArgumentException | IllegalAccessException e) {
            throw new Unsupported("badtype " + where + " (" + e.getMessage() + ")");
        }
    }

    // ------------------------------------------------------------------ dumping values

    private static final char[] HEX = "0123456789abcdef".toCharArray();

    static void hex(StringBuilder b, byte[] a, int n) {
        for (int i = 0; i < n; i++) {
            b.append(HEX[(a[i] >> 4) & 0xF]).append(HEX[a[i] & 0xF]);
        }
    }

    static byte[] unhex(String s) throws Unsupported {
        if ((s.length() & 1) != 0) {
            throw new Unsupported("syntax odd hex");
        }
        byte[] b = new byte[s.length() / 2];
        for (int i = 0; i < b.length; i++) {
            int hi = Character.digit(s.charAt(2 * i), 16);
            int lo = Character.digit(s.charAt(2 * i + 1), 16);
            if (hi < 0 || lo < 0) {
                throw new Unsupported("syntax bad hex");
            }
            b[i] = (byte) (hi << 4 | lo);
        }
        return b;
    }

    static void dump(StringBuilder b, Object v, int depth) throws Observed {
        if (depth > 2000) {
            throw new Observed(new IllegalStateException("object graph deeper than 2000 (cyclic?)"));
        }
        if (v == null) {
            b.append("nil");
        } else if (v instanceof Byte || v instanceof Short || v instanceof Integer || v instanceof Long) {
            b.append("i:").append(((Number) v).longValue());
        } else if (v instanceof Float) {
            b.append("f:").append(Long.toHexString(Double.doubleToRawLongBits((double) (Float) v)));
        } else if (v instanceof Double) {
            b.append("f:").append(Long.toHexString(Double.doubleToRawLongBits((Double) v)));
        } else if (v instanceof Number) {
            b.append("i:").append(v.toString());
        } else if (v instanceof Character) {
            b.append("c:").append((int) (Character) v);
        } else if (v instanceof Boolean) {
            b.append("i:").append((Boolean) v ? 1 : 0);
        } else if (v instanceof CharSequence) {
            byte[] a = v.toString().getBytes(StandardCharsets.UTF_8);
            b.append("s:");
            hex(b, a, a.length);
        } else if (v instanceof byte[]) {
            b.append("s:");
            hex(b, (byte[]) v, ((byte[]) v).length);
        } else if (v instanceof Collection) {
            b.append("[");
            for (Object x : (Collection<?>) v) {
                b.append(' ');
                dump(b, x, depth + 1);
            }
            b.append(" ]");
        } else if (v.getClass().isArray()) {
            b.append("[");
            int n = java.lang.reflect.Array.getLength(v);
            for (int i = 0; i < n; i++) {
                b.append(' ');
                dump(b, java.lang.reflect.Array.get(v, i), depth + 1);
            }
            b.append(" ]");
        } else if (v instanceof Enum) {
            byte[] a = ((Enum<?>) v).name().getBytes(StandardCharsets.UTF_8);
            b.append("s:");
            hex(b, a, a.length);
        } else {
            Class<?> cls = v.getClass();
            String sn = cls.getSimpleName();
            b.append("P:").append(sn.isEmpty() ? cls.getName() : sn).append(" {");
            for (Member m : members(cls)) {
                Object x;
                try {
                    if (m.getter != null) {
                        x = m.getter.invoke(v);
                    } else if (m.field != null) {
                        x = m.field.get(v);
                    } else {
                        continue;
                    }
                } catch (InvocationTargetException e) {
                    throw new Observed(e.getCause());
                } catch (IllegalAccessException | RuntimeException e) {
                    continue; // not observable from outside the class
                }
                b.append(' ').append(m.name).append(" = ");
                dump(b, x, depth + 1);
            }
            b.append(" }");
        }
    }

    // ------------------------------------------------------------------ encode / decode through the emitted code

    private static void call(Object obj, String method, ByteBuf buf) throws Observed {
        try {
            if (obj instanceof com.finproto.codec.BinaryCodec) {
                if (method.equals("encode")) {
                    ((com.finproto.codec.BinaryCodec) obj).encode(buf);
                } else {
                    ((com.finproto.codec.BinaryCodec) obj).decode(buf);
                }
                return;
            }
            Method m = obj.getClass().getMethod(method, ByteBuf.class);
            m.setAccessible(true);
            m.invoke(obj, buf);
        } catch (InvocationTargetException e) {
            throw new Observed(e.getCause());
        } catch (Throwable e) {
            throw new Observed(e);
        }
    }

    private static void written(StringBuilder b, ByteBuf buf) {
        int n = buf.writerIndex();
        byte[] a = new byte[n];
        buf.getBytes(0, a);
        hex(b, a, n);
    }

    static String oneline(String s) {
        StringBuilder b = new StringBuilder();
        boolean sp = false;
        for (int i = 0; i < s.length() && b.length() < 300; i++) {
            char ch = s.charAt(i);
            if (Character.isWhitespace(ch) || Character.isISOControl(ch)) {
                sp = b.length() > 0;
            } else {
                if (sp) {
                    b.append(' ');
                }
                sp = false;
                b.append(ch);
            }
        }
        return b.toString();
    }

    static String describe(Throwable t) {
        if (t == null) {
            return "null";
        }
        String m = t.getMessage();
        return oneline(t.getClass().getName() + (m == null ? "" : ": " + m));
    }

    private static volatile byte[] pre;  // one-shot prefix of the next ENC's output buffer
    private static volatile int skip;    // one-shot number of input bytes read before the next DEC

    /** Executes one command line; returns the answer (one or two lines, each newline-terminated). */
    static String handle(String[] toks) {
        String cmd = toks[0];
        String id = toks.length > 1 ? toks[1] : "?";
        StringBuilder out = new StringBuilder();
        try {
            if (cmd.equals("UNREG") || cmd.equals("REG")) {
                // the application changes the checksum registry between messages
                if (toks.length > 2) {
                    if (cmd.equals("REG")) {
                        com.finproto.codec.ChecksumServiceFactory.getInstance().restore(toks[2]);
                    } else {
                        com.finproto.codec.ChecksumServiceFactory.getInstance().remove(toks[2]);
                    }
                }
                out.append("OK ").append(id).append('\n');
            } else if (cmd.equals("PRE")) {
                // one-shot: the next ENC finds these bytes already in the output buffer
                pre = unhex(toks.length > 2 ? toks[2] : "");
                out.append("OK ").append(id).append('\n');
            } else if (cmd.equals("SKIP")) {
                // one-shot: the next DEC starts after this many bytes of its input have been read
                skip = toks.length > 2 ? Integer.parseInt(toks[2]) : 0;
                out.append("OK ").append(id).append('\n');
            } else if (cmd.equals("ENC") || cmd.equals("ENCX")) {
                Object obj = build(new Cursor(toks, 2), Object.class, "?");
                if (obj == null) {
                    throw new Unsupported("syntax nil root");
                }
                ByteBuf buf = Unpooled.buffer();
                if (pre != null && pre.length > 0) {
                    buf.writeBytes(pre);
                }
                pre = null;
                call(obj, "encode", buf);
                if (cmd.equals("ENCX")) {
                    // the same object encoded a second time, into a fresh buffer
                    buf = Unpooled.buffer();
                    call(obj, "encode", buf);
                }
                out.append("ENC ").append(id).append(' ');
                written(out, buf);
                out.append('\n');
            } else if (cmd.equals("DECX")) {
                // the same object decodes two messages one after the other; the answer describes the second decode
                if (toks.length < 5) {
                    throw new Unsupported("syntax DECX <packet> <hex> <hex>");
                }
                Class<?> cls = resolve(toks[2], null);
                Object obj = newInstance(cls);
                try {
                    call(obj, "decode", Unpooled.wrappedBuffer(unhex(toks[3])));
                } catch (Observed e) {
                    return "ERR " + id + " inapplicable first decode failed: " + describe(e.getCause()) + "\n";
                }
                ByteBuf buf = Unpooled.wrappedBuffer(unhex(toks[4]));
                call(obj, "decode", buf);
                out.append("DEC ").append(id).append(' ').append(buf.readerIndex()).append(' ');
                dump(out, obj, 0);
                out.append('\n');
            } else if (cmd.equals("DEC")) {
                if (toks.length < 3) {
                    throw new Unsupported("syntax DEC without packet");
                }
                Class<?> cls = resolve(toks[2], null);
                byte[] data = unhex(toks.length > 3 ? toks[3] : "");
                ByteBuf buf = Unpooled.wrappedBuffer(data);
                if (skip > 0) {
                    buf.skipBytes(skip);
                }
                skip = 0;
                Object obj = newInstance(cls);
                call(obj, "decode", buf);
                int pos = buf.readerIndex();
                out.append("DEC ").append(id).append(' ').append(pos).append(' ');
                dump(out, obj, 0);
                out.append('\n');
                try {
                    ByteBuf again = Unpooled.buffer();
                    call(obj, "encode", again);
                    StringBuilder r = new StringBuilder();
                    r.append("REENC ").append(id).append(' ');
                    written(r, again);
                    out.append(r).append('\n');
                } catch (Observed e) {
                    out.append("REENCERR ").append(id).append(' ').append(describe(e.getCause())).append('\n');
                } catch (Throwable e) {
                    out.append("REENCERR ").append(id).append(' ').append(describe(e)).append('\n');
                }
            } else {
                return "ERR " + id + " unsupported syntax command " + cmd + "\n";
            }
            return out.toString();
        } catch (Unsupported u) {
            return "ERR " + id + " unsupported " + oneline(u.getMessage()) + "\n";
        } catch (Observed e) {
            return "ERR " + id + " error " + describe(e.getCause()) + "\n";
        } catch (Throwable t) {
            // StackOverflowError / OutOfMemoryError raised while the emitted code ran, or a driver fault: say which
            return "ERR " + id + " error " + describe(t) + "\n";
        }
    }

    private static ExecutorService newWorker() {
        return Executors.newSingleThreadExecutor(r -> {
            Thread t = new Thread(null, r, "verif-worker", 64L << 20);
            t.setDaemon(true);
            return t;
        });
    }

    public static void main(String[] args) throws Exception {
        PrintStream real = new PrintStream(new java.io.FileOutputStream(java.io.FileDescriptor.out), false, "UTF-8");
        System.setOut(System.err); // whatever the observed code prints must not corrupt the protocol
        if (args.length < 1) {
            System.err.println("usage: verif.Driver <java package>");
            Runtime.getRuntime().halt(2);
        }
        pkg = args[0];
        loader = Driver.class.getClassLoader();
        indexClasses();
        long cmdTimeoutMs = Long.getLong("verif.cmdTimeoutMs", 20000L);
        int abandoned = 0;
        ExecutorService worker = newWorker();
        BufferedReader in = new BufferedReader(new InputStreamReader(System.in, StandardCharsets.UTF_8), 1 << 16);
        String line;
        while ((line = in.readLine()) != null) {
            line = line.trim();
            if (line.isEmpty()) {
                continue;
            }
            final String[] toks = line.split(" +");
            if (toks[0].equals("END")) {
                break;
            }
            String answer;
            Future<String> f = worker.submit(() -> handle(toks));
            try {
                answer = f.get(cmdTimeoutMs, TimeUnit.MILLISECONDS);
            } catch (TimeoutException e) {
                f.cancel(true);
                worker.shutdownNow();
                abandoned++;
                answer = "ERR " + (toks.length > 1 ? toks[1] : "?") + " error timeout: no result within " + cmdTimeoutMs + " ms\n";
                worker = newWorker();
            } catch (Throwable e) {
                Throwable c = e.getCause() != null ? e.getCause() : e;
                answer = "ERR " + (toks.length > 1 ? toks[1] : "?") + " error " + describe(c) + "\n";
            }
            real.print(answer);
            real.flush();
            if (abandoned >= 3) {
                break; // three threads are spinning in the observed code: leave the rest unanswered
            }
        }
        real.flush();
        Runtime.getRuntime().halt(0);
    }
}
