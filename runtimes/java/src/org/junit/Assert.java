package org.junit;

import java.util.Arrays;

/** Stand-in for JUnit 4's org.junit.Assert with the same overload set and the same equality rules. */
public class Assert {
    protected Assert() {}

    public static void fail() { fail(null); }

    public static void fail(String message) {
        if (message == null) {
            throw new AssertionError();
        }
        throw new AssertionError(message);
    }

    public static void assertTrue(String message, boolean condition) {
        if (!condition) {
            fail(message);
        }
    }

    public static void assertTrue(boolean condition) { assertTrue(null, condition); }

    public static void assertFalse(String message, boolean condition) { assertTrue(message, !condition); }

    public static void assertFalse(boolean condition) { assertFalse(null, condition); }

    private static boolean isEquals(Object expected, Object actual) {
        return expected == null ? actual == null : expected.equals(actual);
    }

    private static String format(String message, Object expected, Object actual) {
        String m = message != null && !message.isEmpty() ? message + " " : "";
        String e = String.valueOf(expected);
        String a = String.valueOf(actual);
        if (e.equals(a)) {
            return m + "expected: " + cls(expected, e) + " but was: " + cls(actual, a);
        }
        return m + "expected:<" + e + "> but was:<" + a + ">";
    }

    private static String cls(Object o, String s) {
        return (o == null ? "null" : o.getClass().getName()) + "<" + s + ">";
    }

    public static void assertEquals(String message, Object expected, Object actual) {
        if (isEquals(expected, actual)) {
            return;
        }
        fail(format(message, expected, actual));
    }

    public static void assertEquals(Object expected, Object actual) { assertEquals(null, expected, actual); }

    public static void assertNotEquals(String message, Object unexpected, Object actual) {
        if (isEquals(unexpected, actual)) {
            fail((message != null ? message + ". " : "") + "Actual: " + actual);
        }
    }

    public static void assertNotEquals(Object unexpected, Object actual) { assertNotEquals(null, unexpected, actual); }

    public static void assertEquals(String message, long expected, long actual) {
        if (expected != actual) {
            fail(format(message, Long.valueOf(expected), Long.valueOf(actual)));
        }
    }

    public static void assertEquals(long expected, long actual) { assertEquals(null, expected, actual); }

    public static void assertNotEquals(String message, long unexpected, long actual) {
        if (unexpected == actual) {
            fail((message != null ? message + ". " : "") + "Actual: " + actual);
        }
    }

    public static void assertNotEquals(long unexpected, long actual) { assertNotEquals(null, unexpected, actual); }

    private static boolean doubleIsDifferent(double d1, double d2, double delta) {
        if (Double.compare(d1, d2) == 0) {
            return false;
        }
        return !(Math.abs(d1 - d2) <= delta);
    }

    private static boolean floatIsDifferent(float f1, float f2, float delta) {
        if (Float.compare(f1, f2) == 0) {
            return false;
        }
        return !(Math.abs(f1 - f2) <= delta);
    }

    public static void assertEquals(String message, double expected, double actual, double delta) {
        if (doubleIsDifferent(expected, actual, delta)) {
            fail(format(message, Double.valueOf(expected), Double.valueOf(actual)));
        }
    }

    public static void assertEquals(double expected, double actual, double delta) {
        assertEquals(null, expected, actual, delta);
    }

    public static void assertEquals(String message, float expected, float actual, float delta) {
        if (floatIsDifferent(expected, actual, delta)) {
            fail(format(message, Float.valueOf(expected), Float.valueOf(actual)));
        }
    }

    public static void assertEquals(float expected, float actual, float delta) {
        assertEquals(null, expected, actual, delta);
    }

    public static void assertNotEquals(String message, double unexpected, double actual, double delta) {
        if (!doubleIsDifferent(unexpected, actual, delta)) {
            fail((message != null ? message + ". " : "") + "Actual: " + actual);
        }
    }

    public static void assertNotEquals(double unexpected, double actual, double delta) {
        assertNotEquals(null, unexpected, actual, delta);
    }

    public static void assertNotEquals(String message, float unexpected, float actual, float delta) {
        if (!floatIsDifferent(unexpected, actual, delta)) {
            fail((message != null ? message + ". " : "") + "Actual: " + actual);
        }
    }

    public static void assertNotEquals(float unexpected, float actual, float delta) {
        assertNotEquals(null, unexpected, actual, delta);
    }

    /** JUnit 4: always fails, use the delta overload. */
    @Deprecated
    public static void assertEquals(double expected, double actual) { assertEquals(null, expected, actual); }

    @Deprecated
    public static void assertEquals(String message, double expected, double actual) {
        fail("Use assertEquals(expected, actual, delta) to compare floating-point numbers");
    }

    @Deprecated
    public static void assertEquals(String message, Object[] expecteds, Object[] actuals) {
        assertArrayEquals(message, expecteds, actuals);
    }

    @Deprecated
    public static void assertEquals(Object[] expecteds, Object[] actuals) { assertArrayEquals(expecteds, actuals); }

    public static void assertNotNull(String message, Object object) { assertTrue(message, object != null); }

    public static void assertNotNull(Object object) { assertNotNull(null, object); }

    public static void assertNull(String message, Object object) {
        if (object != null) {
            fail((message != null ? message + " " : "") + "expected null, but was:<" + object + ">");
        }
    }

    public static void assertNull(Object object) { assertNull(null, object); }

    public static void assertSame(String message, Object expected, Object actual) {
        if (expected != actual) {
            fail((message != null ? message + " " : "") + "expected same:<" + expected + "> was not:<" + actual + ">");
        }
    }

    public static void assertSame(Object expected, Object actual) { assertSame(null, expected, actual); }

    public static void assertNotSame(String message, Object unexpected, Object actual) {
        if (unexpected == actual) {
            fail((message != null ? message + " " : "") + "expected not same");
        }
    }

    public static void assertNotSame(Object unexpected, Object actual) { assertNotSame(null, unexpected, actual); }

    private static void arrays(String message, boolean equal, String e, String a) {
        if (!equal) {
            fail((message != null && !message.isEmpty() ? message + ": " : "") + "arrays differ: expected:<" + e + "> but was:<" + a + ">");
        }
    }

    public static void assertArrayEquals(String message, Object[] expecteds, Object[] actuals) {
        arrays(message, Arrays.deepEquals(expecteds, actuals), Arrays.deepToString(expecteds), Arrays.deepToString(actuals));
    }

    public static void assertArrayEquals(Object[] expecteds, Object[] actuals) { assertArrayEquals(null, expecteds, actuals); }

    public static void assertArrayEquals(String message, boolean[] expecteds, boolean[] actuals) {
        arrays(message, Arrays.equals(expecteds, actuals), Arrays.toString(expecteds), Arrays.toString(actuals));
    }

    public static void assertArrayEquals(boolean[] expecteds, boolean[] actuals) { assertArrayEquals(null, expecteds, actuals); }

    public static void assertArrayEquals(String message, byte[] expecteds, byte[] actuals) {
        arrays(message, Arrays.equals(expecteds, actuals), Arrays.toString(expecteds), Arrays.toString(actuals));
    }

    public static void assertArrayEquals(byte[] expecteds, byte[] actuals) { assertArrayEquals(null, expecteds, actuals); }

    public static void assertArrayEquals(String message, char[] expecteds, char[] actuals) {
        arrays(message, Arrays.equals(expecteds, actuals), Arrays.toString(expecteds), Arrays.toString(actuals));
    }

    public static void assertArrayEquals(char[] expecteds, char[] actuals) { assertArrayEquals(null, expecteds, actuals); }

    public static void assertArrayEquals(String message, short[] expecteds, short[] actuals) {
        arrays(message, Arrays.equals(expecteds, actuals), Arrays.toString(expecteds), Arrays.toString(actuals));
    }

    public static void assertArrayEquals(short[] expecteds, short[] actuals) { assertArrayEquals(null, expecteds, actuals); }

    public static void assertArrayEquals(String message, int[] expecteds, int[] actuals) {
        arrays(message, Arrays.equals(expecteds, actuals), Arrays.toString(expecteds), Arrays.toString(actuals));
    }

    public static void assertArrayEquals(int[] expecteds, int[] actuals) { assertArrayEquals(null, expecteds, actuals); }

    public static void assertArrayEquals(String message, long[] expecteds, long[] actuals) {
        arrays(message, Arrays.equals(expecteds, actuals), Arrays.toString(expecteds), Arrays.toString(actuals));
    }

    public static void assertArrayEquals(long[] expecteds, long[] actuals) { assertArrayEquals(null, expecteds, actuals); }

    public static void assertArrayEquals(String message, double[] expecteds, double[] actuals, double delta) {
        boolean eq = expecteds == actuals || (expecteds != null && actuals != null && expecteds.length == actuals.length);
        if (eq && expecteds != null) {
            for (int i = 0; i < expecteds.length; i++) {
                eq &= !doubleIsDifferent(expecteds[i], actuals[i], delta);
            }
        }
        arrays(message, eq, Arrays.toString(expecteds), Arrays.toString(actuals));
    }

    public static void assertArrayEquals(double[] expecteds, double[] actuals, double delta) {
        assertArrayEquals(null, expecteds, actuals, delta);
    }

    public static void assertArrayEquals(String message, float[] expecteds, float[] actuals, float delta) {
        boolean eq = expecteds == actuals || (expecteds != null && actuals != null && expecteds.length == actuals.length);
        if (eq && expecteds != null) {
            for (int i = 0; i < expecteds.length; i++) {
                eq &= !floatIsDifferent(expecteds[i], actuals[i], delta);
            }
        }
        arrays(message, eq, Arrays.toString(expecteds), Arrays.toString(actuals));
    }

    public static void assertArrayEquals(float[] expecteds, float[] actuals, float delta) {
        assertArrayEquals(null, expecteds, actuals, delta);
    }
}
