package io.netty.buffer;

import java.nio.charset.Charset;

/**
 * Minimal stand-in for netty's ByteBuf (heap, big-endian) with netty's semantics for the methods the
 * emitted code calls: reads are checked against writerIndex, set/get against capacity, writes grow the
 * buffer up to maxCapacity. Out-of-range accesses throw IndexOutOfBoundsException, as in netty.
 */
public abstract class ByteBuf {
    private byte[] a;
    private int r;
    private int w;
    private final int maxCapacity;

    ByteBuf(byte[] initial, int writerIndex, int maxCapacity) {
        this.a = initial;
        this.w = writerIndex;
        this.maxCapacity = maxCapacity;
    }

    // ---- indices ----
    public int capacity() { return a.length; }
    public int maxCapacity() { return maxCapacity; }
    public int readerIndex() { return r; }
    public int writerIndex() { return w; }
    public int readableBytes() { return w - r; }
    public int writableBytes() { return a.length - w; }
    public int maxWritableBytes() { return maxCapacity - w; }
    public boolean isReadable() { return w > r; }
    public boolean isReadable(int n) { return w - r >= n; }
    public boolean isWritable() { return a.length > w; }
    public boolean hasArray() { return true; }
    public byte[] array() { return a; }
    public int arrayOffset() { return 0; }

    public ByteBuf readerIndex(int readerIndex) {
        if (readerIndex < 0 || readerIndex > w) {
            throw new IndexOutOfBoundsException(String.format(
                "readerIndex: %d (expected: 0 <= readerIndex <= writerIndex(%d))", readerIndex, w));
        }
        r = readerIndex;
        return this;
    }

    public ByteBuf writerIndex(int writerIndex) {
        if (writerIndex < r || writerIndex > a.length) {
            throw new IndexOutOfBoundsException(String.format(
                "writerIndex: %d (expected: readerIndex(%d) <= writerIndex <= capacity(%d))", writerIndex, r, a.length));
        }
        w = writerIndex;
        return this;
    }

    public ByteBuf clear() { r = 0; w = 0; return this; }

    public ByteBuf skipBytes(int n) { checkReadable(n); r += n; return this; }

    private void checkReadable(int n) {
        if (n < 0) {
            throw new IllegalArgumentException("minimumReadableBytes : " + n + " (expected: >= 0)");
        }
        if (r > w - n) {
            throw new IndexOutOfBoundsException(String.format(
                "readerIndex(%d) + length(%d) exceeds writerIndex(%d): %s", r, n, w, this));
        }
    }

    private void checkIndex(int index, int n) {
        if (n < 0 || index < 0 || index > a.length - n) {
            throw new IndexOutOfBoundsException(String.format(
                "index: %d, length: %d (expected: range(0, %d))", index, n, a.length));
        }
    }

    public ByteBuf ensureWritable(int n) {
        if (n < 0) {
            throw new IllegalArgumentException("minWritableBytes : " + n + " (expected: >= 0)");
        }
        if (n <= a.length - w) {
            return this;
        }
        if (n > maxCapacity - w) {
            throw new IndexOutOfBoundsException(String.format(
                "writerIndex(%d) + minWritableBytes(%d) exceeds maxCapacity(%d): %s", w, n, maxCapacity, this));
        }
        long need = (long) w + n;
        long cap = 64;
        while (cap < need) {
            cap <<= 1;
        }
        if (cap > maxCapacity) {
            cap = maxCapacity;
        }
        byte[] b = new byte[(int) cap];
        System.arraycopy(a, 0, b, 0, w);
        a = b;
        return this;
    }

    // ---- absolute get ----
    public byte getByte(int i) { checkIndex(i, 1); return a[i]; }
    public boolean getBoolean(int i) { return getByte(i) != 0; }
    public short getUnsignedByte(int i) { return (short) (getByte(i) & 0xFF); }
    public short getShort(int i) { checkIndex(i, 2); return (short) (a[i] << 8 | a[i + 1] & 0xFF); }
    public short getShortLE(int i) { checkIndex(i, 2); return (short) (a[i] & 0xFF | a[i + 1] << 8); }
    public int getUnsignedShort(int i) { return getShort(i) & 0xFFFF; }
    public int getUnsignedShortLE(int i) { return getShortLE(i) & 0xFFFF; }
    public int getInt(int i) {
        checkIndex(i, 4);
        return (a[i] & 0xFF) << 24 | (a[i + 1] & 0xFF) << 16 | (a[i + 2] & 0xFF) << 8 | a[i + 3] & 0xFF;
    }
    public int getIntLE(int i) {
        checkIndex(i, 4);
        return a[i] & 0xFF | (a[i + 1] & 0xFF) << 8 | (a[i + 2] & 0xFF) << 16 | (a[i + 3] & 0xFF) << 24;
    }
    public long getUnsignedInt(int i) { return getInt(i) & 0xFFFFFFFFL; }
    public long getUnsignedIntLE(int i) { return getIntLE(i) & 0xFFFFFFFFL; }
    public long getLong(int i) {
        checkIndex(i, 8);
        return (getInt(i) & 0xFFFFFFFFL) << 32 | getInt(i + 4) & 0xFFFFFFFFL;
    }
    public long getLongLE(int i) {
        checkIndex(i, 8);
        return getIntLE(i) & 0xFFFFFFFFL | (getIntLE(i + 4) & 0xFFFFFFFFL) << 32;
    }
    public char getChar(int i) { return (char) getShort(i); }
    public float getFloat(int i) { return Float.intBitsToFloat(getInt(i)); }
    public float getFloatLE(int i) { return Float.intBitsToFloat(getIntLE(i)); }
    public double getDouble(int i) { return Double.longBitsToDouble(getLong(i)); }
    public double getDoubleLE(int i) { return Double.longBitsToDouble(getLongLE(i)); }
    public ByteBuf getBytes(int i, byte[] dst) { return getBytes(i, dst, 0, dst.length); }
    public ByteBuf getBytes(int i, byte[] dst, int dstIndex, int length) {
        checkIndex(i, length);
        if (dstIndex < 0 || dstIndex > dst.length - length) {
            throw new IndexOutOfBoundsException(String.format(
                "dstIndex: %d, length: %d (expected: range(0, %d))", dstIndex, length, dst.length));
        }
        System.arraycopy(a, i, dst, dstIndex, length);
        return this;
    }

    // ---- absolute set ----
    public ByteBuf setByte(int i, int v) { checkIndex(i, 1); a[i] = (byte) v; return this; }
    public ByteBuf setBoolean(int i, boolean v) { return setByte(i, v ? 1 : 0); }
    public ByteBuf setShort(int i, int v) {
        checkIndex(i, 2);
        a[i] = (byte) (v >>> 8);
        a[i + 1] = (byte) v;
        return this;
    }
    public ByteBuf setShortLE(int i, int v) {
        checkIndex(i, 2);
        a[i] = (byte) v;
        a[i + 1] = (byte) (v >>> 8);
        return this;
    }
    public ByteBuf setChar(int i, int v) { return setShort(i, v); }
    public ByteBuf setInt(int i, int v) {
        checkIndex(i, 4);
        a[i] = (byte) (v >>> 24);
        a[i + 1] = (byte) (v >>> 16);
        a[i + 2] = (byte) (v >>> 8);
        a[i + 3] = (byte) v;
        return this;
    }
    public ByteBuf setIntLE(int i, int v) {
        checkIndex(i, 4);
        a[i] = (byte) v;
        a[i + 1] = (byte) (v >>> 8);
        a[i + 2] = (byte) (v >>> 16);
        a[i + 3] = (byte) (v >>> 24);
        return this;
    }
    public ByteBuf setLong(int i, long v) {
        checkIndex(i, 8);
        setInt(i, (int) (v >>> 32));
        setInt(i + 4, (int) v);
        return this;
    }
    public ByteBuf setLongLE(int i, long v) {
        checkIndex(i, 8);
        setIntLE(i, (int) v);
        setIntLE(i + 4, (int) (v >>> 32));
        return this;
    }
    public ByteBuf setFloat(int i, float v) { return setInt(i, Float.floatToRawIntBits(v)); }
    public ByteBuf setFloatLE(int i, float v) { return setIntLE(i, Float.floatToRawIntBits(v)); }
    public ByteBuf setDouble(int i, double v) { return setLong(i, Double.doubleToRawLongBits(v)); }
    public ByteBuf setDoubleLE(int i, double v) { return setLongLE(i, Double.doubleToRawLongBits(v)); }
    public ByteBuf setBytes(int i, byte[] src) { return setBytes(i, src, 0, src.length); }
    public ByteBuf setBytes(int i, byte[] src, int srcIndex, int length) {
        checkIndex(i, length);
        if (srcIndex < 0 || srcIndex > src.length - length) {
            throw new IndexOutOfBoundsException(String.format(
                "srcIndex: %d, length: %d (expected: range(0, %d))", srcIndex, length, src.length));
        }
        System.arraycopy(src, srcIndex, a, i, length);
        return this;
    }
    public ByteBuf setZero(int i, int length) {
        checkIndex(i, length);
        java.util.Arrays.fill(a, i, i + length, (byte) 0);
        return this;
    }

    // ---- relative read ----
    public byte readByte() { checkReadable(1); return a[r++]; }
    public boolean readBoolean() { return readByte() != 0; }
    public short readUnsignedByte() { return (short) (readByte() & 0xFF); }
    public short readShort() { checkReadable(2); short v = getShort(r); r += 2; return v; }
    public short readShortLE() { checkReadable(2); short v = getShortLE(r); r += 2; return v; }
    public int readUnsignedShort() { return readShort() & 0xFFFF; }
    public int readUnsignedShortLE() { return readShortLE() & 0xFFFF; }
    public char readChar() { return (char) readShort(); }
    public int readInt() { checkReadable(4); int v = getInt(r); r += 4; return v; }
    public int readIntLE() { checkReadable(4); int v = getIntLE(r); r += 4; return v; }
    public long readUnsignedInt() { return readInt() & 0xFFFFFFFFL; }
    public long readUnsignedIntLE() { return readIntLE() & 0xFFFFFFFFL; }
    public long readLong() { checkReadable(8); long v = getLong(r); r += 8; return v; }
    public long readLongLE() { checkReadable(8); long v = getLongLE(r); r += 8; return v; }
    public float readFloat() { return Float.intBitsToFloat(readInt()); }
    public float readFloatLE() { return Float.intBitsToFloat(readIntLE()); }
    public double readDouble() { return Double.longBitsToDouble(readLong()); }
    public double readDoubleLE() { return Double.longBitsToDouble(readLongLE()); }
    public ByteBuf readBytes(byte[] dst) { return readBytes(dst, 0, dst.length); }
    public ByteBuf readBytes(byte[] dst, int dstIndex, int length) {
        checkReadable(length);
        getBytes(r, dst, dstIndex, length);
        r += length;
        return this;
    }
    public ByteBuf readBytes(int length) {
        checkReadable(length);
        byte[] b = new byte[length];
        System.arraycopy(a, r, b, 0, length);
        r += length;
        return Unpooled.wrappedBuffer(b);
    }
    public CharSequence readCharSequence(int length, Charset charset) {
        checkReadable(length);
        String s = length == 0 ? "" : new String(a, r, length, charset);
        r += length;
        return s;
    }
    public CharSequence getCharSequence(int index, int length, Charset charset) {
        checkIndex(index, length);
        return length == 0 ? "" : new String(a, index, length, charset);
    }

    // ---- relative write ----
    public ByteBuf writeByte(int v) { ensureWritable(1); a[w++] = (byte) v; return this; }
    public ByteBuf writeBoolean(boolean v) { return writeByte(v ? 1 : 0); }
    public ByteBuf writeShort(int v) { ensureWritable(2); setShort(w, v); w += 2; return this; }
    public ByteBuf writeShortLE(int v) { ensureWritable(2); setShortLE(w, v); w += 2; return this; }
    public ByteBuf writeChar(int v) { return writeShort(v); }
    public ByteBuf writeInt(int v) { ensureWritable(4); setInt(w, v); w += 4; return this; }
    public ByteBuf writeIntLE(int v) { ensureWritable(4); setIntLE(w, v); w += 4; return this; }
    public ByteBuf writeLong(long v) { ensureWritable(8); setLong(w, v); w += 8; return this; }
    public ByteBuf writeLongLE(long v) { ensureWritable(8); setLongLE(w, v); w += 8; return this; }
    public ByteBuf writeFloat(float v) { return writeInt(Float.floatToRawIntBits(v)); }
    public ByteBuf writeFloatLE(float v) { return writeIntLE(Float.floatToRawIntBits(v)); }
    public ByteBuf writeDouble(double v) { return writeLong(Double.doubleToRawLongBits(v)); }
    public ByteBuf writeDoubleLE(double v) { return writeLongLE(Double.doubleToRawLongBits(v)); }
    public ByteBuf writeBytes(byte[] src) { return writeBytes(src, 0, src.length); }
    public ByteBuf writeBytes(byte[] src, int srcIndex, int length) {
        ensureWritable(length);
        setBytes(w, src, srcIndex, length);
        w += length;
        return this;
    }
    public ByteBuf writeBytes(ByteBuf src) {
        int n = src.readableBytes();
        ensureWritable(n);
        src.readBytes(a, w, n);
        w += n;
        return this;
    }
    public ByteBuf writeZero(int length) {
        ensureWritable(length);
        setZero(w, length);
        w += length;
        return this;
    }
    public int writeCharSequence(CharSequence s, Charset charset) {
        byte[] b = s.toString().getBytes(charset);
        writeBytes(b);
        return b.length;
    }

    // ---- misc ----
    public String toString(Charset charset) { return new String(a, r, w - r, charset); }
    public String toString(int index, int length, Charset charset) {
        checkIndex(index, length);
        return new String(a, index, length, charset);
    }
    public ByteBuf copy() {
        byte[] b = new byte[w - r];
        System.arraycopy(a, r, b, 0, b.length);
        return Unpooled.wrappedBuffer(b);
    }
    public int refCnt() { return 1; }
    public ByteBuf retain() { return this; }
    public boolean release() { return false; }

    @Override
    public String toString() {
        return getClass().getSimpleName() + "(ridx: " + r + ", widx: " + w + ", cap: " + a.length
            + (maxCapacity == Integer.MAX_VALUE ? "" : "/" + maxCapacity) + ")";
    }

    @Override
    public boolean equals(Object o) {
        if (this == o) {
            return true;
        }
        if (!(o instanceof ByteBuf)) {
            return false;
        }
        ByteBuf b = (ByteBuf) o;
        if (b.readableBytes() != readableBytes()) {
            return false;
        }
        for (int i = 0; i < readableBytes(); i++) {
            if (a[r + i] != b.a[b.r + i]) {
                return false;
            }
        }
        return true;
    }

    @Override
    public int hashCode() {
        int h = 1;
        for (int i = r; i < w; i++) {
            h = 31 * h + a[i];
        }
        return h == 0 ? 1 : h;
    }
}
