package io.netty.buffer;

/** Stand-in for netty's Unpooled: heap buffers only. */
public final class Unpooled {
    private Unpooled() {}

    /** netty: initial capacity 256, unlimited max capacity. */
    public static ByteBuf buffer() { return buffer(256, Integer.MAX_VALUE); }

    public static ByteBuf buffer(int initialCapacity) { return buffer(initialCapacity, Integer.MAX_VALUE); }

    public static ByteBuf buffer(int initialCapacity, int maxCapacity) {
        if (initialCapacity < 0 || initialCapacity > maxCapacity) {
            throw new IllegalArgumentException(String.format(
                "initialCapacity(%d) > maxCapacity(%d)", initialCapacity, maxCapacity));
        }
        return new UnpooledHeapByteBuf(new byte[initialCapacity], 0, maxCapacity);
    }

    /** netty: shares the array, readerIndex 0, writerIndex = capacity = maxCapacity = array.length. */
    public static ByteBuf wrappedBuffer(byte[] array) {
        return new UnpooledHeapByteBuf(array, array.length, array.length);
    }

    public static ByteBuf copiedBuffer(byte[] array) { return wrappedBuffer(array.clone()); }
}
