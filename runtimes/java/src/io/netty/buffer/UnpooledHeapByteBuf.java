package io.netty.buffer;

final class UnpooledHeapByteBuf extends ByteBuf {
    UnpooledHeapByteBuf(byte[] initial, int writerIndex, int maxCapacity) {
        super(initial, writerIndex, maxCapacity);
    }
}
