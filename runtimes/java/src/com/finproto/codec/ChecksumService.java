package com.finproto.codec;

/** A checksum over a buffer of type B giving a value of type T. */
public interface ChecksumService<B, T> {
    T calc(B data);
}
