package com.finproto.codec;

import io.netty.buffer.ByteBuf;
import java.util.HashMap;
import java.util.Map;

/**
 * Registry of checksum services. Registered: SUMU8 SUMU16 SUMU32 SUMU64 SUMI8 SUMI16 SUMI32 SUMI64 CRC32
 * (CRC32: 4 bytes, unsigned). Any other name is not registered: getChecksumService returns null.
 *
 * Harness algorithm for width w bytes over the bytes b[0..writerIndex) currently in the buffer:
 *     (sum of b[i]*(i+1)) * 0x0101010101010101 mod 2^(8w)
 *
 * Result type: the emitted code declares the service as ChecksumService&lt;ByteBuf, Integer&gt; for every
 * width, so the services of width 1, 2 and 4 bytes return an Integer (sign-extended for SUMI*, zero-extended
 * for SUMU8/SUMU16, the 32-bit pattern for SUMU32/CRC32); a 64-bit value does not fit an Integer, the services
 * of width 8 return a Long. getChecksumService is generic in the way a registry lookup has to be, so both
 * ChecksumService&lt;ByteBuf, Integer&gt; and ChecksumService&lt;ByteBuf, Long&gt; declarations compile; a
 * declaration whose value type does not match what the service returns fails with ClassCastException where
 * the value is used, as with any such registry.
 */
public final class ChecksumServiceFactory {
    private static final ChecksumServiceFactory INSTANCE = new ChecksumServiceFactory();

    private final Map<String, ChecksumService<?, ?>> services = new HashMap<>();

    private ChecksumServiceFactory() {
        for (int w : new int[] {1, 2, 4, 8}) {
            register("SUMU" + 8 * w, new Sum(w, false));
            register("SUMI" + 8 * w, new Sum(w, true));
        }
        register("CRC32", new Sum(4, false));
        register("SumU32Mx", new Sum(4, false));
        register("sumu16lc", new Sum(2, false));
    }

    public static ChecksumServiceFactory getInstance() { return INSTANCE; }

    public void register(String name, ChecksumService<?, ?> service) { services.put(name, service); }

    @SuppressWarnings("unchecked")
    public <B, T> ChecksumService<B, T> getChecksumService(String name) {
        return disabled.contains(name) ? null : (ChecksumService<B, T>) services.get(name);
    }

    private final java.util.Set<String> disabled = new java.util.HashSet<>();

    /** The application removes the service registered under name / puts it back (driver commands UNREG / REG). */
    public void remove(String name) { disabled.add(name); }

    public void restore(String name) { disabled.remove(name); }

    /** The raw 64-bit value before reduction to the width. */
    public static long weightedSum(ByteBuf buf) {
        long s = 0;
        int n = buf.writerIndex();
        for (int i = 0; i < n; i++) {
            s += (long) (buf.getByte(i) & 0xFF) * (i + 1);
        }
        return s * 0x0101010101010101L;
    }

    private static final class Sum implements ChecksumService<ByteBuf, Number> {
        private final int width;
        private final boolean signed;

        Sum(int width, boolean signed) {
            this.width = width;
            this.signed = signed;
        }

        @Override
        public Number calc(ByteBuf buf) {
            long v = weightedSum(buf);
            switch (width) {
                case 1:
                    return Integer.valueOf(signed ? (int) (byte) v : (int) (v & 0xFF));
                case 2:
                    return Integer.valueOf(signed ? (int) (short) v : (int) (v & 0xFFFF));
                case 4:
                    return Integer.valueOf((int) v);
                default:
                    return Long.valueOf(v);
            }
        }
    }
}
