package com.finproto.codec;

final class FixedStrings {
    private FixedStrings() {}

    static byte padByte(char c) {
        if (c > 0xFF) {
            throw new IllegalArgumentException("pad character U+" + Integer.toHexString(c) + " is not a single byte");
        }
        return (byte) c;
    }
}
