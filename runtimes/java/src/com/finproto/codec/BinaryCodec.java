package com.finproto.codec;

import io.netty.buffer.ByteBuf;
import java.nio.charset.StandardCharsets;

/**
 * Minimal conforming codec runtime for the Java target. The emitted classes implement this interface
 * and call the fixed-string helpers unqualified, so they are default methods.
 *
 * Fixed string char[n]: exactly n bytes on the wire. Without padding arguments: padded with ' ' on the
 * right, trailing spaces trimmed on read. With padding arguments: padded / trimmed with the given
 * character on the given side (left == true: pad characters come first). A value longer than n bytes
 * is an error.
 */
public interface BinaryCodec {
    void encode(ByteBuf byteBuf);

    void decode(ByteBuf byteBuf);

    default String readFixedString(ByteBuf byteBuf, int length) {
        return readFixedString(byteBuf, length, ' ', false);
    }

    default String readFixedString(ByteBuf byteBuf, int length, char padChar, boolean padLeft) {
        if (length < 0) {
            throw new IllegalArgumentException("fixed string length " + length);
        }
        byte pad = FixedStrings.padByte(padChar);
        byte[] b = new byte[length];
        byteBuf.readBytes(b);
        int from = 0;
        int to = length;
        if (padLeft) {
            while (from < to && b[from] == pad) {
                from++;
            }
        } else {
            while (to > from && b[to - 1] == pad) {
                to--;
            }
        }
        return new String(b, from, to - from, StandardCharsets.UTF_8);
    }

    default void writeFixedString(ByteBuf byteBuf, String value, int length) {
        writeFixedString(byteBuf, value, length, ' ', false);
    }

    default void writeFixedString(ByteBuf byteBuf, String value, int length, char padChar, boolean padLeft) {
        byte pad = FixedStrings.padByte(padChar);
        byte[] b = value == null ? new byte[0] : value.getBytes(StandardCharsets.UTF_8);
        if (b.length > length) {
            throw new IllegalArgumentException(
                "fixed string of " + b.length + " bytes does not fit char[" + length + "]");
        }
        byte[] out = new byte[length];
        int fill = length - b.length;
        if (padLeft) {
            java.util.Arrays.fill(out, 0, fill, pad);
            System.arraycopy(b, 0, out, fill, b.length);
        } else {
            System.arraycopy(b, 0, out, 0, b.length);
            java.util.Arrays.fill(out, b.length, length, pad);
        }
        byteBuf.writeBytes(out);
    }
}
