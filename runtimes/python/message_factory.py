"""Minimal conforming runtime for the Python target: MessageFactory."""
from typing import Generic, TypeVar

K = TypeVar('K')
V = TypeVar('V')


class MessageFactory(Generic[K, V]):
    def __init__(self):
        self._m = {}

    def register(self, key, cls):
        self._m[key] = cls

    def create(self, key):
        if key not in self._m:
            raise KeyError('unknown message type %r' % (key,))
        return self._m[key]()
