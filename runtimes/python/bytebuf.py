"""Minimal conforming runtime for the Python target: ByteBuf.
API surface = exactly what py_generator.go emits calls to: write_<t>[_le](v), read_<t>[_le](),
write_<t>[_le]_at(pos, v), attribute write_index (plus read_index, to_bytes for the driver)."""
import struct

_FMT = {'i8': 'b', 'u8': 'B', 'i16': 'h', 'u16': 'H', 'i32': 'i', 'u32': 'I', 'i64': 'q', 'u64': 'Q', 'f32': 'f', 'f64': 'd'}


class ByteBuf:
    def __init__(self, data=b''):
        self._b = bytearray(data)
        self.read_index = 0
        # optional mirror of every byte written (C17 sample-population taps)
        self.tap = None

    @property
    def write_index(self):
        return len(self._b)

    def to_bytes(self):
        return bytes(self._b)

    def readable_bytes(self):
        return len(self._b) - self.read_index

    def write_bytes(self, data):
        self._b += data

    def read_bytes(self, n):
        if n < 0 or self.read_index + n > len(self._b):
            raise IndexError('read of %d bytes beyond end of buffer' % n)
        out = bytes(self._b[self.read_index:self.read_index + n])
        self.read_index += n
        return out


def _make(name, fmt):
    size = struct.calcsize('>' + fmt)
    for suffix, order in (('', '>'), ('_le', '<')):
        f = order + fmt

        def w(self, v, f=f):
            self._b += struct.pack(f, v)

        def r(self, f=f, size=size):
            return struct.unpack(f, self.read_bytes(size))[0]

        def at(self, pos, v, f=f, size=size):
            if pos < 0 or pos + size > len(self._b):
                raise IndexError('write_at outside buffer')
            self._b[pos:pos + size] = struct.pack(f, v)

        setattr(ByteBuf, 'write_%s%s' % (name, suffix), w)
        setattr(ByteBuf, 'read_%s%s' % (name, suffix), r)
        setattr(ByteBuf, 'write_%s%s_at' % (name, suffix), at)


for _n, _f in _FMT.items():
    _make(_n, _f)
