"""Minimal conforming runtime for the Python target: codec helpers."""
from bytebuf import ByteBuf


class BinaryCodec:
    def encode(self, buffer):
        raise NotImplementedError

    def decode(self, buffer):
        raise NotImplementedError


def _wlen(buf, n, typ, le):
    getattr(buf, 'write_%s%s' % (typ, '_le' if le and typ not in ('u8', 'i8') else ''))(n)


def _rlen(buf, typ, le):
    return getattr(buf, 'read_%s%s' % (typ, '_le' if le and typ not in ('u8', 'i8') else ''))()


def read_len(buf, typ):
    return _rlen(buf, typ, False)


def read_len_le(buf, typ):
    return _rlen(buf, typ, True)


def _to_bytes(s):
    if s is None:
        return b''
    if isinstance(s, (bytes, bytearray)):
        return bytes(s)
    return s.encode('utf-8')


def write_string(buf, s, typ):
    b = _to_bytes(s)
    _wlen(buf, len(b), typ, False)
    buf.write_bytes(b)


def write_string_le(buf, s, typ):
    b = _to_bytes(s)
    _wlen(buf, len(b), typ, True)
    buf.write_bytes(b)


def read_string(buf, typ):
    n = _rlen(buf, typ, False)
    return buf.read_bytes(n).decode('utf-8')


def read_string_le(buf, typ):
    n = _rlen(buf, typ, True)
    return buf.read_bytes(n).decode('utf-8')


def _padbyte(pad):
    if isinstance(pad, int):
        return bytes([pad])
    if isinstance(pad, (bytes, bytearray)):
        return bytes(pad[:1])
    return pad.encode('latin-1')[:1]


def write_fixed_string(buf, s, n, encoding='utf-8', pad=' ', left=False):
    b = _to_bytes(s)
    if len(b) > n:
        raise ValueError('fixed string longer than %d bytes' % n)
    fill = _padbyte(pad) * (n - len(b))
    buf.write_bytes(fill + b if left else b + fill)


def read_fixed_string(buf, n, encoding='utf-8', pad=' ', left=False):
    b = buf.read_bytes(n)
    p = _padbyte(pad)
    b = b.lstrip(p) if left else b.rstrip(p)
    return b.decode(encoding)
