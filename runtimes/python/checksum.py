"""Minimal conforming runtime for the Python target: checksum services.
The harness algorithm SUMw(b) = (sum b[i]*(i+1)) * 0x0101..01 mod 2^(8w), registered under the names the test programs use."""

_W = {'SUMU8': (1, False), 'SUMU16': (2, False), 'SUMU32': (4, False), 'SUMU64': (8, False),
      'SUMI8': (1, True), 'SUMI16': (2, True), 'SUMI32': (4, True), 'SUMI64': (8, True), 'CRC32': (4, False),
      'SumU32Mx': (4, False), 'sumu16lc': (2, False)}


class _Sum:
    def __init__(self, width, signed):
        self.width, self.signed = width, signed

    def calc(self, buf):
        data = buf.to_bytes()
        s = sum(b * (i + 1) for i, b in enumerate(data))
        s = (s * 0x0101010101010101) & ((1 << (8 * self.width)) - 1)
        if self.signed and s >= 1 << (8 * self.width - 1):
            s -= 1 << (8 * self.width)
        return s


_OFF = set()


def unregister(name):
    """The application removes the service registered under name (driver commands UNREG / REG)."""
    _OFF.add(name)


def register(name):
    _OFF.discard(name)


def create_checksum_service(name):
    if name in _W and name not in _OFF:
        return _Sum(*_W[name])
    return None
