"""Generic observer for emitted Python codecs. usage: driver.py <dir with emitted module + runtime on sys.path> <module>
Reads the harness line protocol on stdin (see engine/internal/wire/tree.go). Contains no expected values."""
import sys, struct, importlib, binascii, traceback

sys.path.insert(0, sys.argv[1])
from bytebuf import ByteBuf  # noqa: E402


def norm(s):
    return s.replace('_', '').lower()


def load():
    try:
        return importlib.import_module(sys.argv[2]), None
    except BaseException as e:  # noqa
        return None, '%s: %s' % (type(e).__name__, e)


MOD, LOAD_ERR = load()


def find_class(name):
    for k, v in vars(MOD).items():
        if isinstance(v, type) and norm(k) == norm(name) and hasattr(v, 'encode'):
            return v
    return None


class Unsupported(Exception):
    pass


def parse(toks, i):
    t = toks[i]
    if t == 'nil':
        return None, i + 1
    if t == '[':
        out = []
        i += 1
        while toks[i] != ']':
            v, i = parse(toks, i)
            out.append(v)
        return out, i + 1
    if t.startswith('P:'):
        cls = find_class(t[2:])
        if cls is None:
            raise Unsupported('notype %s' % t[2:])
        obj = cls()
        i += 2
        while toks[i] != '}':
            name = toks[i]
            v, i = parse(toks, i + 2)
            attr = None
            for a in vars(obj):
                if norm(a) == norm(name):
                    attr = a
            if attr is None:
                raise Unsupported('nomember %s.%s' % (t[2:], name))
            setattr(obj, attr, v)
        return obj, i + 1
    if t.startswith('i:'):
        _, typ, bits = t.split(':')
        n = int(bits, 16)
        w = int(typ[1:])
        if typ[0] == 'i' and n >= 1 << (w - 1):
            n -= 1 << w
        return n, i + 1
    if t.startswith('f:'):
        _, typ, bits = t.split(':')
        n = int(bits, 16)
        if typ == 'f32':
            return struct.unpack('>f', struct.pack('>I', n))[0], i + 1
        return struct.unpack('>d', struct.pack('>Q', n))[0], i + 1
    if t.startswith('c:'):
        return int(t[2:]), i + 1
    if t.startswith('s:'):
        return binascii.unhexlify(t[2:]).decode('utf-8'), i + 1
    raise Unsupported('token ' + t)


def dump(v):
    if v is None:
        return 'nil'
    if isinstance(v, bool):
        return 'i:%d' % int(v)
    if isinstance(v, int):
        return 'i:%d' % v
    if isinstance(v, float):
        return 'f:%x' % struct.unpack('>Q', struct.pack('>d', v))[0]
    if isinstance(v, str):
        return 's:' + binascii.hexlify(v.encode('utf-8')).decode()
    if isinstance(v, (bytes, bytearray)):
        return 's:' + binascii.hexlify(bytes(v)).decode()
    if isinstance(v, (list, tuple)):
        return '[ ' + ' '.join(dump(x) for x in v) + (' ]' if v else ']')
    parts = ['P:%s {' % type(v).__name__]
    for k, x in vars(v).items():
        parts.append('%s = %s' % (k, dump(x)))
    parts.append('}')
    return ' '.join(parts)


def oneline(s):
    return ' '.join(str(s).split())[:300]


out = sys.stdout
PRE = b''   # one-shot: bytes already in the output buffer when the next ENC starts
SKIP = 0    # one-shot: bytes of the input buffer read before the next DEC starts
for line in sys.stdin:
    toks = line.split()
    if not toks:
        continue
    if toks[0] == 'END':
        break
    cmd, mid = toks[0], toks[1]
    if cmd in ('REG', 'UNREG'):
        import checksum as _cs
        (_cs.register if cmd == 'REG' else _cs.unregister)(toks[2])
        out.write('OK %s\n' % mid)
        continue
    if cmd == 'PRE':
        PRE = binascii.unhexlify(toks[2]) if len(toks) > 2 else b''
        out.write('OK %s\n' % mid)
        continue
    if cmd == 'SKIP':
        SKIP = int(toks[2])
        out.write('OK %s\n' % mid)
        continue
    if MOD is None:
        out.write('ERR %s load %s\n' % (mid, oneline(LOAD_ERR)))
        continue
    try:
        if cmd in ('ENC', 'ENCX'):
            try:
                obj, _ = parse(toks, 2)
            except Unsupported as u:
                out.write('ERR %s unsupported %s\n' % (mid, u))
                continue
            buf = ByteBuf()
            if PRE:
                buf.write_bytes(PRE)
                PRE = b''
            obj.encode(buf)
            if cmd == 'ENCX':
                # the same object encoded a second time, into a fresh buffer
                buf = ByteBuf()
                obj.encode(buf)
            out.write('ENC %s %s\n' % (mid, binascii.hexlify(buf.to_bytes()).decode()))
        elif cmd == 'DECX':
            # the same object decodes two messages one after the other; the answer describes the second decode
            cls = find_class(toks[2])
            if cls is None:
                out.write('ERR %s unsupported notype %s\n' % (mid, toks[2]))
                continue
            obj = cls()
            try:
                obj.decode(ByteBuf(binascii.unhexlify(toks[3])))
            except BaseException as e:  # noqa
                out.write('ERR %s inapplicable first decode failed: %s\n' % (mid, oneline('%s: %s' % (type(e).__name__, e))))
                continue
            buf = ByteBuf(binascii.unhexlify(toks[4]) if len(toks) > 4 else b'')
            obj.decode(buf)
            out.write('DEC %s %d %s\n' % (mid, buf.read_index, dump(obj)))
        elif cmd == 'DEC':
            cls = find_class(toks[2])
            if cls is None:
                out.write('ERR %s unsupported notype %s\n' % (mid, toks[2]))
                continue
            data = binascii.unhexlify(toks[3]) if len(toks) > 3 else b''
            buf = ByteBuf(data)
            if SKIP:
                buf.read_bytes(SKIP)
                SKIP = 0
            obj = cls()
            obj.decode(buf)
            out.write('DEC %s %d %s\n' % (mid, buf.read_index, dump(obj)))
            buf2 = ByteBuf()
            obj.encode(buf2)
            out.write('REENC %s %s\n' % (mid, binascii.hexlify(buf2.to_bytes()).decode()))
    except BaseException as e:  # noqa
        out.write('ERR %s error %s\n' % (mid, oneline('%s: %s' % (type(e).__name__, e))))
out.flush()
