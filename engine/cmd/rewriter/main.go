// rewriter builds the overlay that injects the verification facade and the nondeterminism seam into
// fin-protoc without touching /repo:
//
//	rewriter -repo /repo -hooks /verif/hooks -out <scratch dir> [-noseam]
//
// It writes <out>/overlay.json (for `go build -overlay`) and <out>/sites.json (the seam sites found).
// Every `for ... range m` whose m has map type (decided by go/types, not by spelling) inside the
// module's own non-test files becomes iteration over verifseam.Keys(site, m); every time.Now()
// becomes verifseam.Now(site). The rewrite is textual and keeps every statement on its original
// line, so positions in panics and diagnostics still refer to the repository's sources.
package main

import (
	"encoding/json"
	"flag"
	"fmt"
	"go/ast"
	"go/importer"
	"go/parser"
	"go/token"
	"go/types"
	"os"
	"path/filepath"
	"sort"
	"strings"
)

type edit struct {
	start, end int // byte offsets; end==start means insertion
	text       string
}

type site struct {
	ID   string `json:"id"`
	Kind string `json:"kind"` // "range-map" | "time.Now"
	File string `json:"file"`
	Line int    `json:"line"`
	Expr string `json:"expr"`
}

func die(format string, a ...any) {
	fmt.Fprintf(os.Stderr, "HARNESS-ERROR rewriter: "+format+"\n", a...)
	os.Exit(2)
}

func main() {
	repo := flag.String("repo", "/repo", "repository root")
	hooks := flag.String("hooks", "/verif/hooks", "hooks dir")
	out := flag.String("out", "", "output dir")
	noseam := flag.Bool("noseam", false, "only inject the facade; leave map iteration and the clock alone")
	flag.Parse()
	if *out == "" {
		die("missing -out")
	}
	if err := os.MkdirAll(*out, 0o755); err != nil {
		die("%v", err)
	}
	modBytes, err := os.ReadFile(filepath.Join(*repo, "go.mod"))
	if err != nil {
		die("%v", err)
	}
	modPath := ""
	for _, l := range strings.Split(string(modBytes), "\n") {
		if strings.HasPrefix(l, "module ") {
			modPath = strings.TrimSpace(strings.TrimPrefix(l, "module "))
		}
	}
	if modPath == "" {
		die("no module path")
	}
	overlay := map[string]string{}
	// facade + seam packages (virtual directories inside the module)
	for _, pkg := range []string{"verifapi", "verifseam"} {
		ents, err := os.ReadDir(filepath.Join(*hooks, pkg))
		if err != nil {
			die("%v", err)
		}
		for _, e := range ents {
			if strings.HasSuffix(e.Name(), ".go") {
				overlay[filepath.Join(*repo, pkg, e.Name())] = filepath.Join(*hooks, pkg, e.Name())
			}
		}
	}
	var sites []site
	var typeErrs []string
	if !*noseam {
		if err := os.Chdir(*repo); err != nil {
			die("%v", err)
		}
		fset := token.NewFileSet()
		imp := importer.ForCompiler(fset, "source", nil)
		var dirs []string
		filepath.WalkDir(*repo, func(p string, d os.DirEntry, err error) error {
			if err != nil {
				return nil
			}
			if d.IsDir() {
				n := d.Name()
				if p != *repo && (strings.HasPrefix(n, ".") || n == "testdata" || n == "verifapi" || n == "verifseam") {
					return filepath.SkipDir
				}
				// nested modules are not part of this module
				if p != *repo {
					if _, e := os.Stat(filepath.Join(p, "go.mod")); e == nil {
						return filepath.SkipDir
					}
				}
				dirs = append(dirs, p)
			}
			return nil
		})
		sort.Strings(dirs)
		for _, dir := range dirs {
			ents, _ := os.ReadDir(dir)
			var files []*ast.File
			var names []string
			src := map[string][]byte{}
			for _, e := range ents {
				n := e.Name()
				if e.IsDir() || !strings.HasSuffix(n, ".go") || strings.HasSuffix(n, "_test.go") {
					continue
				}
				full := filepath.Join(dir, n)
				b, err := os.ReadFile(full)
				if err != nil {
					die("%v", err)
				}
				f, err := parser.ParseFile(fset, full, b, parser.ParseComments)
				if err != nil {
					die("parse %s: %v", full, err)
				}
				files = append(files, f)
				names = append(names, full)
				src[full] = b
			}
			if len(files) == 0 {
				continue
			}
			info := &types.Info{Types: map[ast.Expr]types.TypeAndValue{}, Uses: map[*ast.Ident]types.Object{}}
			conf := types.Config{Importer: imp, FakeImportC: true, Error: func(err error) { typeErrs = append(typeErrs, err.Error()) }}
			rel, _ := filepath.Rel(*repo, dir)
			conf.Check(modPath+"/"+filepath.ToSlash(rel), fset, files, info)
			for i, f := range files {
				full := names[i]
				b := src[full]
				relFile, _ := filepath.Rel(*repo, full)
				var edits []edit
				n := 0
				siteSeen := map[string]int{}
				funcOf := func(p token.Pos) string {
					for _, d := range f.Decls {
						if fd, ok := d.(*ast.FuncDecl); ok && fd.Pos() <= p && p <= fd.End() {
							return fd.Name.Name
						}
					}
					return "init"
				}
				siteID := func(p token.Pos, expr string) string {
					base := fmt.Sprintf("%s:%s:%s", filepath.Base(relFile), funcOf(p), expr)
					siteSeen[base]++
					if siteSeen[base] > 1 {
						return fmt.Sprintf("%s#%d", base, siteSeen[base])
					}
					return base
				}
				usesTime := false
				labeled := map[*ast.RangeStmt]bool{}
				for _, im := range f.Imports {
					switch ip := strings.Trim(im.Path.Value, "\""); ip {
					case "math/rand", "math/rand/v2", "crypto/rand", "hash/maphash":
						sites = append(sites, site{ID: filepath.Base(relFile) + ":import " + ip, Kind: "unowned-source", File: filepath.ToSlash(relFile), Line: fset.Position(im.Pos()).Line, Expr: "import " + ip})
					}
				}
				ast.Inspect(f, func(nd ast.Node) bool {
					switch x := nd.(type) {
					case *ast.LabeledStmt:
						if rs, ok := x.Stmt.(*ast.RangeStmt); ok {
							labeled[rs] = true
						}
					case *ast.RangeStmt:
						tv, ok := info.Types[x.X]
						if !ok || tv.Type == nil {
							die("%s: range expression has no type (type errors: %v)", fset.Position(x.Pos()), typeErrs)
						}
						mt, isMap := tv.Type.Underlying().(*types.Map)
						if !isMap {
							return true
						}
						pos0 := fset.Position(x.Pos())
						xs0 := string(b[fset.Position(x.X.Pos()).Offset:fset.Position(x.X.End()).Offset])
						unowned := func(why string) {
							// a shape the seam cannot take over is left as written (native order) and reported: never a reason to stop
							sites = append(sites, site{ID: siteID(x.Pos(), "range "+xs0), Kind: "range-map-unowned: " + why, File: filepath.ToSlash(relFile), Line: pos0.Line, Expr: xs0})
						}
						if bt, ok := mt.Key().Underlying().(*types.Basic); !ok || bt.Info()&(types.IsOrdered) == 0 {
							unowned("key type " + mt.Key().String() + " has no canonical order")
							return true
						}
						if labeled[x] {
							unowned("labeled loop")
							return true
						}
						if x.Key != nil {
							if _, ok := x.Key.(*ast.Ident); !ok {
								unowned("range key is not an identifier")
								return true
							}
						}
						if x.Value != nil {
							if _, ok := x.Value.(*ast.Ident); !ok {
								unowned("range value is not an identifier")
								return true
							}
						}
						n++
						pos := fset.Position(x.Pos())
						xs := string(b[fset.Position(x.X.Pos()).Offset:fset.Position(x.X.End()).Offset])
						id := siteID(x.Pos(), "range "+xs)
						sites = append(sites, site{ID: id, Kind: "range-map", File: filepath.ToSlash(relFile), Line: pos.Line, Expr: xs})
						mv := fmt.Sprintf("verifM%d", n)
						kv := fmt.Sprintf("verifK%d", n)
						asg := ":="
						if x.Tok == token.ASSIGN {
							asg = "="
						}
						var pre strings.Builder
						keyName, valName := "", ""
						if id, ok := x.Key.(*ast.Ident); ok && id.Name != "_" {
							keyName = id.Name
						} else if x.Key != nil {
							if _, ok := x.Key.(*ast.Ident); !ok {
								die("%s: non-identifier range key", pos)
							}
						}
						if x.Value != nil {
							if id, ok := x.Value.(*ast.Ident); ok {
								if id.Name != "_" {
									valName = id.Name
								}
							} else {
								die("%s: non-identifier range value", pos)
							}
						}
						if keyName != "" {
							fmt.Fprintf(&pre, "%s %s %s; _ = %s; ", keyName, asg, kv, keyName)
						}
						if valName != "" {
							fmt.Fprintf(&pre, "%s %s %s[%s]; _ = %s; ", valName, asg, mv, kv, valName)
						}
						hdr := fmt.Sprintf("{ %s := %s; for _, %s := range verifseam.Keys(%q, %s) { if _, verifOK := %s[%s]; !verifOK { continue }; %s", mv, xs, kv, id, mv, mv, kv, pre.String())
						edits = append(edits, edit{fset.Position(x.Pos()).Offset, fset.Position(x.Body.Lbrace).Offset + 1, hdr})
						edits = append(edits, edit{fset.Position(x.Body.Rbrace).Offset + 1, fset.Position(x.Body.Rbrace).Offset + 1, " }"})
					case *ast.CallExpr:
						sel, ok := x.Fun.(*ast.SelectorExpr)
						if !ok {
							return true
						}
						pk, ok := sel.X.(*ast.Ident)
						if !ok {
							return true
						}
						if pn, ok := info.Uses[pk].(*types.PkgName); ok {
							// answers of the environment the seam does not own: reported, so that C13 knows to rely on its
							// fresh-process runs for them (and says so in its evidence)
							path, fn := pn.Imported().Path(), sel.Sel.Name
							src := ""
							switch {
							case path == "os" && (fn == "Getpid" || fn == "Getppid" || fn == "Hostname" || fn == "Getwd" || fn == "Environ" || fn == "Getenv" || fn == "LookupEnv" || fn == "UserHomeDir" || fn == "TempDir" || fn == "MkdirTemp" || fn == "CreateTemp" || fn == "Executable" || fn == "Getuid"):
								src = path + "." + fn
							case path == "time" && (fn == "Since" || fn == "Until"):
								src = path + "." + fn
							case path == "runtime" && (fn == "NumCPU" || fn == "NumGoroutine" || fn == "GOMAXPROCS"):
								src = path + "." + fn
							}
							if src != "" {
								sites = append(sites, site{ID: siteID(x.Pos(), src), Kind: "unowned-source", File: filepath.ToSlash(relFile), Line: fset.Position(x.Pos()).Line, Expr: src})
							}
						}
						if sel.Sel.Name != "Now" {
							return true
						}
						if pn, ok := info.Uses[pk].(*types.PkgName); ok && pn.Imported().Path() == "time" {
							pos := fset.Position(x.Pos())
							id := siteID(x.Pos(), "time.Now()")
							sites = append(sites, site{ID: id, Kind: "time.Now", File: filepath.ToSlash(relFile), Line: pos.Line, Expr: "time.Now()"})
							edits = append(edits, edit{pos.Offset, fset.Position(x.End()).Offset, fmt.Sprintf("verifseam.Now(%q)", id)})
							usesTime = true
						}
					}
					return true
				})
				if len(edits) == 0 {
					continue
				}
				// import on the package clause's line
				pkgEnd := fset.Position(f.Name.End()).Offset
				edits = append(edits, edit{pkgEnd, pkgEnd, fmt.Sprintf("; import verifseam %q", modPath+"/verifseam")})
				sort.SliceStable(edits, func(i, j int) bool { return edits[i].start < edits[j].start })
				var nb strings.Builder
				last := 0
				for _, e := range edits {
					if e.start < last {
						die("%s: overlapping edits", full)
					}
					nb.Write(b[last:e.start])
					nb.WriteString(e.text)
					last = e.end
				}
				nb.Write(b[last:])
				if usesTime {
					nb.WriteString("\nvar _ = time.Second\n")
				}
				dst := filepath.Join(*out, "src", filepath.ToSlash(relFile))
				os.MkdirAll(filepath.Dir(dst), 0o755)
				if err := os.WriteFile(dst, []byte(nb.String()), 0o644); err != nil {
					die("%v", err)
				}
				overlay[full] = dst
			}
		}
	}
	ob, _ := json.MarshalIndent(map[string]any{"Replace": overlay}, "", " ")
	if err := os.WriteFile(filepath.Join(*out, "overlay.json"), ob, 0o644); err != nil {
		die("%v", err)
	}
	sb, _ := json.MarshalIndent(map[string]any{"sites": sites, "type_errors": typeErrs}, "", " ")
	os.WriteFile(filepath.Join(*out, "sites.json"), sb, 0o644)
	fmt.Printf("rewriter: %d seam sites, %d overlay files, %d type errors\n", len(sites), len(overlay), len(typeErrs))
}
