// vcheck runs one property check:  vcheck <Cxx> --tier quick|thorough [--replay file]
package main

import (
	"flag"
	"fmt"
	"os"
	"strconv"
	"syscall"
	"time"

	"verif/engine/internal/checks"
	"verif/engine/internal/core"
)

// keepAlive holds the original standard files: dropping the last reference to os.Stdout / os.Stderr
// lets their finalizers close fd 1 / fd 2, and the runtime's crash reports then go nowhere.
var keepAlive []*os.File

func main() {
	keepAlive = append(keepAlive, os.Stdout, os.Stderr)
	if len(os.Args) < 2 {
		fmt.Println("usage: vcheck <Cxx> --tier quick|thorough")
		os.Exit(2)
	}
	id := os.Args[1]
	fs := flag.NewFlagSet("vcheck", flag.ExitOnError)
	tier := fs.String("tier", "quick", "quick|thorough")
	scratch := fs.String("scratch", "", "scratch dir")
	overlay := fs.String("overlay", "", "overlay.json")
	replay := fs.String("replay", "", "replay file")
	verif := fs.String("verif", "/verif", "verif dir")
	repo := fs.String("repo", "/repo", "repo dir")
	budget := fs.Duration("budget", 0, "soft time budget")
	fs.Parse(os.Args[2:])
	if t := os.Getenv("VERIF_TIER"); t != "" && (t == "quick" || t == "thorough") && !flagSet(fs, "tier") {
		*tier = t
	}
	seed := int64(0)
	if s := os.Getenv("VERIF_SEED"); s != "" {
		seed, _ = strconv.ParseInt(s, 10, 64)
	}
	// keep the real stdout for ourselves; the code under test prints from library functions
	fd, err := syscall.Dup(1)
	if err != nil {
		fmt.Println("HARNESS-ERROR dup:", err)
		os.Exit(2)
	}
	core.Out = os.NewFile(uintptr(fd), "stdout")
	devnull, _ := os.OpenFile("/dev/null", os.O_WRONLY, 0)
	os.Stdout = devnull
	syscall.Dup2(int(devnull.Fd()), 1)
	os.Stderr = devnull // the ANTLR console listener writes here; fd 2 stays real for runtime crash reports

	if id == "--worker" || id == "worker" {
		checks.Worker()
		return
	}
	if id == "--gen-worker" {
		checks.GenWorker(os.Args[2:])
		return
	}
	if id == "--fmt-worker" {
		checks.FmtWorker(os.Args[2:])
		return
	}
	if id == "--seq-worker" {
		checks.SeqWorker(os.Args[2:])
		return
	}
	ctx := &core.Ctx{ID: id, Tier: *tier, Seed: seed, VerifDir: *verif, RepoDir: *repo, Scratch: *scratch, Overlay: *overlay, Replay: *replay, Start: time.Now()}
	if *budget > 0 {
		ctx.Deadline = time.Now().Add(*budget)
	}
	if ctx.Scratch == "" {
		core.HarnessError("missing --scratch")
	}
	f, ok := checks.Registry[id]
	if !ok {
		core.HarnessError("unknown check %s", id)
	}
	os.Exit(f(ctx))
}

func flagSet(fs *flag.FlagSet, name string) bool {
	found := false
	fs.Visit(func(f *flag.Flag) {
		if f.Name == name {
			found = true
		}
	})
	return found
}
