// Package core holds what every check shares: the run context, violations and their signatures,
// the known-findings file, replay artefacts and evidence files.
package core

import (
	"crypto/sha256"
	"encoding/hex"
	"encoding/json"
	"fmt"
	"os"
	"os/exec"
	"path/filepath"
	"runtime"
	"sort"
	"strings"
	"sync"
	"time"
)

// Out is the real standard output (os.Stdout is redirected to /dev/null because the code under
// test prints from library functions).
var Out = os.Stdout

// Ctx is the context of one check run.
type Ctx struct {
	ID       string
	Tier     string // quick | thorough
	Seed     int64
	VerifDir string
	RepoDir  string
	Scratch  string // fresh directory under /var/tmp, removed by run.sh
	Overlay  string // overlay.json with facade + pinned seam
	Replay   string // replay file, if any
	Start    time.Time
	Deadline time.Time // soft budget; zero = none

	mu      sync.Mutex
	viol    map[string]*Violation
	order   []string
	tmpSeq  int
	Assumes []string
}

// Violation is one observed breach of a property.
type Violation struct {
	Sig    string `json:"signature"` // stable identity of the defect (not of the input)
	Detail string `json:"detail"`
	Replay any    `json:"replay"` // everything needed to re-run this single case
	Count  int    `json:"count"`
}

// Thorough reports whether the thorough tier was requested.
func (c *Ctx) Thorough() bool { return c.Tier == "thorough" }

// Report records a violation (deduplicated by signature; first example kept).
func (c *Ctx) Report(sig, detail string, replay any) {
	c.mu.Lock()
	defer c.mu.Unlock()
	if c.viol == nil {
		c.viol = map[string]*Violation{}
	}
	if v, ok := c.viol[sig]; ok {
		v.Count++
		return
	}
	c.viol[sig] = &Violation{Sig: sig, Detail: detail, Replay: replay, Count: 1}
	c.order = append(c.order, sig)
}

// Violations returns the recorded violations sorted by signature.
func (c *Ctx) Violations() []*Violation {
	c.mu.Lock()
	defer c.mu.Unlock()
	var out []*Violation
	sigs := append([]string(nil), c.order...)
	sort.Strings(sigs)
	for _, s := range sigs {
		out = append(out, c.viol[s])
	}
	return out
}

// TempPath returns a fresh path inside the scratch dir.
func (c *Ctx) TempPath(suffix string) string {
	c.mu.Lock()
	c.tmpSeq++
	n := c.tmpSeq
	c.mu.Unlock()
	return filepath.Join(c.Scratch, fmt.Sprintf("t%d%s", n, suffix))
}

// Expired reports whether the soft budget ran out.
func (c *Ctx) Expired() bool { return !c.Deadline.IsZero() && time.Now().After(c.Deadline) }

// HarnessError aborts the run: the machinery failed, no verdict.
func HarnessError(format string, a ...any) {
	fmt.Fprintf(Out, "HARNESS-ERROR "+format+"\n", a...)
	os.Exit(2)
}

// Finding is one entry of KNOWN_FINDINGS.json.
type Finding struct {
	Property  string `json:"property"`
	Signature string `json:"signature"`
	Status    string `json:"status"` // open | fixed
	Commit    string `json:"commit,omitempty"`
	What      string `json:"what"`
	Example   any    `json:"example,omitempty"`
}

// LoadFindings reads /verif/KNOWN_FINDINGS.json.
func LoadFindings(verifDir string) []Finding {
	b, err := os.ReadFile(filepath.Join(verifDir, "KNOWN_FINDINGS.json"))
	if err != nil {
		return nil
	}
	var f struct {
		Findings []Finding `json:"findings"`
	}
	if err := json.Unmarshal(b, &f); err != nil {
		HarnessError("KNOWN_FINDINGS.json: %v", err)
	}
	return f.Findings
}

// Coverage is the coverage section of an evidence file.
type Coverage map[string]any

// Finish classifies violations against the known-findings file, writes replay artefacts and the
// evidence file, prints the verdict lines and returns the exit code.
func (c *Ctx) Finish(level string, cov Coverage) int {
	known := map[string]Finding{}
	for _, f := range LoadFindings(c.VerifDir) {
		if f.Property == c.ID && f.Status == "open" {
			known[f.Signature] = f
		}
	}
	viols := c.Violations()
	newCount, knownCount := 0, 0
	var knownSeen []string
	// replay artefacts of this property are those of the latest run only; a run against a scratch tree
	// (VERIF_REPO, e.g. a seeded change) keeps its artefacts apart so that triage never mistakes them for
	// findings on /repo
	replayDir := filepath.Join(c.VerifDir, "replays")
	if c.RepoDir != "" && c.RepoDir != "/repo" {
		replayDir = filepath.Join(c.VerifDir, "replays", "scratch-tree")
	}
	if c.Replay == "" {
		if old, _ := filepath.Glob(filepath.Join(replayDir, c.ID+"-*.json")); len(old) > 0 {
			for _, f := range old {
				os.Remove(f)
			}
		}
	}
	for _, v := range viols {
		if _, ok := known[v.Sig]; ok {
			knownCount++
			knownSeen = append(knownSeen, v.Sig)
			fmt.Fprintf(Out, "KNOWN-FINDING: property=%s %s (x%d)\n", c.ID, v.Sig, v.Count)
			continue
		}
		newCount++
		h := sha256.Sum256([]byte(v.Sig))
		path := filepath.Join(replayDir, fmt.Sprintf("%s-%s.json", c.ID, hex.EncodeToString(h[:6])))
		os.MkdirAll(filepath.Dir(path), 0o755)
		b, _ := json.MarshalIndent(map[string]any{"property": c.ID, "signature": v.Sig, "detail": v.Detail, "count": v.Count, "replay": v.Replay, "tier": c.Tier, "tree": treeOf(c.RepoDir)}, "", " ")
		os.WriteFile(path, b, 0o644)
		fmt.Fprintf(Out, "VIOLATION property=%s replay=%s\n", c.ID, path)
		fmt.Fprintf(Out, "  signature: %s\n  detail: %s\n", v.Sig, firstLines(v.Detail, 12))
	}
	var stale []string
	for s := range known {
		found := false
		for _, k := range knownSeen {
			if k == s {
				found = true
			}
		}
		if !found {
			stale = append(stale, s)
		}
	}
	sort.Strings(stale)
	cov["known_findings_observed"] = knownSeen
	cov["known_findings_not_observed_this_run"] = stale
	if c.Assumes == nil {
		c.Assumes = []string{"runtime semantics are those of /verif/runtimes/<lang>; bounds as stated in coverage.rule"}
	}
	if knownSeen == nil {
		knownSeen = []string{}
	}
	if stale == nil {
		stale = []string{}
	}
	cov["known_findings_observed"] = knownSeen
	cov["known_findings_not_observed_this_run"] = stale
	ev := map[string]any{
		"property_id": c.ID,
		"tier":        c.Tier,
		"seed":        c.Seed,
		"level":       level,
		"coverage":    cov,
		"assumptions": c.Assumes,
		"wall_s":      time.Since(c.Start).Seconds(),
		"violations":  newCount,
	}
	if c.Replay == "" && os.Getenv("VERIF_NOEVIDENCE") == "" {
		b, _ := json.MarshalIndent(ev, "", " ")
		os.MkdirAll(filepath.Join(c.VerifDir, "evidence"), 0o755)
		if err := os.WriteFile(filepath.Join(c.VerifDir, "evidence", c.ID+".json"), b, 0o644); err != nil {
			HarnessError("write evidence: %v", err)
		}
	}
	fmt.Fprintf(Out, "%s %s: new violations=%d known findings=%d wall=%.1fs\n", c.ID, c.Tier, newCount, knownCount, time.Since(c.Start).Seconds())
	if newCount > 0 {
		return 1
	}
	return 0
}

func firstLines(s string, n int) string {
	l := strings.Split(s, "\n")
	if len(l) > n {
		l = append(l[:n], "...")
	}
	return strings.Join(l, "\n    ")
}

// Parallel runs f(i) for i in [0,n) on all cores.
func Parallel(n int, f func(i int)) {
	workers := runtime.NumCPU()
	if workers > n {
		workers = n
	}
	if workers < 1 {
		workers = 1
	}
	var wg sync.WaitGroup
	ch := make(chan int, 256)
	for w := 0; w < workers; w++ {
		wg.Add(1)
		go func() {
			defer wg.Done()
			for i := range ch {
				f(i)
			}
		}()
	}
	for i := 0; i < n; i++ {
		ch <- i
	}
	close(ch)
	wg.Wait()
}

// Hash returns a short content hash.
func Hash(parts ...string) string {
	h := sha256.New()
	for _, p := range parts {
		h.Write([]byte(p))
		h.Write([]byte{0})
	}
	return hex.EncodeToString(h.Sum(nil))[:16]
}

// GoEnv is the environment with which go builds run offline.
func GoEnv() []string {
	env := os.Environ()
	var out []string
	for _, e := range env {
		if strings.HasPrefix(e, "GOFLAGS=") || strings.HasPrefix(e, "GOPROXY=") || strings.HasPrefix(e, "GOSUMDB=") || strings.HasPrefix(e, "GOTOOLCHAIN=") {
			continue
		}
		out = append(out, e)
	}
	return append(out, "GOFLAGS=-mod=mod", "GOPROXY=off")
}

// BuildRepoBinary builds /repo/cmd from the current working tree. mode: "pinned" (facade overlay with
// the seam pinned), "plain" (exactly the repository), "so" (c-shared, plain).
func (c *Ctx) BuildRepoBinary(mode string) string {
	out := filepath.Join(c.Scratch, "fin-protoc-"+mode)
	args := []string{"build"}
	switch mode {
	case "pinned":
		args = append(args, "-tags", "verif", "-overlay", c.Overlay)
	case "so":
		out = filepath.Join(c.Scratch, "libpacketdsl.so")
		args = append(args, "-buildmode=c-shared")
	}
	if _, err := os.Stat(out); err == nil {
		return out
	}
	args = append(args, "-o", out, "./cmd")
	cmd := exec.Command("go", args...)
	cmd.Dir = c.RepoDir
	cmd.Env = GoEnv()
	if b, err := cmd.CombinedOutput(); err != nil {
		HarnessError("go %s: %v\n%s", strings.Join(args, " "), err, b)
	}
	return out
}

// Sample keeps at most n samples.
type Sample struct {
	mu   sync.Mutex
	N    int
	List []any
}

// Add adds a sample if room.
func (s *Sample) Add(v any) {
	s.mu.Lock()
	if len(s.List) < s.N {
		s.List = append(s.List, v)
	}
	s.mu.Unlock()
}

// Trunc shortens a string for evidence/detail output.
func Trunc(s string, n int) string {
	if len(s) <= n {
		return s
	}
	return s[:n] + fmt.Sprintf("…(+%d bytes)", len(s)-n)
}

// treeOf names the tree a run looked at: /repo's HEAD (plus "+dirty" when the working tree differs) or the scratch tree.
func treeOf(repo string) string {
	if repo == "" {
		repo = "/repo"
	}
	head, _ := exec.Command("git", "-C", repo, "rev-parse", "--short", "HEAD").Output()
	st, _ := exec.Command("git", "-C", repo, "status", "--porcelain", "--untracked-files=no").Output()
	t := repo + "@" + strings.TrimSpace(string(head))
	if len(strings.TrimSpace(string(st))) > 0 {
		t += "+dirty"
	}
	return t
}
