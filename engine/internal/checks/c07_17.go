package checks

import (
	"fmt"
	"regexp"
	"sort"
	"strings"
	"sync"

	api "github.com/xinchentechnote/fin-protoc/verifapi"
	"verif/engine/internal/core"
	"verif/engine/internal/dsl"
	"verif/engine/internal/targets"
	"verif/engine/internal/wire"
)

func init() {
	Registry["C07"] = C07
	Registry["C17"] = C17
}

// markers are the texts the generators print in their default branches instead of failing.
var markers = []string{"not supported", "unsupport", "unknow", "unkown", "//TODO", "-- error generating"}

var reMarkerLine = regexp.MustCompile(`(?m)^\s*--[^\n]*$`)

// c07Programs: every family incl. identifier shapes.
func c07Programs(ctx *core.Ctx) []*dsl.Program {
	progs := codecPrograms(ctx)
	pts := [][]dsl.OptDeviation{nil}
	if ctx.Thorough() {
		pts = lePoint
	}
	progs = append(progs, withPoints(dsl.P4(), pts)...)
	return progs
}

// C07: successful compilation yields complete, well-formed target code.
func C07(ctx *core.Ctx) int {
	progs := replayFilter(ctx, c07Programs(ctx))
	cases := buildCases(ctx, progs, 1)
	langs := devLangs()
	langs = runCodec(ctx, cases, langs)
	st := newCodecStats()
	matrix := map[string]map[string]int{} // construct class -> lang -> outcome counts
	note := func(pc *ProgCase, lang, outcome string) {
		k := progClass(pc.Prog.Name)
		if matrix[k] == nil {
			matrix[k] = map[string]int{}
		}
		matrix[k][lang+":"+outcome]++
	}
	// which (target, program) fail already under the program's default configuration
	failsAtDefault := map[string]bool{}
	for _, pc := range cases {
		if pc.Accepted && !strings.Contains(pc.Prog.Name, "{") {
			for _, l := range langs {
				if cc := pc.Cells[l]; cc != nil && cc.GenErr == "" && cc.T != nil && cc.T.Stage != "" && cc.T.Stage != "timeout" && cc.T.Stage != "driver" {
					failsAtDefault[l+"|"+pc.Prog.Name] = true
				}
			}
		}
	}
	for _, pc := range cases {
		if !pc.Accepted {
			continue
		}
		for _, l := range langs {
			cc := pc.Cells[l]
			if cc == nil {
				continue
			}
			st.cells++
			st.evals++
			rep := map[string]any{"name": pc.Prog.Name, "lang": l, "text": pc.Text}
			switch {
			case cc.GenErr != "" && strings.HasPrefix(cc.GenErr, "panic"):
				st.unobservable++
				st.blockers[l+": generator panics (C11): "+cc.GenErr]++
				note(pc, l, "generator panic")
				continue
			case cc.GenErr != "":
				// a reported error is the permitted outcome for an inexpressible construct
				st.observable++
				note(pc, l, "diagnostic")
				st.distinct["diag:"+l+cc.GenErr] = true
				continue
			}
			st.observable++
			// (c) marker text
			for name, b := range cc.T.Files {
				txt := string(b)
				for _, mk := range markers {
					if strings.Contains(txt, mk) {
						ctx.Report(fmt.Sprintf("%s|placeholder text %q in emitted code|%s", l, mk, markerContext(txt, mk)),
							fmt.Sprintf("program %s file %s contains %q\n%s", pc.Prog.Name, name, mk, lineWith(txt, mk)), rep)
					}
				}
				if l != "lua" {
					if m := reMarkerLine.FindString(txt); m != "" {
						ctx.Report(fmt.Sprintf("%s|'--' marker line in emitted code|%s", l, abstractIdents(strings.TrimSpace(m))),
							fmt.Sprintf("program %s file %s line %q", pc.Prog.Name, name, m), rep)
					}
				}
			}
			// (a) the toolchain accepts the emitted files
			if cc.T.Stage == "build" {
				note(pc, l, "does not build")
				ctx.Report(fmt.Sprintf("%s|emitted code rejected by the target toolchain|%s", l, cellName(pc.Prog.Name, failsAtDefault[l+"|"+baseProgName(pc.Prog.Name)])),
					fmt.Sprintf("program %s (%s): %s\n%s\n--- DSL\n%s", pc.Prog.Name, l, buildSig(l, cc.T.BuildLog), core.Trunc(cc.T.BuildLog, 1500), core.Trunc(pc.Text, 600)), rep)
				continue
			}
			if cc.T.Stage != "" {
				note(pc, l, cc.T.Stage)
				if cc.T.Stage == "timeout" {
					st.blockers[l+": toolchain or driver process hit its wall-clock limit (not a verdict)"]++
					continue
				}
				if cc.T.Stage == "driver" {
					// the emitted code builds but the harness's driver for it does not: a limitation of the harness, never a verdict
					st.blockers[l+": HARNESS driver does not build: "+buildSig(l, cc.T.BuildLog)]++
					continue
				}
				ctx.Report(fmt.Sprintf("%s|emitted code dies when exercised|%s", l, cellName(pc.Prog.Name, failsAtDefault[l+"|"+baseProgName(pc.Prog.Name)])),
					fmt.Sprintf("program %s (%s): %s\n%s", pc.Prog.Name, l, buildSig(l, cc.T.BuildLog), core.Trunc(cc.T.BuildLog, 1500)), rep)
				continue
			}
			note(pc, l, "builds")
			st.distinct[l+":"+progClass(pc.Prog.Name)] = true
			// (b) every declared packet has its type and every declared field its member
			seen := map[string]bool{}
			for _, o := range cc.T.Out {
				if o.Kind == "ERR" && o.ErrKind == "unsupported" && !seen[o.ErrText] {
					seen[o.ErrText] = true
					f := strings.Fields(o.ErrText)
					if l == "go" && len(f) >= 2 && f[0] == "notype" && f[1] != "" && !(f[1][0] >= 'A' && f[1][0] <= 'Z') {
						// an unexported Go type exists but cannot be named from the driver's package: not observable, not a verdict
						st.blockers["go: packet type is unexported (lower-case DSL name), driver cannot reach it"]++
						continue
					}
					what := "?"
					if len(f) >= 2 {
						what = declKind(pc.R, f[0], f[1])
					}
					ctx.Report(fmt.Sprintf("%s|declared %s has no counterpart in the emitted code", l, what),
						fmt.Sprintf("program %s (%s): %s\n%s", pc.Prog.Name, l, o.ErrText, core.Trunc(pc.Text, 600)), rep)
				}
			}
			// (d) Python has no build step that resolves names: "valid against the codec runtime API" shows when the
			// code runs. An attribute or name that does not exist (AttributeError / NameError / ImportError) is
			// what a compiler would have rejected in the other targets.
			if baseLang(l) == "python" {
				said := map[string]bool{}
				for _, o := range cc.T.Out {
					if o.Kind != "ERR" || o.ErrKind != "error" {
						continue
					}
					for _, cls := range []string{"AttributeError", "NameError", "ImportError", "ModuleNotFoundError"} {
						if strings.HasPrefix(o.ErrText, cls) && !said[cls] {
							said[cls] = true
							ctx.Report(fmt.Sprintf("%s|emitted code uses a name that neither it nor the runtime API defines|%s|%s", l, errWord(o.ErrText), progClass(pc.Prog.Name)),
								fmt.Sprintf("program %s (%s): %s\n%s", pc.Prog.Name, l, o.ErrText, core.Trunc(pc.Text, 600)), rep)
						}
					}
				}
			}
			for i, m := range pc.Msgs {
				if o := cc.T.Out[fmt.Sprintf("DEC:%s.s0", m.ID)]; o != nil && o.Kind == "DEC" {
					if d := pc.R.Compare(pc.R.Root, pc.WireVals[i], o.Tree()); d != nil && d.Class == "member missing" {
						ctx.Report(fmt.Sprintf("%s|declared %s field has no member in the emitted type", l, d.Where()),
							fmt.Sprintf("program %s (%s): %s\n%s", pc.Prog.Name, l, d.String(), core.Trunc(pc.Text, 600)), rep)
						break
					}
				}
			}
		}
	}
	var mx []string
	for k, v := range matrix {
		var p []string
		for kk, n := range v {
			p = append(p, fmt.Sprintf("%s=%d", kk, n))
		}
		sort.Strings(p)
		mx = append(mx, k+": "+strings.Join(p, " "))
	}
	sort.Strings(mx)
	cov := st.coverage("cells = (program, option configuration, target) over all families incl. P4 identifier shapes and the length/match/checksum families, x the codec targets (Lua: see C15); per cell where Generate returned no error: "+
		"(a) the real target toolchain accepts the emitted files against the runtime, (b) every declared packet/field has its type/member (driver reflection / scraped declarations), (c) none of the generators' placeholder texts occurs; a generator error is the permitted outcome. distinct_nontrivial = distinct (target, construct class) pairs that build", cases)
	if len(mx) > 60 {
		mx = mx[:60]
	}
	cov["construct_target_matrix_excerpt"] = mx
	ctx.Assumes = append(ctx.Assumes, "'valid program of its target language' is decided by one compiler per language at one version (go 1.24, rustc 1.95, javac 17, g++ 12, python 3.11)",
		"GoPackage, GoModule and JavaPackage are always supplied")
	return ctx.Finish("exploration", cov)
}

func markerContext(txt, mk string) string {
	l := lineWith(txt, mk)
	return abstractIdents(strings.TrimSpace(l))
}

func lineWith(txt, mk string) string {
	for _, l := range strings.Split(txt, "\n") {
		if strings.Contains(l, mk) {
			return l
		}
	}
	return ""
}

var reIdent = regexp.MustCompile(`[A-Za-z_][A-Za-z_0-9]*`)

var keepWords = map[string]bool{"unsupport": true, "unsupported": true, "type": true, "not": true, "supported": true, "for": true, "encoding": true, "is": true, "unknow": true, "unknown": true, "unkown": true, "TODO": true, "numeric": true, "char": true, "string": true, "match": true}

func abstractIdents(s string) string {
	out := reIdent.ReplaceAllStringFunc(s, func(w string) string {
		if keepWords[w] {
			return w
		}
		return "X"
	})
	if len(out) > 80 {
		out = out[:80]
	}
	return out
}

// declKind describes a missing declaration ("notype Alpha" / "nomember Msg.Val") by its DSL kind.
func declKind(r *wire.RProgram, what, name string) string {
	if what == "notype" {
		return "packet type"
	}
	parts := strings.SplitN(name, ".", 2)
	if len(parts) == 2 {
		var find func(pk *wire.RPacket) *wire.RField
		find = func(pk *wire.RPacket) *wire.RField {
			if wire.Norm(pk.Name) == wire.Norm(parts[0]) {
				for _, f := range pk.Fields {
					if wire.Norm(f.Name) == wire.Norm(parts[1]) {
						return f
					}
				}
			}
			for _, f := range pk.Fields {
				if f.Kind == wire.KObj && f.Inline {
					if x := find(f.Packet); x != nil {
						return x
					}
				}
			}
			return nil
		}
		for _, pk := range r.Order {
			if f := find(pk); f != nil {
				k := f.Kind.String()
				if f.Kind == wire.KChar || f.Kind == wire.KInt || f.Kind == wire.KFloat {
					k = f.Type
				}
				if f.Repeat {
					k = "repeated " + k
				}
				return k + " field"
			}
		}
	}
	return "field"
}

// C17: emitted self-tests build and pass.
func C17(ctx *core.Ctx) int {
	var progs []*dsl.Program
	if ctx.Thorough() {
		progs = codecPrograms(ctx)
		progs = append(progs, withPoints(dsl.P4(), lePoint)...)
	} else {
		var o1first [][]dsl.OptDeviation
		o1first = append(o1first, nil, []dsl.OptDeviation{{Name: "LittleEndian", Value: "true"}})
		progs = append(progs, withPoints(dsl.P1(), o1first)...)
		progs = append(progs, dsl.P2()...)
		progs = append(progs, dsl.P3()...)
		progs = append(progs, dsl.P5()...)
		progs = append(progs, dsl.P6()...)
		progs = append(progs, dsl.P4()...)
		progs = append(progs, targetedFamilies()...)
	}
	progs = replayFilter(ctx, progs)
	langs := devLangs()
	env := targetEnv(ctx)
	type cellT struct {
		p    *dsl.Program
		text string
		lang string
		t    *targets.Cell
		gen  string
	}
	var cells []*cellT
	var mu sync.Mutex
	byLang := map[string][]*targets.Cell{}
	type job struct {
		p    *dsl.Program
		lang string
	}
	var jobs []job
	for _, p := range progs {
		for _, l := range langs {
			jobs = append(jobs, job{p, l})
		}
	}
	var notAccepted int
	core.Parallel(len(jobs), func(i int) {
		j := jobs[i]
		text := j.p.Text()
		m, diags, err := parseText(ctx, text)
		if err != nil || len(diags) > 0 || api.Cyclic(m) {
			mu.Lock()
			notAccepted++
			mu.Unlock()
			return
		}
		files, err := api.Generate(m, j.lang)
		c := &cellT{p: j.p, text: text, lang: j.lang}
		if err != nil {
			c.gen = errClass(err)
		} else {
			r, rerr := wire.Resolve(j.p)
			if rerr != nil {
				core.HarnessError("resolve %s: %v", j.p.Name, rerr)
			}
			c.t = &targets.Cell{Name: j.p.Name, Lang: j.lang, Files: files, Meta: optMeta(j.p), R: r}
		}
		mu.Lock()
		cells = append(cells, c)
		if c.t != nil {
			byLang[j.lang] = append(byLang[j.lang], c.t)
		}
		mu.Unlock()
	})
	// the CLI's way as well: one model, generators in fixed order; a target whose files then differ from
	// the fresh-parse ones gets a second cell (generator interference reaches the emitted tests too)
	{
		type pj struct{ p *dsl.Program }
		var uniqP []*dsl.Program
		seenP := map[string]bool{}
		for _, c := range cells {
			if !seenP[c.p.Name] {
				seenP[c.p.Name] = true
				uniqP = append(uniqP, c.p)
			}
		}
		fresh := map[string]*cellT{}
		for _, c := range cells {
			fresh[c.p.Name+"|"+c.lang] = c
		}
		core.Parallel(len(uniqP), func(i int) {
			p := uniqP[i]
			text := p.Text()
			m, diags, err := parseText(ctx, text)
			if err != nil || len(diags) > 0 || api.Cyclic(m) {
				return
			}
			for _, l := range api.Langs {
				files, err := api.Generate(m, l)
				mu.Lock()
				f := fresh[p.Name+"|"+l]
				mu.Unlock()
				if err != nil || f == nil || f.t == nil || treeString(files) == treeString(f.t.Files) {
					continue
				}
				c := &cellT{p: p, text: text, lang: l + SeqSuffix}
				c.t = &targets.Cell{Name: p.Name + SeqSuffix, Lang: l, Files: files, Meta: optMeta(p), R: f.t.R}
				mu.Lock()
				cells = append(cells, c)
				byLang[l] = append(byLang[l], c.t)
				mu.Unlock()
			}
		})
	}
	var wg sync.WaitGroup
	for _, l := range langs {
		if t, ok := targets.All[l]; ok {
			cs := byLang[l]
			sort.Slice(cs, func(a, b int) bool { return cs[a].Name < cs[b].Name })
			wg.Add(1)
			go func(t targets.Target, cs []*targets.Cell) { defer wg.Done(); t.RunTests(env, cs) }(t, cs)
		}
	}
	wg.Wait()
	passed, ran := 0, 0
	distinct := map[string]bool{}
	testFailsAtDefault := map[string]bool{}
	for _, c := range cells {
		if c.t != nil && !c.t.TestOK && !strings.Contains(c.p.Name, "{") && !strings.Contains(c.t.TestLog, "timeout after") {
			testFailsAtDefault[c.lang+"|"+c.p.Name] = true
		}
	}
	for _, c := range cells {
		if c.t == nil {
			continue
		}
		rep := map[string]any{"name": c.p.Name, "lang": c.lang, "text": c.text}
		ran += c.t.TestRan
		if strings.HasPrefix(c.t.TestLog, "harness:") {
			core.HarnessError("target %s: %s", c.lang, core.Trunc(c.t.TestLog, 600))
		}
		if !c.t.TestOK && strings.Contains(c.t.TestLog, "timeout after") {
			continue // wall-clock limit of the runner process: not a verdict
		}
		switch {
		case c.t.TestOK:
			passed++
			distinct[c.lang+":"+progClass(c.p.Name)] = true
			// a test for every declared packet
			want := len(c.p.Packets)
			if c.t.TestRan < want {
				ctx.Report(fmt.Sprintf("%s|fewer emitted tests ran than packets are declared", c.lang),
					fmt.Sprintf("program %s (%s): %d tests ran, %d packets declared\n%s", c.p.Name, c.lang, c.t.TestRan, want, core.Trunc(c.t.TestLog, 800)), rep)
			}
		case c.t.TestRan == 0 && !strings.Contains(strings.ToLower(c.t.TestLog), "error") && !strings.Contains(c.t.TestLog, "FAIL"):
			ctx.Report(fmt.Sprintf("%s|no emitted test ran|%s", c.lang, cellName(c.p.Name, testFailsAtDefault[c.lang+"|"+baseProgName(c.p.Name)])),
				fmt.Sprintf("program %s (%s): %s\n%s", c.p.Name, c.lang, buildSig(c.lang, c.t.TestLog), core.Trunc(c.t.TestLog, 1200)), rep)
		default:
			ctx.Report(fmt.Sprintf("%s|emitted self-test does not build or fails|%s|%s", c.lang, testOutcome(c.lang, c.t.TestLog), cellName(c.p.Name, testFailsAtDefault[c.lang+"|"+baseProgName(c.p.Name)])),
				fmt.Sprintf("program %s (%s): %s\n%s\n--- DSL\n%s", c.p.Name, c.lang, testSig(c.lang, c.t.TestLog), core.Trunc(c.t.TestLog, 1500), core.Trunc(c.text, 600)), rep)
		}
	}
	samples := []any{}
	for i := 0; i < len(cells) && len(samples) < 5; i += len(cells)/5 + 1 {
		samples = append(samples, map[string]any{"program": cells[i].p.Name, "lang": cells[i].lang, "tests_ran": func() int {
			if cells[i].t != nil {
				return cells[i].t.TestRan
			}
			return 0
		}()})
	}
	cov := core.Coverage{
		"evaluations":         len(cells),
		"distinct_nontrivial": len(distinct),
		"rule": "cells = (program, option configuration, codec target) over P1 (default and LittleEndian), P2, P3, P4, P5, P6 (thorough: the whole codec program space); the emitted self-tests are built and run with the language's own runner (go test + real testify, rustc --test, python unittest) or a minimal stand-in (JUnit, gtest); " +
			"oracle: builds, every emitted test ran and passed, at least one test per declared packet. distinct_nontrivial = distinct (target, construct class) pairs whose tests pass",
		"samples":        samples,
		"cells_passing":  passed,
		"tests_executed": ran,
		"program_target_pairs_not_accepted_or_cyclic": notAccepted,
		"exhaustive": true,
	}
	ctx.Assumes = append(ctx.Assumes, "JUnit and gtest are minimal stand-ins for the assertion API the emitted tests use", "sample population (nested / repeated / payload members really filled) is not yet observed separately")
	return ctx.Finish("exploration", cov)
}

// Signatures of whole-cell failures (the emitted code of a program does not build / dies / its tests fail) name
// what a user can observe and reproduce - target, outcome, program - and not the text of the toolchain's first
// diagnostic or of a test's name: a change of the emitted text that keeps the behaviour (a renamed local, a
// reworded comment, a renamed test case) changes those texts for cells that fail already, and must not turn a
// recorded finding into a new alarm.  The diagnostic is in the detail.  A program that fails under its default
// configuration is named without configuration (it fails under the others too); one that fails only under some
// option setting is named with it.

func baseProgName(name string) string {
	if i := strings.Index(name, "{"); i > 0 {
		return name[:i]
	}
	return name
}

func cellName(name string, failsAtDefault bool) string {
	if failsAtDefault {
		return baseProgName(name)
	}
	return name
}

var reTestWord = regexp.MustCompile(`[A-Z]?[a-z0-9]+|[A-Z]+`)

// testOutcome: "does not build", or "tests fail for <packets>" with the packets recovered from the names of the
// failing tests (whatever the naming convention of the emitted test is).
func testOutcome(lang, log string) string {
	s := testSig(lang, log)
	if !strings.HasPrefix(s, "tests fail: ") {
		return "does not build"
	}
	var pk []string
	for _, t := range strings.Split(strings.TrimPrefix(s, "tests fail: "), ", ") {
		if i := strings.Index(t, " "); i > 0 {
			t = t[:i] // drop the throwable of the JUnit stand-in
		}
		var words []string
		for _, w := range reTestWord.FindAllString(t, -1) {
			switch lw := strings.ToLower(w); lw {
			case "test", "tests", "codec", "encode", "decode", "deocde", "and", "roundtrip", "round", "trip":
			default:
				if len(words) == 0 || words[len(words)-1] != lw {
					words = append(words, lw)
				}
			}
		}
		pk = append(pk, strings.Join(uniq(words), ""))
	}
	return "tests fail for " + strings.Join(uniq(pk), ", ")
}

var reFailedTests = []*regexp.Regexp{
	regexp.MustCompile(`(?m)^\[ DONE \] (\S+) FAILED`),                                              // gtest stand-in
	regexp.MustCompile(`(?m)^FAIL (?:[a-z0-9_]+\.)*([A-Za-z_0-9]+\.[A-Za-z_0-9]+) (\S+?):?(?: |$)`), // JUnit stand-in: class.method + throwable
	regexp.MustCompile(`(?m)^\s*--- FAIL: (\S+)`),                                                   // go test
	regexp.MustCompile(`(?m)^(\w+) \((?:\w+\.)*(\w+)\.\w+\) \.\.\. (?:FAIL|ERROR)`),                 // python unittest -v
	regexp.MustCompile(`(?m)^test (\S+) \.\.\. FAILED`),                                             // rustc --test
}

// testSig names what went wrong with the emitted self-tests: the failing tests (when tests ran) or
// the first toolchain diagnostic (when they did not build).
func testSig(lang, log string) string {
	var failed []string
	for _, re := range reFailedTests {
		for _, m := range re.FindAllStringSubmatch(log, -1) {
			f := m[1]
			if len(m) > 2 && m[2] != "" {
				f += " " + m[2]
			}
			failed = append(failed, f)
		}
	}
	if len(failed) > 0 {
		failed = uniq(failed)
		if len(failed) > 4 {
			failed = append(failed[:4], "...")
		}
		return "tests fail: " + strings.Join(failed, ", ")
	}
	var rest []string
	for _, l := range strings.Split(log, "\n") {
		if strings.HasPrefix(l, "build of ") || strings.TrimSpace(l) == "" {
			continue
		}
		rest = append(rest, l)
	}
	return "does not build: " + buildSig(lang, strings.Join(rest, "\n"))
}
