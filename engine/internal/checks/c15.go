package checks

import (
	"fmt"
	"regexp"
	"strings"
	"sync"
	"sync/atomic"

	api "github.com/xinchentechnote/fin-protoc/verifapi"
	"verif/engine/internal/core"
	"verif/engine/internal/dsl"
	"verif/engine/internal/luai"
	"verif/engine/internal/wire"
)

func init() { Registry["C15"] = C15 }

var reNilCall = regexp.MustCompile(`attempt to call a nil value \('([A-Za-z_0-9]+)'\)`)

var reNonAlnum = regexp.MustCompile(`[^a-z0-9]`)

func normAbbr(s string) string { return reNonAlnum.ReplaceAllString(strings.ToLower(s), "") }

func luaErrClass(err error) string {
	s := err.Error()
	// drop positions and concrete names
	s = regexp.MustCompile(`\(line \d+\)`).ReplaceAllString(s, "")
	s = regexp.MustCompile(`line \d+`).ReplaceAllString(s, "line N")
	s = regexp.MustCompile(`'[A-Za-z_0-9.]+'`).ReplaceAllString(s, "'X'")
	s = regexp.MustCompile(`\d+`).ReplaceAllString(s, "N")
	if len(s) > 100 {
		s = s[:100]
	}
	return strings.TrimSpace(s)
}

// C15: the Wireshark dissector attributes each field its true byte range.
func C15(ctx *core.Ctx) int {
	var progs []*dsl.Program
	add := func(ps []*dsl.Program, pts [][]dsl.OptDeviation) { progs = append(progs, withPoints(ps, pts)...) }
	var o1first [][]dsl.OptDeviation
	o1first = append(o1first, nil)
	for _, n := range []string{"LittleEndian", "StringPrefixLenType", "ArrayPrefixLenType"} {
		for vi, v := range dsl.OptionValues[n][1:] {
			if vi == 0 || ctx.Thorough() {
				o1first = append(o1first, []dsl.OptDeviation{{Name: n, Value: v}})
			}
		}
	}
	if ctx.Thorough() {
		o1first = append(o1first, []dsl.OptDeviation{{Name: "LittleEndian", Value: "true"}, {Name: "StringPrefixLenType", Value: "u32"}, {Name: "ArrayPrefixLenType", Value: "u8"}})
	}
	add(dsl.P1(), o1first)
	add(dsl.P6(), o1first)
	add([]*dsl.Program{dsl.Universal()}, o1first)
	add(dsl.P2(), lePoint[:1])
	add(dsl.P3(), lePoint)
	add(dsl.P5(), lePoint)
	progs = replayFilter(ctx, progs)
	cases := buildCases(ctx, progs, maxDevFor(ctx))
	var evals, unobs, loaded int64
	blockers := sync.Map{}
	distinct := sync.Map{}
	core.Parallel(len(cases), func(ci int) {
		pc := cases[ci]
		if !pc.Accepted {
			atomic.AddInt64(&unobs, 1)
			blockers.Store("program not accepted: "+pc.Reject, true)
			return
		}
		m, _, err := parseText(ctx, pc.Text)
		if err != nil {
			return
		}
		files, err := api.Generate(m, "lua")
		if err != nil {
			atomic.AddInt64(&unobs, 1)
			blockers.Store("generator failed: "+errClass(err), true)
			return
		}
		var script string
		for n, b := range files {
			if strings.HasSuffix(n, ".lua") {
				script = string(b)
			}
		}
		rep := func(extra map[string]any) map[string]any {
			r := map[string]any{"name": pc.Prog.Name, "text": pc.Text}
			for k, v := range extra {
				r[k] = v
			}
			return r
		}
		host, err := luai.Load(script)
		if err != nil {
			ctx.Report(fmt.Sprintf("the emitted script does not load|%s|%s", luaErrClass(err), progClass(pc.Prog.Name)),
				fmt.Sprintf("program %s: %v\n--- DSL\n%s\n--- script (head)\n%s", pc.Prog.Name, err, core.Trunc(pc.Text, 500), core.Trunc(script, 1500)), rep(nil))
			return
		}
		atomic.AddInt64(&loaded, 1)
		for i, msg := range pc.Msgs {
			enc := pc.Encs[i]
			atomic.AddInt64(&evals, 1)
			s, locals, err := host.Dissect(enc.Bytes)
			mrep := rep(map[string]any{"message": msg.ID, "bytes": hexOf(enc.Bytes), "value": pc.R.FormatValue(nil, pc.R.Root, msg.Val)})
			if err != nil {
				where := c15Compare(pc, enc, s)
				if where == "" {
					where = "after every leaf field was displayed"
				} else {
					where = "before: " + where
				}
				cls := luaErrClass(err)
				if m := reNilCall.FindStringSubmatch(err.Error()); m != nil {
					// a function that is declared further down the script (Lua's local-function scoping) vs one that exists nowhere
					if strings.Contains(script, "function "+m[1]+"(") {
						cls += " [the function is declared later in the script]"
					} else {
						cls += " [no function of that name is defined anywhere in the script]"
					}
				}
				ctx.Report(fmt.Sprintf("the dissector aborts|%s|%s", cls, where)+shapeSuffix(pc.Prog.Name),
					fmt.Sprintf("program %s message %s bytes %s: %v\n%s", pc.Prog.Name, msg.ID, core.Trunc(hexOf(enc.Bytes), 200), err, core.Trunc(pc.Text, 600)), mrep)
				continue
			}
			distinct.Store(core.Hash(fmt.Sprint(s.Adds)), true)
			if d := c15Compare(pc, enc, s); d != "" {
				ctx.Report(d+shapeSuffix(pc.Prog.Name),
					fmt.Sprintf("program %s message %s bytes %s\nrecorded adds: %s\n%s", pc.Prog.Name, msg.ID, core.Trunc(hexOf(enc.Bytes), 200), core.Trunc(fmtAdds(s.Adds), 900), core.Trunc(pc.Text, 600)), mrep)
				continue
			}
			off, ok := locals["offset"].(float64)
			if !ok {
				ctx.Report("the dissector keeps no running offset named 'offset' (harness cannot observe the final offset)", pc.Prog.Name, mrep)
			} else if int(off) != len(enc.Bytes) {
				ctx.Report("the dissector finishes at offset != message length although every leaf field was placed correctly|last root field is "+lastRootKind(pc),
					fmt.Sprintf("program %s message %s: final offset %d, message length %d\n%s", pc.Prog.Name, msg.ID, int(off), len(enc.Bytes), core.Trunc(pc.Text, 600)), mrep)
			}
		}
	})
	nd := 0
	distinct.Range(func(k, v any) bool { nd++; return true })
	var bl []string
	blockers.Range(func(k, v any) bool { bl = append(bl, k.(string)); return true })
	samples := []any{}
	for i := 0; i < len(cases) && len(samples) < 5; i += len(cases)/5 + 1 {
		samples = append(samples, map[string]any{"program": cases[i].Prog.Name, "messages": len(cases[i].Msgs), "text": core.Trunc(cases[i].Text, 300)})
	}
	cov := core.Coverage{
		"evaluations":         evals,
		"distinct_nontrivial": nd,
		"rule": "programs = P1 singles under byte order / prefix-type deviations, P2 pairs, P3 nesting, P5 graphs, P6 repository protocols, the universal packet; messages = every message with <= 1 (quick) / <= 2 (thorough) members off the baseline (all list lengths 0/1/2/3, string lengths, payload alternatives); " +
			"the emitted script is interpreted (Lua-subset interpreter with Lua's lexical scoping + recording Wireshark stubs) over the reference encoding; oracle: every leaf field and every prefix is added with exactly its byte range of the reference layout, every buf(offset,len) lies inside the message, integer display uses the configured byte order, the running offset ends at the message length, no call of a nil value. distinct_nontrivial = distinct recorded dissection trees",
		"samples":                samples,
		"program_configurations": len(cases),
		"scripts_loaded":         loaded,
		"unobservable_programs":  unobs,
		"unobservable_because":   bl,
		"exhaustive":             true,
	}
	ctx.Assumes = append(ctx.Assumes, "the emitted Lua is run by an interpreter for the subset the generator prints, not by Wireshark; 64-bit reads are modelled as numbers (more permissive than Wireshark's UInt64 userdata)",
		"the byte range of an object / payload subtree item is not checked (only leaf fields and prefixes)", "ProtoField.int is provided although Wireshark has no such constructor (permissive stub)")
	return ctx.Finish("exploration", cov)
}

// shapeSuffix names the hand-written shapes (P5, P6) in a signature: each is its own situation, and a known
// finding in one of them must not mask a new defect in another. The systematic families are named by situation only.
func shapeSuffix(name string) string {
	c := progClass(name)
	for _, fam := range []string{"P5/", "P6/", "F/", "M/", "L/", "K/"} {
		if strings.HasPrefix(c, fam) {
			return "|" + c
		}
	}
	return ""
}

// reachedVia says how the root packet reaches a nested packet: through a match on a key of some type, or as an object member.
func reachedVia(r *wire.RProgram, owner string) string {
	for _, f := range r.Root.Fields {
		switch f.Kind {
		case wire.KMatch:
			for _, row := range f.Table {
				if row.Packet == owner {
					if key := r.Root.FieldByName(f.KeyName); key != nil {
						k := key.Kind.String()
						if key.Type != "" {
							k = key.Type
						}
						return ", payload of a match on a " + k + " key"
					}
				}
			}
		case wire.KObj:
			if f.Packet != nil && f.Packet.Name == owner {
				return ", object member"
			}
		}
	}
	return ""
}

func lastRootKind(pc *ProgCase) string {
	fs := pc.R.Root.Fields
	if len(fs) == 0 {
		return "none"
	}
	f := fs[len(fs)-1]
	k := f.Kind.String()
	if f.Kind == wire.KObj && f.Inline {
		k = "inline obj"
	}
	if f.Repeat {
		k = "repeated " + k
	}
	return k
}

func fmtAdds(adds []luai.AddRec) string {
	var p []string
	for _, a := range adds {
		le := ""
		if a.LE {
			le = " le"
		}
		p = append(p, fmt.Sprintf("%s %s%s @%d+%d%s", a.What, a.Abbr, a.Text, a.Off, a.Len, le))
	}
	return strings.Join(p, "; ")
}

// c15Compare returns "" or the signature part describing the first misplaced leaf.
func c15Compare(pc *ProgCase, enc *wire.Encoding, s *luai.Session) string {
	type rec struct {
		off, ln int
		le      bool
	}
	fields := map[string][]rec{}
	var texts []rec
	for _, a := range s.Adds {
		if a.NoRange {
			continue
		}
		switch a.What {
		case "field":
			fields[normAbbr(a.Abbr)] = append(fields[normAbbr(a.Abbr)], rec{a.Off, a.Len, a.LE})
		case "text":
			texts = append(texts, rec{a.Off, a.Len, a.LE})
		}
	}
	used := map[string]map[int]bool{}
	for _, sp := range enc.Layout {
		kind := sp.Kind.String()
		if sp.Repeat {
			kind = "repeated " + kind
		}
		if sp.Owner != pc.R.Root.Name {
			kind += " (in a nested packet" + reachedVia(pc.R, sp.Owner) + ")"
		}
		for _, o := range enc.Layout {
			if o.What == "object" && o.Off+o.Len <= sp.Off && !(o.Off == sp.Off && o.Len == 0) {
				kind += " (after a sub-dissected object/payload)"
				break
			}
		}
		switch sp.What {
		case "value":
			switch sp.Kind {
			case wire.KInt, wire.KFloat, wire.KChar, wire.KFixStr, wire.KDynStr, wire.KLenOf, wire.KChecksum:
			default:
				continue
			}
			key := normAbbr(sp.Owner) + normAbbr(sp.FName)
			cands := fields[key]
			if len(cands) == 0 {
				return fmt.Sprintf("%s field is not displayed at all", kind)
			}
			found := -1
			for ci, c := range cands {
				if c.off == sp.Off && c.ln == sp.Len && !used[key][ci] {
					found = ci
					break
				}
			}
			if found < 0 {
				sameLen, sameOff := false, false
				for _, c := range cands {
					if c.ln == sp.Len {
						sameLen = true
					}
					if c.off == sp.Off {
						sameOff = true
					}
				}
				switch {
				case sameOff:
					return fmt.Sprintf("%s field displayed with a wrong length", kind)
				case sameLen:
					return fmt.Sprintf("%s field displayed at a drifted offset", kind)
				}
				return fmt.Sprintf("%s field displayed at a wrong offset and length", kind)
			}
			if used[key] == nil {
				used[key] = map[int]bool{}
			}
			used[key][found] = true
			if (sp.Kind == wire.KInt || sp.Kind == wire.KFloat || sp.Kind == wire.KLenOf || sp.Kind == wire.KChecksum) && sp.Len > 1 && cands[found].le != pc.R.Cfg.LE {
				return fmt.Sprintf("%s field displayed with the wrong byte order", kind)
			}
		case "length-prefix", "count-prefix":
			ok := false
			for _, t := range texts {
				if t.off == sp.Off && t.ln == sp.Len {
					ok = true
				}
			}
			if !ok {
				return fmt.Sprintf("%s %s is not attributed its byte range", kind, sp.What)
			}
		}
	}
	// extra field adds that the layout does not have
	for key, cands := range fields {
		for ci := range cands {
			if !used[key][ci] {
				return "a field is displayed more often than it occurs on the wire"
			}
		}
	}
	return ""
}
