package checks

import (
	"encoding/json"
	"os"

	api "github.com/xinchentechnote/fin-protoc/verifapi"
	"verif/engine/internal/core"
	"verif/engine/internal/dsl"
)

// corpusPrograms returns the E1 programs used by the text-level checks.
func corpusPrograms(ctx *core.Ctx) []*dsl.Program {
	var out []*dsl.Program
	out = append(out, dsl.P1()...)
	out = append(out, dsl.P2()...)
	out = append(out, dsl.P3()...)
	out = append(out, dsl.P4()...)
	out = append(out, dsl.P5()...)
	out = append(out, dsl.Universal())
	return out
}

// replayText re-runs a single text case from a replay artefact.
func replayText(ctx *core.Ctx, f func(*core.Ctx, Text)) int {
	b, err := os.ReadFile(ctx.Replay)
	if err != nil {
		core.HarnessError("replay: %v", err)
	}
	var r struct {
		Replay struct {
			Name string   `json:"name"`
			Text string   `json:"text"`
			Toks []string `json:"toks"`
		} `json:"replay"`
	}
	if err := json.Unmarshal(b, &r); err != nil {
		core.HarnessError("replay: %v", err)
	}
	f(ctx, Text{Name: r.Replay.Name, Toks: r.Replay.Toks})
	return ctx.Finish("exploration", core.Coverage{"evaluations": 1, "distinct_nontrivial": 0, "rule": "replay", "samples": []any{r.Replay.Name}})
}

// Worker is the subprocess entry point (inputs on stdin, one JSON verdict per line).
func Worker() {}

// parseText runs the real parser.ParseFile on text (through a scratch file, removed afterwards).
func parseText(ctx *core.Ctx, text string) (*api.Model, []api.Diag, error) {
	p := ctx.TempPath(".dsl")
	defer os.Remove(p)
	return api.ParseText(p, text)
}
