package checks

import (
	"context"
	"encoding/json"
	"os"
	"os/exec"
	"time"

	api "github.com/xinchentechnote/fin-protoc/verifapi"
	"verif/engine/internal/core"
	"verif/engine/internal/dsl"
)

// corpusPrograms returns the E1 programs used by the text-level checks.
func corpusPrograms(ctx *core.Ctx) []*dsl.Program {
	var out []*dsl.Program
	out = append(out, dsl.P1()...)
	out = append(out, dsl.P2()...)
	out = append(out, dsl.P3()...)
	out = append(out, dsl.P4()...)
	out = append(out, dsl.P5()...)
	out = append(out, dsl.P6()...)
	out = append(out, dsl.Universal())
	// the targeted shapes (keys at the extremes of their type, leading zeros, alias spellings ...) are texts like any other
	out = append(out, targetedFamilies()...)
	return out
}

// replayText re-runs a single text case from a replay artefact.
func replayText(ctx *core.Ctx, f func(*core.Ctx, Text)) int {
	b, err := os.ReadFile(ctx.Replay)
	if err != nil {
		core.HarnessError("replay: %v", err)
	}
	var r struct {
		Replay struct {
			Name string   `json:"name"`
			Text string   `json:"text"`
			Toks []string `json:"toks"`
		} `json:"replay"`
	}
	if err := json.Unmarshal(b, &r); err != nil {
		core.HarnessError("replay: %v", err)
	}
	f(ctx, Text{Name: r.Replay.Name, Toks: r.Replay.Toks})
	return ctx.Finish("exploration", core.Coverage{"evaluations": 1, "distinct_nontrivial": 0, "rule": "replay", "samples": []any{r.Replay.Name}})
}

// parseText runs the real parser.ParseFile on text (through a scratch file, removed afterwards).
func parseText(ctx *core.Ctx, text string) (*api.Model, []api.Diag, error) {
	p := ctx.TempPath(".dsl")
	defer os.Remove(p)
	return api.ParseText(p, text)
}

// readReplay loads a replay artefact into v.
func readReplay(ctx *core.Ctx, v any) {
	b, err := os.ReadFile(ctx.Replay)
	if err != nil {
		core.HarnessError("replay: %v", err)
	}
	if err := json.Unmarshal(b, v); err != nil {
		core.HarnessError("replay: %v", err)
	}
}

// cmdWithTimeout builds a command that is killed after d.
func cmdWithTimeout(d time.Duration, name string, args ...string) (context.Context, *exec.Cmd) {
	cctx, cancel := context.WithTimeout(context.Background(), d)
	_ = cancel
	return cctx, exec.CommandContext(cctx, name, args...)
}
