package checks

import (
	"encoding/hex"
	"fmt"
	"path/filepath"
	"sort"
	"strings"
	"sync"

	api "github.com/xinchentechnote/fin-protoc/verifapi"
	"verif/engine/internal/core"
	"verif/engine/internal/dsl"
	"verif/engine/internal/targets"
	"verif/engine/internal/wire"
)

// CodecLangs are the five codec targets.
var CodecLangs = []string{"go", "rust", "java", "python", "cpp"}

// ProgCase is one (program, configuration) with its reference data.
type ProgCase struct {
	Prog     *dsl.Program
	Text     string
	R        *wire.RProgram
	Accepted bool
	Reject   string // why the tool does not accept it (diagnostic / crash)
	Msgs     []*wire.Message
	Encs     []*wire.Encoding
	WireVals []*wire.Value
	// unmapped keys of the first match field of the root
	UnmappedHex []string
	RegSeqs     []regSeq   // C06: checksum-registry operation sequences (regseq.go)
	Reuse       []reuseRun // C05: decodes into an object that already holds a payload (reuse.go)
	Off         []offRun   // encodes into / decodes from buffers that are not in their initial state (offset.go)
	Cells       map[string]*CodecCell
}

// CodecCell is one (program, configuration, target).
type CodecCell struct {
	PC     *ProgCase
	Lang   string
	GenErr string // generator returned an error or panicked
	T      *targets.Cell
}

var suffixes = []string{"", "ffffff", "00"}

// Observable reports whether the emitted code was built and driven.
func (c *CodecCell) Observable() bool {
	return c.GenErr == "" && c.T != nil && c.T.Stage == "" && c.T.Out != nil
}

// Blocker says why a cell is unobservable.
func (c *CodecCell) Blocker() string {
	switch {
	case !c.PC.Accepted:
		return "program not accepted: " + c.PC.Reject
	case c.GenErr != "":
		return "generator failed: " + c.GenErr
	case c.T == nil:
		return "not run"
	case c.T.Stage != "":
		return c.T.Stage + " failed: " + buildSig(c.Lang, c.T.BuildLog)
	}
	return ""
}

func targetEnv(ctx *core.Ctx) *targets.Env {
	return &targets.Env{VerifDir: ctx.VerifDir, Scratch: ctx.Scratch, CacheDir: filepath.Join(ctx.VerifDir, "build", "cache")}
}

// buildCases resolves, checks acceptance, enumerates messages and computes reference encodings.
func buildCases(ctx *core.Ctx, progs []*dsl.Program, maxDev int) []*ProgCase {
	cases := make([]*ProgCase, len(progs))
	core.Parallel(len(progs), func(i int) {
		p := progs[i]
		pc := &ProgCase{Prog: p, Text: p.Text(), Cells: map[string]*CodecCell{}}
		cases[i] = pc
		r, err := wire.Resolve(p)
		if err != nil {
			core.HarnessError("program %s does not resolve in the reference model: %v", p.Name, err)
		}
		pc.R = r
		m, diags, err := parseText(ctx, pc.Text)
		switch {
		case err != nil:
			pc.Reject = errClass(err)
		case len(diags) > 0:
			pc.Reject = "diagnostic: " + normDiag(diags[0].Msg)
		case api.Cyclic(m):
			pc.Reject = "cyclic packet graph (generators do not terminate: C11)"
		default:
			pc.Accepted = true
		}
		msgs := r.Messages(maxDev)
		msgs = append(msgs, r.BoundaryLengthMessages(msgs)...)
		for _, msg := range msgs {
			enc := r.Encode(msg)
			if enc.Err != "" {
				core.HarnessError("reference encoder fails on %s %s: %s", p.Name, msg.ID, enc.Err)
			}
			if enc.OutOfDomain {
				continue // a length-of target larger than its length field can express: outside the value domain
			}
			pc.Msgs = append(pc.Msgs, msg)
			pc.Encs = append(pc.Encs, enc)
			pc.WireVals = append(pc.WireVals, r.WireValue(msg, enc))
		}
		if regSequencesOn {
			buildRegSeqs(pc, regDepth(ctx))
		}
		buildOffRuns(pc)
		// unmapped keys: the baseline message with the key member replaced
		if mf, key, vals := r.UnmappedKeys(); mf != nil && len(pc.Msgs) > 0 {
			// ... carried by the first message of every payload alternative: an unmapped key must fail whatever follows
			// it on the wire - a body of another alternative, or none at all (an empty packet: a frame of length 0)
			bases := []*wire.Message{pc.Msgs[0]}
			mfIdx := -1
			for j, f := range r.Root.Fields {
				if f == mf {
					mfIdx = j
				}
			}
			seenAlt := map[string]bool{}
			if mfIdx >= 0 && mfIdx < len(pc.Msgs[0].Val.Fields) && pc.Msgs[0].Val.Fields[mfIdx] != nil {
				seenAlt[pc.Msgs[0].Val.Fields[mfIdx].Packet] = true
				for _, m := range pc.Msgs[1:] {
					if mfIdx < len(m.Val.Fields) && m.Val.Fields[mfIdx] != nil && !seenAlt[m.Val.Fields[mfIdx].Packet] {
						seenAlt[m.Val.Fields[mfIdx].Packet] = true
						bases = append(bases, m)
					}
				}
			}
			seenHex := map[string]bool{}
			for _, base := range bases {
				for _, kv := range vals {
					v := *base.Val
					v.Fields = append([]*wire.Value(nil), base.Val.Fields...)
					for j, f := range r.Root.Fields {
						if f.Name == key.Name {
							v.Fields[j] = kv
						}
					}
					enc := r.Encode(&wire.Message{ID: "u", Packet: r.Root.Name, Val: &v})
					if h := hex.EncodeToString(enc.Bytes); enc.Err == "" && !seenHex[h] {
						seenHex[h] = true
						pc.UnmappedHex = append(pc.UnmappedHex, h)
					}
				}
			}
		}
		if len(pc.Msgs) > 0 {
			buildReuseRuns(pc)
		}
	})
	return cases
}

func optMeta(p *dsl.Program) map[string]string {
	m := map[string]string{}
	for _, k := range []string{"GoPackage", "GoModule", "JavaPackage"} {
		if v, ok := p.OptValue(k); ok {
			m[k] = strings.Trim(v, `"`)
		}
	}
	if rp := p.RootPacket(); rp != nil {
		m["Root"] = rp.Name
	}
	var names []string
	for _, pk := range p.Packets {
		names = append(names, pk.Name)
	}
	m["Packets"] = strings.Join(names, ",")
	return m
}

// driverInput builds the command script for a case.
func driverInput(pc *ProgCase) []string {
	var in []string
	r := pc.R
	for i, m := range pc.Msgs {
		in = append(in, fmt.Sprintf("ENC %s %s", m.ID, r.FormatValue(nil, r.Root, m.Val)))
		h := hex.EncodeToString(pc.Encs[i].Bytes)
		for si, s := range suffixes {
			if si >= 2 && i >= 3 {
				continue
			}
			in = append(in, fmt.Sprintf("DEC %s.s%d %s %s", m.ID, si, r.Root.Name, h+s))
		}
		if i < 2 {
			in = append(in, fmt.Sprintf("DEC %s.s3 %s %s", m.ID, r.Root.Name, h+h))
		}
	}
	for k, h := range pc.UnmappedHex {
		in = append(in, fmt.Sprintf("DEC u%d %s %s", k, r.Root.Name, h))
	}
	in = append(in, offInput(pc)...)
	in = append(in, reuseInput(pc)...)
	in = append(in, regInput(pc)...)
	return in
}

// SeqSuffix marks a cell whose files were generated after all other targets on one shared model
// (the CLI's order): such a cell exists only where those files differ from the fresh-parse ones.
const SeqSuffix = "@after-other-targets"

func baseLang(l string) string { return strings.TrimSuffix(l, SeqSuffix) }

// runCodec generates (fresh parse per target), builds and drives every (case, lang). It returns the
// language list extended by pseudo-languages "<lang>@after-other-targets" for which at least one
// program's files depend on the generators run before (generator interference, C14's subject, is
// thereby also exercised by the codec checks instead of being invisible to them).
func runCodec(ctx *core.Ctx, cases []*ProgCase, langs []string) []string {
	env := targetEnv(ctx)
	var mu sync.Mutex
	type job struct {
		pc   *ProgCase
		lang string
	}
	var jobs []job
	for _, pc := range cases {
		for _, l := range langs {
			jobs = append(jobs, job{pc, l})
		}
	}
	byLang := map[string][]*targets.Cell{}
	core.Parallel(len(jobs), func(i int) {
		j := jobs[i]
		cc := &CodecCell{PC: j.pc, Lang: j.lang}
		mu.Lock()
		j.pc.Cells[j.lang] = cc
		mu.Unlock()
		if !j.pc.Accepted {
			return
		}
		m, _, err := parseText(ctx, j.pc.Text)
		if err != nil {
			cc.GenErr = errClass(err)
			return
		}
		files, err := api.Generate(m, j.lang)
		if err != nil {
			cc.GenErr = errClass(err)
			return
		}
		cc.T = &targets.Cell{Name: j.pc.Prog.Name, Lang: j.lang, Files: files, Meta: optMeta(j.pc.Prog), Input: driverInput(j.pc), R: j.pc.R}
		mu.Lock()
		byLang[j.lang] = append(byLang[j.lang], cc.T)
		mu.Unlock()
	})
	// the CLI's way: one model, generators in fixed order
	extra := map[string]bool{}
	core.Parallel(len(cases), func(i int) {
		pc := cases[i]
		if !pc.Accepted {
			return
		}
		m, _, err := parseText(ctx, pc.Text)
		if err != nil {
			return
		}
		for _, l := range api.Langs {
			files, err := api.Generate(m, l)
			mu.Lock()
			fresh := pc.Cells[l]
			mu.Unlock()
			if fresh == nil || fresh.T == nil || err != nil {
				continue
			}
			if treeString(files) == treeString(fresh.T.Files) {
				continue
			}
			key := l + SeqSuffix
			cc := &CodecCell{PC: pc, Lang: key}
			cc.T = &targets.Cell{Name: pc.Prog.Name + SeqSuffix, Lang: l, Files: files, Meta: optMeta(pc.Prog), Input: driverInput(pc), R: pc.R}
			mu.Lock()
			pc.Cells[key] = cc
			byLang[l] = append(byLang[l], cc.T)
			extra[key] = true
			mu.Unlock()
		}
	})
	var wg sync.WaitGroup
	for _, l := range langs {
		t, ok := targets.All[l]
		if !ok {
			continue
		}
		cells := byLang[l]
		sort.Slice(cells, func(a, b int) bool { return cells[a].Name < cells[b].Name })
		wg.Add(1)
		go func(t targets.Target, cells []*targets.Cell) {
			defer wg.Done()
			t.RunCells(env, cells)
		}(t, cells)
	}
	wg.Wait()
	// a toolchain or driver process that hit its wall-clock limit says nothing durable about the emitted
	// code (the machine may simply be loaded): such a cell is unobservable, never a verdict
	for _, pc := range cases {
		for _, cc := range pc.Cells {
			if cc.T != nil && cc.T.Stage != "" && strings.Contains(cc.T.BuildLog, "timeout after") {
				cc.T.Stage = "timeout"
			}
		}
	}
	// vacuity guard: a harness runtime or driver that does not build must stop the check, not turn a whole
	// target silently unobservable
	for _, l := range langs {
		n, ok := 0, 0
		first := ""
		for _, pc := range cases {
			if cc := pc.Cells[l]; cc != nil && cc.T != nil {
				n++
				if cc.T.Stage == "" {
					ok++
				} else if strings.HasPrefix(cc.T.BuildLog, "harness:") {
					core.HarnessError("target %s: %s", l, core.Trunc(cc.T.BuildLog, 600))
				} else if first == "" {
					first = cc.T.Stage + ": " + core.Trunc(cc.T.BuildLog, 300)
				}
			}
		}
		if n >= 5 && ok == 0 {
			core.HarnessError("target %s: none of %d cells could be built and driven (first: %s)", l, n, first)
		}
	}
	out := append([]string(nil), langs...)
	for _, l := range langs {
		if extra[l+SeqSuffix] {
			out = append(out, l+SeqSuffix)
		}
	}
	return out
}

// optsFor lists the non-default options that can bear on the kind of field named in a difference
// description (byte order for numbers, the string prefix type for strings, the array prefix type for
// count prefixes, the pad options for fixed strings). Options that cannot matter for that field are
// left out of the signature, so that one defect has one signature under every irrelevant option.
func optsFor(p *dsl.Program, desc string) string {
	return optsOnly(p, desc) + shapeSuffix(p.Name)
}

func optsOnly(p *dsl.Program, desc string) string {
	rel := map[string]bool{}
	d := strings.ToLower(desc)
	has := func(w string) bool { return strings.Contains(d, w) }
	switch {
	case has("fixstr"):
		rel["FixedStringPadFromLeft"], rel["FixedStringPadChar"] = true, true
	case has("dynstr") || has("length-prefix"):
		rel["StringPrefixLenType"], rel["LittleEndian"] = true, true
	case has("int") || has("float") || has("lenof") || has("checksum") || has("char"):
		rel["LittleEndian"] = true
	default:
		for _, n := range dsl.OptionNames {
			rel[n] = true
		}
	}
	if has("count-prefix") || has("element count") || has("repeated") {
		rel["ArrayPrefixLenType"], rel["LittleEndian"] = true, true
	}
	var out []string
	for _, n := range dsl.OptionNames {
		if v, ok := p.OptValue(n); ok && rel[n] && v != dsl.OptionValues[n][0] {
			out = append(out, n+"="+v)
		}
	}
	if len(out) == 0 {
		return "no relevant option set"
	}
	return strings.Join(out, ",")
}

// wallClockAnswer reports whether a driver's ERR answer is about its per-command wall-clock limit
// (a loaded machine, or a non-terminating emitted routine): unobservable, never a verdict.
func wallClockAnswer(errText string) bool {
	t := strings.ToLower(errText)
	return strings.Contains(t, "timeout") || strings.Contains(t, "watchdog") || strings.Contains(t, "deadline exceeded") || strings.Contains(t, "still running after")
}

// optsInForce lists the wire-relevant options a program sets to a non-default value.
func optsInForce(p *dsl.Program) string {
	var out []string
	for _, n := range dsl.OptionNames {
		if v, ok := p.OptValue(n); ok && v != dsl.OptionValues[n][0] {
			out = append(out, n+"="+v)
		}
	}
	if len(out) == 0 {
		return "default options"
	}
	return strings.Join(out, ",")
}

// wireDiff localises the first difference between got and the reference encoding.
func wireDiff(enc *wire.Encoding, got []byte) string {
	ref := enc.Bytes
	n := len(ref)
	if len(got) < n {
		n = len(got)
	}
	first := -1
	for i := 0; i < n; i++ {
		if ref[i] != got[i] {
			first = i
			break
		}
	}
	if first < 0 {
		if len(got) == len(ref) {
			return ""
		}
		first = n
	}
	// innermost span containing the offset (or the span starting there)
	var best *wire.Span
	for k := range enc.Layout {
		sp := &enc.Layout[k]
		if sp.What == "object" {
			continue
		}
		if first >= sp.Off && (first < sp.Off+sp.Len || (sp.Len == 0 && first == sp.Off)) {
			best = sp
			break
		}
	}
	where := "after the last field"
	class := "bytes differ"
	if best != nil {
		k := best.Kind.String()
		if best.Kind == wire.KLenOf || best.Kind == wire.KChecksum {
			k += " " + best.Type
		}
		if best.Repeat {
			k = "repeated " + k
		}
		where = k + " " + best.What
		if first+0 < len(got) && best.Off+best.Len <= len(got) && best.Len > 1 {
			seg := got[best.Off : best.Off+best.Len]
			rs := ref[best.Off : best.Off+best.Len]
			rev := true
			for x := range seg {
				if seg[x] != rs[len(rs)-1-x] {
					rev = false
				}
			}
			if rev {
				class = "byte order reversed"
			}
		}
	}
	switch {
	case len(got) < len(ref):
		class += ", encoding shorter"
	case len(got) > len(ref):
		class += ", encoding longer"
	}
	return where + ": " + class
}

// buildSig normalises a toolchain log into a signature: the first diagnostic with identifiers,
// numbers and positions abstracted.
func buildSig(lang, log string) string {
	lines := strings.Split(log, "\n")
	pick := ""
	for _, l := range lines {
		ll := strings.ToLower(l)
		if strings.Contains(ll, "error") || strings.Contains(ll, "undefined") || strings.Contains(ll, "cannot") || strings.Contains(ll, "exception") || strings.Contains(ll, "imported and not used") || strings.Contains(ll, "declared and not used") || strings.Contains(ll, "syntax") {
			pick = l
			break
		}
	}
	if pick == "" {
		for _, l := range lines {
			if strings.TrimSpace(l) != "" {
				pick = l
				break
			}
		}
	}
	return normLog(pick)
}

func normLog(s string) string {
	s = strings.TrimSpace(s)
	// drop leading path:line:col
	for i := 0; i < 4; i++ {
		if j := strings.Index(s, ": "); j >= 0 && j < 80 && (strings.Contains(s[:j], "/") || strings.Contains(s[:j], ".") || isDigits(strings.TrimLeft(s[:j], ":"))) {
			s = s[j+2:]
		}
	}
	var b strings.Builder
	inQuote := false
	for _, c := range s {
		switch {
		case c == '\'' || c == '"' || c == '`' || c == '‘' || c == '’':
			inQuote = !inQuote
			b.WriteRune('\'')
		case inQuote:
			// identifiers inside quotes are abstracted
		case c >= '0' && c <= '9':
			b.WriteRune('N')
		default:
			b.WriteRune(c)
		}
	}
	out := b.String()
	for strings.Contains(out, "NN") {
		out = strings.ReplaceAll(out, "NN", "N")
	}
	if len(out) > 110 {
		out = out[:110]
	}
	return out
}

func isDigits(s string) bool {
	if s == "" {
		return false
	}
	for _, c := range s {
		if c < '0' || c > '9' {
			return false
		}
	}
	return true
}

// codecPrograms is the (program x configuration) space of the codec checks for a tier.
func codecPrograms(ctx *core.Ctx) []*dsl.Program {
	var out []*dsl.Program
	add := func(p *dsl.Program, pts [][]dsl.OptDeviation) {
		for _, d := range pts {
			out = append(out, dsl.WithOptions(p, d))
		}
	}
	o0 := dsl.OptionPoints(0)
	o1 := dsl.OptionPoints(1)
	o2 := dsl.OptionPoints(2)
	if ctx.Thorough() {
		for _, p := range dsl.P1() {
			add(p, relevantPoints(p, o2))
		}
		for _, p := range append(append(dsl.P2(), dsl.P3()...), dsl.P5()...) {
			add(p, [][]dsl.OptDeviation{nil, {{Name: "LittleEndian", Value: "true"}},
				{{Name: "LittleEndian", Value: "true"}, {Name: "StringPrefixLenType", Value: "u8"}, {Name: "ArrayPrefixLenType", Value: "u32"}, {Name: "FixedStringPadFromLeft", Value: "true"}, {Name: "FixedStringPadChar", Value: "'0'"}}})
		}
		for _, p := range dsl.P6() {
			add(p, o1)
		}
		add(dsl.Universal(), o2)
		for _, p := range targetedFamilies() {
			add(p, lePoint)
		}
		return out
	}
	// quick: singles under one deviating value per relevant option; the universal packet under every value
	var o1first [][]dsl.OptDeviation
	o1first = append(o1first, nil)
	for _, n := range dsl.OptionNames {
		o1first = append(o1first, []dsl.OptDeviation{{Name: n, Value: dsl.OptionValues[n][1]}})
	}
	// byte order together with one other deviating option: whatever a generator builds from two option values
	// (a little-endian accessor for a one-byte prefix ...) is met by no single deviation
	var lePairs [][]dsl.OptDeviation
	for _, n := range dsl.OptionNames {
		if n != "LittleEndian" {
			vs := dsl.OptionValues[n]
			lePairs = append(lePairs, []dsl.OptDeviation{{Name: "LittleEndian", Value: "true"}, {Name: n, Value: vs[1]}})
			if len(vs) > 2 {
				// ... and the last documented value (the widest prefix)
				lePairs = append(lePairs, []dsl.OptDeviation{{Name: "LittleEndian", Value: "true"}, {Name: n, Value: vs[len(vs)-1]}})
			}
		}
	}
	for _, p := range dsl.P1() {
		add(p, relevantPoints(p, o1first))
		add(p, relevantPoints(p, lePairs))
	}
	for _, p := range dsl.P6() {
		add(p, o1first)
	}
	add(dsl.Universal(), o1)
	for _, p := range append(append(dsl.P2(), dsl.P3()...), dsl.P5()...) {
		add(p, o0)
	}
	for _, p := range targetedFamilies() {
		add(p, o0)
	}
	return out
}

// targetedFamilies: the length-of (L/), match (M/) and checksum (K/) shapes written for C04-C06 are ordinary
// well-formed programs: C01-C03 and C07 see them too (a key at the maximum of its type, a checksum inside an
// inline object ... are wire layout like anything else).
func targetedFamilies() []*dsl.Program {
	out := append(append(lengthPrograms(), matchPrograms()...), checksumPrograms()...)
	// fixed strings of every length 1..20 (anything that derives a sample or a buffer from the length meets each)
	var fs []*dsl.Field
	for n := 1; n <= 20; n++ {
		fs = append(fs, dsl.Fx(n, fmt.Sprintf("F%d", n), nil))
	}
	p := &dsl.Program{Name: "F/char-lengths-1-20", Packets: []*dsl.Packet{dsl.Root("Msg", fs...)}}
	p.Opts = dsl.TargetOpts("gfcharlengths")
	return append(out, p)
}

// relevantPoints prunes option points for a single-kind program to those its wire form can depend on
// by the property statement (the universal packet is compiled under every point, so the pruning is
// not relied upon).
func relevantPoints(p *dsl.Program, pts [][]dsl.OptDeviation) [][]dsl.OptDeviation {
	rel := map[string]bool{"LittleEndian": true}
	var walk func(fs []*dsl.Field)
	walk = func(fs []*dsl.Field) {
		for _, f := range fs {
			if f.Repeat {
				rel["ArrayPrefixLenType"] = true
			}
			switch f.Kind {
			case dsl.DynStr:
				rel["StringPrefixLenType"] = true
			case dsl.FixStr:
				rel["FixedStringPadFromLeft"] = true
				rel["FixedStringPadChar"] = true
			case dsl.MetaRef:
				rel["StringPrefixLenType"] = true
				rel["FixedStringPadFromLeft"] = true
				rel["FixedStringPadChar"] = true
			case dsl.Inline:
				walk(f.Sub)
			case dsl.Obj, dsl.Match:
				rel["StringPrefixLenType"] = true
				rel["ArrayPrefixLenType"] = true
			}
		}
	}
	for _, pk := range p.Packets {
		walk(pk.Fields)
	}
	var out [][]dsl.OptDeviation
	for _, pt := range pts {
		ok := true
		for _, d := range pt {
			if !rel[d.Name] {
				ok = false
			}
		}
		if ok {
			out = append(out, pt)
		}
	}
	return out
}
