package checks

import (
	"bufio"
	"fmt"
	"os"
	"os/exec"
	"path/filepath"
	"strings"
	"sync/atomic"
	"time"

	api "github.com/xinchentechnote/fin-protoc/verifapi"
	"verif/engine/internal/core"
	"verif/engine/internal/dsl"
)

// Two more faces of "independent of process and run" (C13).
//
// (1) Compilation sequences in one process. A library user (a language server, a build daemon) compiles many DSLs
// in one process; what a compilation leaves behind outside its own model - a package-level default that was
// copied shallowly, a cache - reaches the next one. For a set of programs that differ in their options and
// padding, every ordered pair (Y, X) is compiled in a process of its own (parse + generate Y, then X), for
// every target, and X's files must equal those of a process that compiled X alone.
//
// (2) The command line under other map orders. The explorer enumerates map orders per generator through the
// library; the order in which the command line itself walks its maps (which generators run first) only exists
// in the real binary. The binary built with the seam is run with all six targets requested under the sorted,
// the reversed and the rotated visiting order (VERIF_SEAM_ORDER): every target's tree must be the same.

// SeqWorker is the subprocess entry point: --seq-worker <lang> <file>...
func SeqWorker(args []string) {
	out := bufio.NewWriter(core.Out)
	defer out.Flush()
	if len(args) < 2 {
		fmt.Fprintln(out, "ERR usage")
		return
	}
	last := "NOT-ACCEPTED"
	for _, f := range args[1:] {
		m, diags, err := api.ParseFile(f)
		if err != nil || len(diags) > 0 || api.Cyclic(m) {
			last = "NOT-ACCEPTED"
			continue
		}
		last = "TREE " + core.Hash(genString(m, args[0]))
	}
	fmt.Fprintln(out, last)
}

func seqRun(ctx *core.Ctx, self, lang string, files ...string) string {
	cmd := exec.Command(self, append([]string{"--seq-worker", lang}, files...)...)
	cmd.Env = append(os.Environ(), "VERIF_WORKER_DIR="+ctx.Scratch)
	done := make(chan struct{})
	var b []byte
	var err error
	go func() { b, err = cmd.Output(); close(done) }()
	select {
	case <-done:
	case <-time.After(5 * time.Minute):
		cmd.Process.Kill()
		<-done
		return "TIMEOUT"
	}
	if err != nil {
		return "DIED"
	}
	return strings.TrimSpace(string(b))
}

// c13Sequences explores (1); returns the number of processes run.
func c13Sequences(ctx *core.Ctx) int64 {
	progs := paddingPrograms()
	u := dsl.Universal()
	progs = append(progs, u, dsl.WithOptions(u, []dsl.OptDeviation{{Name: "LittleEndian", Value: "true"}, {Name: "StringPrefixLenType", Value: "u8"}, {Name: "ArrayPrefixLenType", Value: "u32"}}))
	if !ctx.Thorough() && len(progs) > 10 {
		progs = append(progs[:8], progs[len(progs)-2:]...)
	}
	self, _ := os.Executable()
	dir := ctx.TempPath(".seq13")
	os.MkdirAll(dir, 0o755)
	defer os.RemoveAll(dir)
	files := make([]string, len(progs))
	for i, p := range progs {
		files[i] = filepath.Join(dir, fmt.Sprintf("p%d.dsl", i))
		os.WriteFile(files[i], []byte(p.Text()), 0o644)
	}
	var procs int64
	type cell struct{ x, lang int }
	alone := make([][]string, len(progs))
	var cells []cell
	for i := range progs {
		alone[i] = make([]string, len(api.Langs))
		for l := range api.Langs {
			cells = append(cells, cell{i, l})
		}
	}
	core.Parallel(len(cells), func(k int) {
		c := cells[k]
		alone[c.x][c.lang] = seqRun(ctx, self, api.Langs[c.lang], files[c.x])
		atomic.AddInt64(&procs, 1)
	})
	type pair struct{ y, x, lang int }
	var pairs []pair
	for y := range progs {
		for x := range progs {
			if x == y {
				continue
			}
			for l := range api.Langs {
				if strings.HasPrefix(alone[x][l], "TREE ") {
					pairs = append(pairs, pair{y, x, l})
				}
			}
		}
	}
	core.Parallel(len(pairs), func(k int) {
		p := pairs[k]
		got := seqRun(ctx, self, api.Langs[p.lang], files[p.y], files[p.x])
		atomic.AddInt64(&procs, 1)
		if got == "TIMEOUT" || got == alone[p.x][p.lang] {
			return
		}
		ctx.Report(fmt.Sprintf("sequence|the %s files of a program depend on what the same process compiled before", api.Langs[p.lang]),
			fmt.Sprintf("one process compiled %s, then %s: the %s files of the second differ from those of a process that compiled it alone (%s)\n--- first\n%s\n--- second\n%s",
				progs[p.y].Name, progs[p.x].Name, api.Langs[p.lang], got, core.Trunc(progs[p.y].Text(), 400), core.Trunc(progs[p.x].Text(), 400)),
			map[string]any{"first": progs[p.y].Text(), "name": progs[p.x].Name, "text": progs[p.x].Text(), "lang": api.Langs[p.lang]})
	})
	return procs
}

// c13CommandLineOrders explores (2) for one program; returns the number of runs of the real binary.
func c13CommandLineOrders(ctx *core.Ctx, pinned string, p *dsl.Program) int64 {
	text := p.Text()
	if _, err := applyHistory(ctx, text, nil); err != nil {
		return 0
	}
	var runs int64
	base := map[string]string{}
	for _, mode := range []string{"sorted", "reverse", "rotate"} {
		dir := ctx.TempPath(".ord")
		os.MkdirAll(dir, 0o755)
		file := filepath.Join(dir, "in.dsl")
		os.WriteFile(file, []byte(text), 0o644)
		args := []string{"compile", "-f", file}
		for _, l := range api.Langs {
			args = append(args, langFlag[l], "out_"+l)
		}
		cctx, cmd := cmdWithTimeout(120*time.Second, pinned, args...)
		cmd.Dir = dir
		cmd.Env = append(os.Environ(), "VERIF_SEAM_ORDER="+mode)
		err := cmd.Run()
		runs++
		if err != nil || cctx.Err() != nil {
			os.RemoveAll(dir)
			return runs // crashes and failures of accepted programs: C11 / C07
		}
		for _, l := range api.Langs {
			t := dirTree(filepath.Join(dir, "out_"+l))
			if mode == "sorted" {
				base[l] = t
			} else if t != base[l] {
				ctx.Report("command line|the "+l+" tree of a six-target invocation depends on the order in which the program's maps are visited|"+progName(p.Name),
					fmt.Sprintf("program %s: all six targets in one invocation, visiting order %s vs sorted\nfirst difference: %s", p.Name, mode, firstDiffLine(base[l], t)),
					map[string]any{"name": p.Name, "text": text, "lang": l, "order": mode})
			}
		}
		os.RemoveAll(dir)
	}
	return runs
}

// c13Locations: "independent of process and run" includes where the command is run. The same command line
// (absolute input path; output directory "." and "out") is run from two working directories with different
// names, for a program with and without the Go/Java package options (a default derived from a path would show
// only where the option is absent). Oracle: identical files.
func c13Locations(ctx *core.Ctx, pinned string) int64 {
	var runs int64
	base := dsl.P5()[0]
	bare := base.Clone()
	bare.Opts = nil
	bare.Name = base.Name + " (no package options)"
	for _, p := range []*dsl.Program{base, bare} {
		text := p.Text()
		if _, err := applyHistory(ctx, text, nil); err != nil {
			continue
		}
		root := ctx.TempPath(".loc")
		os.MkdirAll(root, 0o755)
		file := filepath.Join(root, "in.dsl")
		os.WriteFile(file, []byte(text), 0o644)
		for _, l := range api.Langs {
			for _, out := range []string{".", "out"} {
				var first map[string]string
				ok := true
				for _, wd := range []string{"alpha", "beta-two", "Gamma_3"} {
					cwd := filepath.Join(root, l+"_"+strings.Trim(out, "."), wd)
					os.MkdirAll(cwd, 0o755)
					r := runCLI(cwd, 120*time.Second, pinned, "compile", "-f", file, langFlag[l], out)
					runs++
					if r.crashed || r.exit != 0 {
						ok = false
						break
					}
					got := dirFiles(filepath.Join(cwd, out))
					if first == nil {
						first = got
						continue
					}
					same := len(got) == len(first)
					for n, b := range first {
						if got[n] != b {
							same = false
						}
					}
					if !same {
						ctx.Report("location|the "+l+" files depend on the name of the working directory|output directory "+out+"|"+progName(p.Name),
							fmt.Sprintf("program %s: `compile -f <abs> %s %s` run from directories named alpha and %s gives different files", p.Name, langFlag[l], out, wd),
							map[string]any{"name": p.Name, "text": text, "lang": l})
						break
					}
				}
				_ = ok
			}
		}
		os.RemoveAll(root)
	}
	return runs
}
