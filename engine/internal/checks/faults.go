package checks

import (
	"fmt"
	"strings"

	"verif/engine/internal/core"
	"verif/engine/internal/dsl"
)

// Fault is one ill-formed program obtained from a well-formed one by injecting one fault at one site.
type Fault struct {
	Name    string
	Class   string // e.g. "duplicate packet"
	Variant string // site kind, part of the signature
	Text    string
	Span    [2]int   // lines of the offending declaration (first..last), 1-based
	Names   []string // the offending identifier(s); the diagnostic must mention one of them …
	Words   []string // … or one of these class words (case-insensitive)
}

type layoutOpt struct {
	name    string
	leading string
}

var faultLayouts = []layoutOpt{{"plain", ""}, {"shifted", "// header line 1\n\n// header line 3\n"}, {"one line", ""}}

// render prints p and returns the text plus the line span of the declaration identified by key.
func renderWithSpan(p *dsl.Program, key dsl.SpanKey, lay layoutOpt) (string, [2]int, bool) {
	toks, sp := p.TokensSpans()
	gaps := dsl.Gaps(toks, dsl.Pretty)
	if lay.name == "one line" {
		// everything on one source line: whatever groups or orders declarations by their line gets ties
		gaps = dsl.Gaps(toks, dsl.OneLine)
	}
	gaps[0] = lay.leading + gaps[0]
	lines := dsl.TokenLines(toks, gaps)
	r, ok := sp[key]
	if !ok {
		return "", [2]int{}, false
	}
	return dsl.Join(toks, gaps), [2]int{lines[r[0]][0], lines[r[1]][1]}, true
}

// faultBasePrograms are the well-formed programs faults are injected into.
func faultBasePrograms(ctx *core.Ctx) []*dsl.Program {
	var out []*dsl.Program
	p1 := dsl.P1()
	for i, p := range p1 {
		if ctx.Thorough() || i%4 == 0 || strings.Contains(p.Name, "match") || strings.Contains(p.Name, "lenof") || strings.Contains(p.Name, "meta") || strings.Contains(p.Name, "inline") {
			out = append(out, p)
		}
	}
	p3 := dsl.P3()
	for i, p := range p3 {
		if ctx.Thorough() || i%5 == 0 || strings.Contains(p.Name, "inline>inline") || strings.Contains(p.Name, "inline>repinline") {
			out = append(out, p)
		}
	}
	out = append(out, dsl.P5()...)
	out = append(out, dsl.P6()...)
	return out
}

// faultCorpus enumerates every (base program, fault class, site).
func faultCorpus(ctx *core.Ctx) []Fault {
	var out []Fault
	for _, base := range faultBasePrograms(ctx) {
		for _, lay := range faultLayouts {
			if lay.name != "plain" && !ctx.Thorough() && !strings.HasPrefix(base.Name, "P5") && !strings.HasPrefix(base.Name, "P6") {
				continue
			}
			out = append(out, faultsOf(base, lay)...)
		}
	}
	return out
}

func faultsOf(base *dsl.Program, lay layoutOpt) []Fault {
	var out []Fault
	emit := func(class, variant string, q *dsl.Program, key dsl.SpanKey, names []string, words ...string) {
		text, span, ok := renderWithSpan(q, key, lay)
		if !ok {
			core.HarnessError("fault %s on %s: span not found", class, base.Name)
		}
		out = append(out, Fault{Name: fmt.Sprintf("%s/%s/%s#%d/%s", base.Name, class, variant, len(out), lay.name), Class: class, Variant: variant, Text: text, Span: span, Names: names, Words: words})
	}
	// 1 duplicate packet (every packet, appended at the end and inserted right after the original)
	for i := range base.Packets {
		for _, where := range []string{"at end", "adjacent"} {
			q := base.Clone()
			dup := &dsl.Packet{Name: q.Packets[i].Name, Fields: []*dsl.Field{dsl.Sc("u8", "Dup")}}
			if where == "at end" {
				q.Packets = append(q.Packets, dup)
			} else {
				q.Packets = append(q.Packets[:i+1], append([]*dsl.Packet{dup}, q.Packets[i+1:]...)...)
			}
			emit("duplicate packet", where, q, dsl.SpanKey{Node: dup, Sub: -1}, []string{dup.Name}, "duplicate", "already", "redefin")
		}
	}
	// 2 duplicate MetaData entry
	for bi, mb := range base.Meta {
		for ei := range mb.Entries {
			q := base.Clone()
			e := *q.Meta[bi].Entries[ei]
			dup := &e
			q.Meta[bi].Entries = append(q.Meta[bi].Entries, dup)
			emit("duplicate MetaData entry", "same block", q, dsl.SpanKey{Node: dup, Sub: -1}, []string{dup.Name}, "duplicate", "already")
			// the duplicate is of the other declaration form (typed <-> reference to another entry)
			q2 := base.Clone()
			orig := q2.Meta[bi].Entries[ei]
			var other *dsl.MetaEntry
			if orig.Kind == dsl.MetaRef {
				other = &dsl.MetaEntry{Name: orig.Name, Kind: dsl.Scalar, Type: "u32", Doc: "typed duplicate"}
			} else if len(q2.Meta[bi].Entries) > 1 {
				refTo := q2.Meta[bi].Entries[0].Name
				if refTo == orig.Name {
					refTo = q2.Meta[bi].Entries[1].Name
				}
				other = &dsl.MetaEntry{Name: orig.Name, Kind: dsl.MetaRef, Ref: refTo, Doc: "reference duplicate"}
			}
			if other != nil {
				q2.Meta[bi].Entries = append(q2.Meta[bi].Entries, other)
				emit("duplicate MetaData entry", "other declaration form, same block", q2, dsl.SpanKey{Node: other, Sub: -1}, []string{other.Name}, "duplicate", "already")
			}
			// in a second MetaData block
			q3 := base.Clone()
			e3 := *q3.Meta[bi].Entries[ei]
			nb := &dsl.MetaBlock{Name: "Second", Entries: []*dsl.MetaEntry{&e3}}
			q3.Meta = append(q3.Meta, nb)
			emit("duplicate MetaData entry", "another block", q3, dsl.SpanKey{Node: &e3, Sub: -1}, []string{e3.Name}, "duplicate", "already")
		}
	}
	// 3 duplicate option
	for oi := range base.Opts {
		q := base.Clone()
		q.Opts = append(q.Opts, q.Opts[oi])
		emit("duplicate option", q.Opts[oi].Name, q, dsl.SpanKey{Node: nil, Sub: len(q.Opts) - 1}, []string{q.Opts[oi].Name}, "duplicate", "already")
	}
	// 4 duplicate field (top level of every packet; inside every inline object)
	for pi, pk := range base.Packets {
		for fi, f := range pk.Fields {
			q := base.Clone()
			orig := q.Packets[pi].Fields[fi]
			if orig.Kind == dsl.LenOf {
				continue // a second length-of field is fault class 10
			}
			dup := dsl.Sc("u8", orig.FieldName())
			q.Packets[pi].Fields = append(q.Packets[pi].Fields, dup)
			emit("duplicate field", "in packet, original is "+f.Kind.String(), q, dsl.SpanKey{Node: dup, Sub: -1}, []string{dup.Name}, "duplicate", "already")
			// the second declaration in every other declaration form (each form is visited by its own routine, which
			// has to carry the position of the declaration to the diagnostic), appended and right after the original
			for _, form := range dupFieldForms(base, pi, fi) {
				for _, where := range []string{"at end", "adjacent"} {
					q := base.Clone()
					d := form.make(q, pi)
					if where == "at end" {
						q.Packets[pi].Fields = append(q.Packets[pi].Fields, d)
					} else {
						fs := q.Packets[pi].Fields
						q.Packets[pi].Fields = append(fs[:fi+1:fi+1], append([]*dsl.Field{d}, fs[fi+1:]...)...)
					}
					emit("duplicate field", "in packet, second declaration is "+form.name+", "+where, q, dsl.SpanKey{Node: d, Sub: -1}, []string{d.FieldName()}, "duplicate", "already")
				}
			}
			if f.Kind == dsl.Inline {
				for si := range f.Sub {
					q := base.Clone()
					in := q.Packets[pi].Fields[fi]
					dup := dsl.Sc("u8", in.Sub[si].FieldName())
					in.Sub = append(in.Sub, dup)
					emit("duplicate field", "in inline object", q, dsl.SpanKey{Node: dup, Sub: -1}, []string{dup.Name}, "duplicate", "already")
				}
			}
		}
	}
	// 5 duplicate match key
	for pi, pk := range base.Packets {
		for fi, f := range pk.Fields {
			if f.Kind != dsl.Match {
				continue
			}
			for ki, pr := range f.Pairs {
				for kj, key := range pr.Keys {
					_ = kj
					// as a new single pair at the end
					q := base.Clone()
					m := q.Packets[pi].Fields[fi]
					m.Pairs = append(m.Pairs, dsl.Pair{Keys: []string{key}, Packet: m.Pairs[0].Packet})
					emit("duplicate match key", "as a separate pair", q, dsl.SpanKey{Node: m, Sub: len(m.Pairs) - 1}, []string{key}, "duplicate", "already")
					// twice inside a list
					q2 := base.Clone()
					m2 := q2.Packets[pi].Fields[fi]
					m2.Pairs[ki].Keys = append(m2.Pairs[ki].Keys, key)
					m2.Pairs[ki].List = true
					emit("duplicate match key", "twice inside one list", q2, dsl.SpanKey{Node: m2, Sub: ki}, []string{key}, "duplicate", "already")
				}
			}
		}
	}
	// 6 second root packet
	for pi, pk := range base.Packets {
		if pk.Root {
			continue
		}
		q := base.Clone()
		q.Packets[pi].Root = true
		emit("second root packet", "existing packet marked root", q, dsl.SpanKey{Node: q.Packets[pi], Sub: -1}, []string{pk.Name}, "root")
	}
	// 7 unknown option
	{
		q := base.Clone()
		q.Opts = append(q.Opts, dsl.Opt{Name: "BogusOption", Value: "true", Semi: true})
		emit("unknown option", "", q, dsl.SpanKey{Node: nil, Sub: len(q.Opts) - 1}, []string{"BogusOption"}, "unknown", "not allowed", "unsupported", "invalid")
	}
	// 8 illegal option values (all admitted by the grammar's `value` rule)
	illegal := map[string][]string{
		"LittleEndian":           {"1", `"yes"`, "u8"},
		"StringPrefixLenType":    {"i8", `"u128"`, "f32", "2", "char[2]"},
		"ArrayPrefixLenType":     {"i16", `"u9"`, "string", "true"},
		"FixedStringPadFromLeft": {"0", `"left"`},
		"FixedStringPadChar":     {`"x"`, "u8", "7"},
	}
	for _, name := range dsl.OptionNames {
		for _, v := range illegal[name] {
			q := base.Clone()
			q.Opts = append(q.Opts, dsl.Opt{Name: name, Value: v, Semi: true})
			emit("illegal option value", name+" = "+valueClass(v), q, dsl.SpanKey{Node: nil, Sub: len(q.Opts) - 1}, []string{name}, "not allowed", "illegal", "invalid", "expected")
		}
	}
	// 9 length-of in a non-root packet
	for pi, pk := range base.Packets {
		if pk.Root || len(pk.Fields) == 0 {
			continue
		}
		for _, pre := range []bool{false, true} {
			q := base.Clone()
			tgt := q.Packets[pi].Fields[len(q.Packets[pi].Fields)-1]
			lf := dsl.Lo("u16", "InjLen", tgt.FieldName())
			lf.Prefixed = pre
			q.Packets[pi].Fields = append([]*dsl.Field{lf}, q.Packets[pi].Fields...)
			emit("length-of outside the root packet", spelling(pre), q, dsl.SpanKey{Node: lf, Sub: -1}, []string{"InjLen"}, "root", "length")
		}
	}
	// 10 second length-of in the root
	if rp := base.RootPacket(); rp != nil {
		has := false
		for _, f := range rp.Fields {
			if f.Kind == dsl.LenOf {
				has = true
			}
		}
		if has {
			for _, pre := range []bool{false, true} {
				q := base.Clone()
				r := q.RootPacket()
				tgt := r.Fields[len(r.Fields)-1]
				lf := dsl.Lo("u16", "InjLen", tgt.FieldName())
				lf.Prefixed = pre
				r.Fields = append(r.Fields[:len(r.Fields)-1], lf, tgt)
				emit("second length-of field", spelling(pre), q, dsl.SpanKey{Node: lf, Sub: -1}, []string{"InjLen"}, "duplicate", "length", "only one", "already")
			}
		}
	}
	// 11 undeclared packet as object type (every packet, first/last position) and as match alternative (every pair)
	for pi := range base.Packets {
		for _, rep := range []bool{false, true} {
			q := base.Clone()
			f := dsl.Ob("NoSuchPacket", "Inj")
			f.Repeat = rep
			q.Packets[pi].Fields = append(q.Packets[pi].Fields, f)
			v := "plain"
			if rep {
				v = "repeat"
			}
			emit("undeclared packet as object type", v, q, dsl.SpanKey{Node: f, Sub: -1}, []string{"NoSuchPacket"}, "unknown", "undeclared", "undefined", "not found")
		}
	}
	// ... and inside every inline object, at every depth
	for _, path := range inlinePaths(base) {
		q := base.Clone()
		f := dsl.Ob("NoSuchPacket", "Inj")
		c := fieldAt(q, path)
		c.Sub = append(c.Sub, f)
		emit("undeclared packet as object type", fmt.Sprintf("inside an inline object at depth %d", len(path)-1), q, dsl.SpanKey{Node: f, Sub: -1}, []string{"NoSuchPacket"}, "unknown", "undeclared", "undefined", "not found")
	}
	for pi, pk := range base.Packets {
		for fi, f := range pk.Fields {
			if f.Kind != dsl.Match {
				continue
			}
			for ki := range f.Pairs {
				q := base.Clone()
				m := q.Packets[pi].Fields[fi]
				m.Pairs[ki].Packet = "NoSuchPacket"
				emit("undeclared packet as match alternative", "", q, dsl.SpanKey{Node: m, Sub: ki}, []string{"NoSuchPacket"}, "unknown", "undeclared", "undefined", "not found")
			}
			// 12 undeclared match key field
			q := base.Clone()
			m := q.Packets[pi].Fields[fi]
			m.Key = "NoSuchKey"
			emit("undeclared match key field", "", q, dsl.SpanKey{Node: m, Sub: -1}, []string{"NoSuchKey"}, "unknown", "undeclared", "undefined", "not found")
		}
	}
	// 13 undeclared length-of target
	for pi, pk := range base.Packets {
		for fi, f := range pk.Fields {
			if f.Kind != dsl.LenOf {
				continue
			}
			q := base.Clone()
			l := q.Packets[pi].Fields[fi]
			l.Target = "NoSuchTarget"
			emit("undeclared length-of target", spelling(f.Prefixed), q, dsl.SpanKey{Node: l, Sub: -1}, []string{"NoSuchTarget"}, "unknown", "undeclared", "undefined", "not found")
		}
	}
	return out
}

// dupForm builds a second declaration of an existing field name in one declaration form.
type dupForm struct {
	name string
	make func(q *dsl.Program, pi int) *dsl.Field
}

// dupFieldForms lists the declaration forms a duplicate of field fi of packet pi can take (besides the plain u8 scalar).
func dupFieldForms(base *dsl.Program, pi, fi int) []dupForm {
	name := base.Packets[pi].Fields[fi].FieldName()
	alt := func(q *dsl.Program) string {
		n := "DupAlt"
		if q.PacketByName(n) == nil {
			q.Packets = append(q.Packets, &dsl.Packet{Name: n, Fields: []*dsl.Field{dsl.Sc("u8", "V")}})
		}
		return n
	}
	forms := []dupForm{
		{"a string", func(q *dsl.Program, pi int) *dsl.Field { return &dsl.Field{Kind: dsl.DynStr, Type: "string", Name: name} }},
		{"a repeated scalar with a doc string", func(q *dsl.Program, pi int) *dsl.Field {
			return &dsl.Field{Kind: dsl.Scalar, Type: "u16", Name: name, Repeat: true, Doc: "second"}
		}},
		{"a padded fixed string", func(q *dsl.Program, pi int) *dsl.Field {
			return &dsl.Field{Kind: dsl.FixStr, Type: "char", N: 4, Name: name, Pad: &dsl.Pad{Left: true, Char: "'0'"}}
		}},
		{"an object reference", func(q *dsl.Program, pi int) *dsl.Field { return &dsl.Field{Kind: dsl.Obj, Ref: alt(q), Name: name} }},
		{"an inline object", func(q *dsl.Program, pi int) *dsl.Field {
			return &dsl.Field{Kind: dsl.Inline, Ref: name, Sub: []*dsl.Field{dsl.Sc("u8", "DupMember")}}
		}},
		{"a checksum field (prefixed)", func(q *dsl.Program, pi int) *dsl.Field {
			return &dsl.Field{Kind: dsl.Checksum, Type: "u32", Name: name, Algo: "\"CRC32\"", Prefixed: true}
		}},
	}
	// a match field needs an integer key declared in the same packet (not the duplicated field itself)
	for i, f := range base.Packets[pi].Fields {
		if i != fi && f.Kind == dsl.Scalar && !f.Repeat && dsl.Width(f.Type) > 0 && f.Type[0] != 'f' && f.Type != "char" {
			key := f.Name
			forms = append(forms, dupForm{"a match field", func(q *dsl.Program, pi int) *dsl.Field {
				return &dsl.Field{Kind: dsl.Match, Key: key, Name: name, Pairs: []dsl.Pair{{Keys: []string{"1"}, Packet: alt(q)}}}
			}})
			break
		}
	}
	return forms
}

func spelling(pre bool) string {
	if pre {
		return "prefixed spelling"
	}
	return "inline spelling"
}

func valueClass(v string) string {
	switch {
	case strings.HasPrefix(v, `"`):
		return "a string literal"
	case v[0] >= '0' && v[0] <= '9':
		return "digits"
	case v == "true" || v == "false":
		return "a boolean"
	}
	return "the type " + v
}

// inlinePaths lists the inline-object fields of a program at every depth, as paths for fieldAt
// (packet index, field index, sub-field index, ...).
func inlinePaths(p *dsl.Program) [][]int {
	var out [][]int
	var walk func(prefix []int, fs []*dsl.Field)
	walk = func(prefix []int, fs []*dsl.Field) {
		for i, f := range fs {
			if f.Kind == dsl.Inline {
				path := append(append([]int(nil), prefix...), i)
				out = append(out, path)
				walk(path, f.Sub)
			}
		}
	}
	for pi, pk := range p.Packets {
		walk([]int{pi}, pk.Fields)
	}
	return out
}
