package checks

import (
	"fmt"
	"os"
	"path/filepath"
	"sort"
	"strings"
	"sync"
	"sync/atomic"
	"time"

	api "github.com/xinchentechnote/fin-protoc/verifapi"
	"verif/engine/internal/core"
	"verif/engine/internal/dsl"
)

func init() { Registry["C14"] = C14 }

// paddingPrograms put a padding setting in every place a Padding object can live.
func paddingPrograms() []*dsl.Program {
	var out []*dsl.Program
	mk := func(name string, p *dsl.Program) {
		p.Name = "PAD/" + name
		p.Opts = append(p.Opts, dsl.TargetOpts(strings.ReplaceAll("gpad"+name, "-", ""))...)
		out = append(out, p)
	}
	mk("options-zero-left", &dsl.Program{Opts: []dsl.Opt{{Name: "FixedStringPadChar", Value: "'0'", Semi: true}, {Name: "FixedStringPadFromLeft", Value: "true", Semi: true}},
		Packets: []*dsl.Packet{dsl.Root("Msg", dsl.Fx(4, "A", nil), dsl.Rep(dsl.Fx(3, "B", nil)), dsl.Fx(2, "C", &dsl.Pad{Left: false, Char: "' '"}))}})
	mk("options-left-only", &dsl.Program{Opts: []dsl.Opt{{Name: "FixedStringPadFromLeft", Value: "true", Semi: true}},
		Packets: []*dsl.Packet{dsl.Root("Msg", dsl.Fx(4, "A", nil), dsl.Rep(dsl.Fx(3, "B", nil)), dsl.Zc(2, "C"))}})
	mk("options-left-false-only", &dsl.Program{Opts: []dsl.Opt{{Name: "FixedStringPadFromLeft", Value: "false", Semi: true}},
		Packets: []*dsl.Packet{dsl.Root("Msg", dsl.Fx(4, "A", nil), dsl.Rep(dsl.Fx(3, "B", nil)))}})
	for ci, ch := range []string{"'0'", "' '", `'\x00'`} {
		mk(fmt.Sprintf("options-char-only-%d", ci), &dsl.Program{Opts: []dsl.Opt{{Name: "FixedStringPadChar", Value: ch, Semi: true}},
			Packets: []*dsl.Packet{dsl.Root("Msg", dsl.Fx(4, "A", nil), dsl.Rep(dsl.Fx(3, "B", nil)), dsl.In("Sub", dsl.Fx(2, "C", nil)))}})
	}
	mk("options-nul", &dsl.Program{Opts: []dsl.Opt{{Name: "FixedStringPadChar", Value: `'\x00'`, Semi: true}},
		Packets: []*dsl.Packet{dsl.Root("Msg", dsl.Fx(4, "A", nil), dsl.Rep(dsl.Fx(3, "B", nil)))}})
	var fs []*dsl.Field
	for i, pd := range dsl.PadForms() {
		if pd != nil && pd.Char == "" {
			continue // the empty form crashes the formatter/visitor differently; C11 owns it
		}
		fs = append(fs, dsl.Fx(4, fmt.Sprintf("F%d", i), pd))
	}
	mk("attributes", &dsl.Program{Packets: []*dsl.Packet{dsl.Root("Msg", fs...)}})
	mk("attr-nul-only", &dsl.Program{Packets: []*dsl.Packet{dsl.Root("Msg", dsl.Fx(4, "A", &dsl.Pad{Left: false, Char: `'\x00'`}), dsl.Sc("u8", "B"))}})
	mk("zchar-field", &dsl.Program{Packets: []*dsl.Packet{dsl.Root("Msg", dsl.Zc(4, "A"), dsl.Rep(dsl.Zc(2, "B")))}})
	mk("zchar-inline", &dsl.Program{Packets: []*dsl.Packet{dsl.Root("Msg", dsl.In("Sub", dsl.Zc(4, "A"), dsl.Sc("u8", "X")), dsl.Rep(dsl.In("Sub2", dsl.Zc(2, "B"))))}})
	mk("zchar-metadata", &dsl.Program{
		Meta:    []*dsl.MetaBlock{{Name: "Dict", Entries: []*dsl.MetaEntry{{Name: "ZSym", Kind: dsl.FixStr, Type: "zchar", N: 4, Doc: "z"}, {Name: "Sym", Kind: dsl.FixStr, Type: "char", N: 4, Doc: "s"}}}},
		Packets: []*dsl.Packet{dsl.Root("Msg", dsl.Mr("ZSym", ""), dsl.Mr("ZSym", "Second"), dsl.Mr("Sym", ""), dsl.Ob("Other", "")), dsl.Pk("Other", dsl.Mr("ZSym", "Third"))}})
	mk("zchar-in-payload", &dsl.Program{Packets: []*dsl.Packet{dsl.Root("Msg", dsl.Sc("u8", "Kind"), dsl.Mt("Kind", "Body", dsl.K("Alpha", "1"), dsl.K("Beta", "2"))),
		dsl.Pk("Alpha", dsl.Zc(4, "A")), dsl.Pk("Beta", dsl.Fx(4, "B", &dsl.Pad{Left: true, Char: `'\x00'`}))}})
	return out
}

type c14Stats struct {
	states, transitions, traces int64
	maxDepth                    int64
	capped                      int64
}

// C14: targets are generated independently of one another.
func C14(ctx *core.Ctx) int {
	progs := paddingPrograms()
	progs = append(progs, dsl.P5()...)
	progs = append(progs, dsl.P6()...)
	// identifier shapes: what a naming helper does with a name may depend on state another generator left behind
	for i, p := range dsl.P4() {
		if ctx.Thorough() || strings.Contains(p.Name, "initialism") || strings.Contains(p.Name, "acronym") || strings.Contains(p.Name, "collide") || i%4 == 0 {
			progs = append(progs, p)
		}
	}
	// the match / checksum shapes of C05 / C06 (key spellings, shared algorithm names: what a generator may respell
	// or cache in the shared model)
	progs = append(progs, matchPrograms()...)
	progs = append(progs, checksumPrograms()...)
	// the same graphs with their packets declared in the opposite order (the root last): whatever reorders or
	// indexes the model's packet list is met with a list that is not already in "its" order
	for _, p := range append(dsl.P5(), dsl.P6()...) {
		if len(p.Packets) > 1 {
			q := p.Clone()
			for a, b := 0, len(q.Packets)-1; a < b; a, b = a+1, b-1 {
				q.Packets[a], q.Packets[b] = q.Packets[b], q.Packets[a]
			}
			q.Name = p.Name + " (packets in reverse order)"
			progs = append(progs, q)
		}
	}
	p1 := dsl.P1()
	for i, p := range p1 {
		if ctx.Thorough() || i%6 == 0 || strings.Contains(p.Name, "match") || strings.Contains(p.Name, "lenof") {
			progs = append(progs, p)
		}
	}
	if ctx.Thorough() {
		progs = append(progs, dsl.P3()...)
		progs = append(progs, dsl.Universal())
	}
	if ctx.Replay != "" {
		var r struct {
			Replay struct{ Name, Text string } `json:"replay"`
		}
		readReplay(ctx, &r)
		st := &c14Stats{}
		c14Explore(ctx, r.Replay.Name, r.Replay.Text, st, 4000, nil)
		return ctx.Finish("model_checking", core.Coverage{"states": st.states, "transitions": st.transitions, "traces_validated_against_impl": 0, "samples": []any{r.Replay.Name}})
	}
	st := &c14Stats{}
	samples := &core.Sample{N: 8}
	stateCap := 60
	if ctx.Thorough() {
		stateCap = 5000
	}
	core.Parallel(len(progs), func(i int) {
		c14Explore(ctx, progs[i].Name, progs[i].Text(), st, stateCap, samples)
	})
	// binding to the implementation: the real binary with all 64 subsets of output flags
	bin := ctx.BuildRepoBinary("pinned")
	var cliProgs []*dsl.Program
	for i, p := range progs {
		if ctx.Thorough() || strings.HasPrefix(p.Name, "PAD/") || strings.HasPrefix(p.Name, "P5/") || strings.HasPrefix(p.Name, "P6/") || strings.HasPrefix(p.Name, "P4/") || i%5 == 0 {
			cliProgs = append(cliProgs, p)
		}
	}
	core.Parallel(len(cliProgs), func(i int) {
		c14CLI(ctx, bin, cliProgs[i], st)
	})
	// several targets into one output directory (shareddir.go)
	var sharedRuns int64
	core.Parallel(len(cliProgs), func(i int) {
		if !ctx.Thorough() && i%3 != 0 && !strings.HasPrefix(cliProgs[i].Name, "P6/") {
			return
		}
		n := sharedDirRuns(ctx, bin, cliProgs[i], func(what, detail string, rep map[string]any) {
			ctx.Report("cli|"+what, detail, rep)
		})
		atomic.AddInt64(&sharedRuns, int64(n))
	})
	// every generator history up to a depth, each in a process of its own (c14fresh.go)
	fs := &freshStats{}
	depth := 2
	if ctx.Thorough() {
		depth = 3
	}
	core.Parallel(len(cliProgs), func(i int) {
		c14Fresh(ctx, cliProgs[i].Name, cliProgs[i].Text(), depth, fs)
	})
	cov := core.Coverage{
		"fresh_process_histories": map[string]any{"depth": depth, "programs": fs.programs, "histories": fs.histories, "processes": fs.processes,
			"rule": "every sequence of 2..depth distinct generators applied to one parsed model in a process of its own; the last generator's files must equal those of a process that ran it alone (sees state kept outside the model, in any order, which neither the model dump nor the command line's fixed order can)"},
		"shared_output_directory_runs":  sharedRuns,
		"states":                        st.states,
		"transitions":                   st.transitions,
		"traces_validated_against_impl": st.traces,
		"samples":                       samples.List,
		"programs":                      len(progs),
		"longest_shortest_history":      st.maxDepth,
		"programs_where_state_cap_hit":  st.capped,
		"state_cap":                     stateCap,
		"exhaustive":                    st.capped == 0,
		"rule": "explicit-state breadth-first search per program: state = canonical dump of the whole parsed model (no abstraction), transitions = the six real generators; a successor is built by re-parsing and replaying the shortest history; search runs to a fixed point (no new states). " +
			"invariants in every state: (I1) each target's output equals its output from the initial state, (I2) no transition changes the model. traces validated = runs of the real binary over all 64 flag subsets whose per-target trees were compared with the tree of that target requested alone and with the facade's history",
	}
	ctx.Assumes = append(ctx.Assumes, "map-iteration order and the clock are pinned (C13 explores them)", "programs whose packet graph is cyclic are skipped (generators overflow the stack on them: C11)")
	return ctx.Finish("model_checking", cov)
}

// applyHistory parses text afresh and applies the generators of hist in order.
func applyHistory(ctx *core.Ctx, text string, hist []string) (*api.Model, error) {
	m, diags, err := parseText(ctx, text)
	if err != nil {
		return nil, err
	}
	if len(diags) > 0 {
		return nil, fmt.Errorf("diagnostics: %v", diags[0].Msg)
	}
	if api.Cyclic(m) {
		return nil, fmt.Errorf("cyclic")
	}
	for _, l := range hist {
		api.Generate(m, l)
	}
	return m, nil
}

func genString(m *api.Model, lang string) string {
	files, err := api.Generate(m, lang)
	if err != nil {
		return "ERROR: " + errClass(err)
	}
	return treeString(files)
}

func c14Explore(ctx *core.Ctx, name, text string, st *c14Stats, stateCap int, samples *core.Sample) {
	m0, err := applyHistory(ctx, text, nil)
	if err != nil {
		return // not an accepted acyclic program: nothing to explore
	}
	init := api.Dump(m0)
	// baseline outputs: each generator alone on a fresh parse
	base := map[string]string{}
	for _, l := range api.Langs {
		m, _ := applyHistory(ctx, text, nil)
		base[l] = genString(m, l)
	}
	type node struct {
		hist []string
		dump string
	}
	seen := map[string]bool{core.Hash(init): true}
	frontier := []node{{nil, init}}
	atomic.AddInt64(&st.states, 1)
	rep := func(h []string) map[string]any {
		return map[string]any{"name": name, "text": text, "history": h}
	}
	for len(frontier) > 0 {
		cur := frontier[0]
		frontier = frontier[1:]
		for _, l := range api.Langs {
			m, err := applyHistory(ctx, text, cur.hist)
			if err != nil {
				core.HarnessError("C14 replay of history failed: %v", err)
			}
			if d := api.Dump(m); d != cur.dump {
				core.HarnessError("C14: replaying history %v of %s does not reproduce its state (nondeterminism not owned by the harness)", cur.hist, name)
			}
			out := genString(m, l)
			after := api.Dump(m)
			atomic.AddInt64(&st.transitions, 1)
			if out != base[l] {
				ctx.Report(fmt.Sprintf("I1|output of %s depends on generators run before it (%s)", l, strings.Join(uniq(cur.hist), ",")),
					fmt.Sprintf("program %s: %s output after history %v differs from its output when generated alone\nfirst difference: %s", name, l, cur.hist, firstDiffLine(base[l], out)), rep(append(append([]string{}, cur.hist...), l)))
			}
			if after != cur.dump {
				ctx.Report(fmt.Sprintf("I2|the %s generator alters the parsed model (%s)", l, dumpDiffField(cur.dump, after)),
					fmt.Sprintf("program %s: running %s after %v changes the model\n%s", name, l, cur.hist, firstDiffLine(cur.dump, after)), rep(append(append([]string{}, cur.hist...), l)))
				h := core.Hash(after)
				if !seen[h] {
					if len(seen) >= stateCap {
						atomic.AddInt64(&st.capped, 1)
						return
					}
					seen[h] = true
					nh := append(append([]string{}, cur.hist...), l)
					frontier = append(frontier, node{nh, after})
					atomic.AddInt64(&st.states, 1)
					for {
						old := atomic.LoadInt64(&st.maxDepth)
						if int64(len(nh)) <= old || atomic.CompareAndSwapInt64(&st.maxDepth, old, int64(len(nh))) {
							break
						}
					}
				}
			}
		}
	}
	if samples != nil {
		samples.Add(map[string]any{"program": name, "states": len(seen), "text": core.Trunc(text, 300)})
	}
}

func uniq(h []string) []string {
	seen := map[string]bool{}
	var out []string
	for _, x := range h {
		if !seen[x] {
			seen[x] = true
			out = append(out, x)
		}
	}
	sort.Strings(out)
	return out
}

func firstDiffLine(a, b string) string {
	la, lb := strings.Split(a, "\n"), strings.Split(b, "\n")
	for i := 0; i < len(la) && i < len(lb); i++ {
		if la[i] != lb[i] {
			return fmt.Sprintf("line %d: %q vs %q", i+1, core.Trunc(la[i], 200), core.Trunc(lb[i], 200))
		}
	}
	return fmt.Sprintf("length %d vs %d lines", len(la), len(lb))
}

// dumpDiffField names the model field of the first difference between two dumps.
func dumpDiffField(a, b string) string {
	la, lb := strings.Split(a, "\n"), strings.Split(b, "\n")
	for i := 0; i < len(la) && i < len(lb); i++ {
		if la[i] != lb[i] {
			f := strings.TrimSpace(la[i])
			if j := strings.Index(f, ":"); j > 0 {
				return "field " + f[:j]
			}
			return "structure"
		}
	}
	return "structure"
}

// c14CLI: all 64 flag subsets through the real binary.
func c14CLI(ctx *core.Ctx, bin string, p *dsl.Program, st *c14Stats) {
	text := p.Text()
	if _, err := applyHistory(ctx, text, nil); err != nil {
		return
	}
	trees := make([]map[string]string, 64)
	var mu sync.Mutex
	crashedAny := false
	core.Parallel(64, func(mask int) {
		if mask == 0 {
			return
		}
		dir := ctx.TempPath(".s")
		os.MkdirAll(dir, 0o755)
		defer os.RemoveAll(dir)
		file := filepath.Join(dir, "in.dsl")
		os.WriteFile(file, []byte(text), 0o644)
		args := []string{"compile", "-f", file}
		for i, l := range api.Langs {
			if mask&(1<<i) != 0 {
				args = append(args, langFlag[l], "out_"+l)
			}
		}
		r := runCLI(dir, 120*time.Second, bin, args...)
		if r.crashed || r.exit != 0 {
			mu.Lock()
			crashedAny = true
			mu.Unlock()
			return
		}
		t := map[string]string{}
		for i, l := range api.Langs {
			if mask&(1<<i) != 0 {
				t[l] = dirTree(filepath.Join(dir, "out_"+l))
			}
		}
		mu.Lock()
		trees[mask] = t
		mu.Unlock()
	})
	if crashedAny {
		return // C11 / C07 own crashes and failures of accepted programs
	}
	for mask := 1; mask < 64; mask++ {
		if trees[mask] == nil {
			continue
		}
		atomic.AddInt64(&st.traces, 1)
		var hist []string
		for i, l := range api.Langs {
			if mask&(1<<i) != 0 {
				hist = append(hist, l)
			}
		}
		// facade history for the same subset (CLI order)
		m, err := applyHistory(ctx, text, nil)
		if err != nil {
			return
		}
		for i, l := range api.Langs {
			if mask&(1<<i) == 0 {
				continue
			}
			alone := trees[1<<i][l]
			got := trees[mask][l]
			want := genString(m, l)
			if got != want {
				ctx.Report("binding|the real binary's "+l+" tree differs from the library generators applied in the same order", fmt.Sprintf("program %s subset %v", p.Name, hist),
					map[string]any{"name": p.Name, "text": text, "history": hist})
			}
			if got != alone {
				var others []string
				for _, h := range hist {
					if h != l {
						others = append(others, h)
					}
				}
				// report with the smallest witness only: masks are visited in increasing order
				ctx.Report(fmt.Sprintf("cli|files generated for %s differ when other targets are requested in the same invocation", l),
					fmt.Sprintf("program %s: %s tree with %v differs from %s alone\nfirst difference: %s", p.Name, l, others, l, firstDiffLine(alone, got)),
					map[string]any{"name": p.Name, "text": text, "history": hist})
			}
		}
	}
}

func dirTree(root string) string {
	files := map[string][]byte{}
	filepath.WalkDir(root, func(p string, d os.DirEntry, err error) error {
		if err == nil && !d.IsDir() {
			rel, _ := filepath.Rel(root, p)
			b, _ := os.ReadFile(p)
			files[rel] = b
		}
		return nil
	})
	return treeString(files)
}
