package checks

import (
	"fmt"
	"os"
	"path/filepath"
	"sort"
	"strings"
	"time"

	api "github.com/xinchentechnote/fin-protoc/verifapi"
	"verif/engine/internal/core"
	"verif/engine/internal/dsl"
)

// Several output flags may name one directory (-g gen -r gen). The files of every requested target must then
// all be there, each with the bytes it has when its target is requested alone (C14: independent of the other
// targets requested; C16: exactly the generators' file set). Explored per program: all 15 pairs of targets
// and all six together, each in one shared directory, against the six single-target runs. A combination in
// which two targets emit a file of the same name is left out (the property does not say which one wins).

func dirFiles(dir string) map[string]string {
	out := map[string]string{}
	filepath.WalkDir(dir, func(p string, d os.DirEntry, err error) error {
		if err == nil && !d.IsDir() {
			rel, _ := filepath.Rel(dir, p)
			b, _ := os.ReadFile(p)
			out[rel] = string(b)
		}
		return nil
	})
	return out
}

// sharedDirRuns returns the number of real-binary runs made; report receives (what, detail, replay).
func sharedDirRuns(ctx *core.Ctx, bin string, p *dsl.Program, report func(what, detail string, rep map[string]any)) int {
	text := p.Text()
	if _, err := applyHistory(ctx, text, nil); err != nil {
		return 0
	}
	dir := ctx.TempPath(".sd")
	os.MkdirAll(dir, 0o755)
	defer os.RemoveAll(dir)
	file := filepath.Join(dir, "in.dsl")
	os.WriteFile(file, []byte(text), 0o644)
	runs := 0
	alone := map[string]map[string]string{}
	for _, l := range api.Langs {
		r := runCLI(dir, 120*time.Second, bin, "compile", "-f", file, langFlag[l], "alone_"+l)
		runs++
		if r.crashed || r.exit != 0 {
			return runs // C11 / C07 own failures of accepted programs
		}
		alone[l] = dirFiles(filepath.Join(dir, "alone_"+l))
	}
	var masks []int
	for i := 0; i < 6; i++ {
		for j := i + 1; j < 6; j++ {
			masks = append(masks, 1<<i|1<<j)
		}
	}
	masks = append(masks, 63)
	for k, mask := range masks {
		want := map[string]string{}
		owner := map[string]string{}
		clash := false
		var subset []string
		for i, l := range api.Langs {
			if mask&(1<<i) == 0 {
				continue
			}
			subset = append(subset, l)
			for n, b := range alone[l] {
				if _, dup := want[n]; dup {
					clash = true
				}
				want[n] = b
				owner[n] = l
			}
		}
		if clash {
			continue
		}
		out := fmt.Sprintf("shared_%d", k)
		args := []string{"compile", "-f", file}
		for _, l := range subset {
			args = append(args, langFlag[l], out)
		}
		r := runCLI(dir, 120*time.Second, bin, args...)
		runs++
		rep := map[string]any{"name": p.Name, "text": text, "args": args}
		if r.crashed {
			continue
		}
		if r.exit != 0 {
			report("non-zero exit when several targets share one output directory", fmt.Sprintf("%s %v: exit %d\n%s", p.Name, subset, r.exit, core.Trunc(r.stdout, 300)), rep)
			continue
		}
		got := dirFiles(filepath.Join(dir, out))
		var names []string
		for n := range want {
			names = append(names, n)
		}
		for n := range got {
			if _, ok := want[n]; !ok {
				names = append(names, n)
			}
		}
		sort.Strings(names)
		for _, n := range names {
			w, okw := want[n]
			g, okg := got[n]
			switch {
			case !okg:
				report("a file of "+owner[n]+" is missing when another target writes into the same directory", fmt.Sprintf("%s: targets %s into one directory: %s is missing", p.Name, strings.Join(subset, "+"), n), rep)
			case !okw:
				report("an extra file appears when targets share one output directory", fmt.Sprintf("%s: targets %s into one directory: extra %s", p.Name, strings.Join(subset, "+"), n), rep)
			case w != g:
				report("a file of "+owner[n]+" has other bytes when another target writes into the same directory", fmt.Sprintf("%s: targets %s into one directory: %s differs from the single-target run", p.Name, strings.Join(subset, "+"), n), rep)
			}
		}
	}
	// sibling output directories one of whose names is a prefix of the other's (out/msg-<a> and out/msg): a
	// path test done on strings instead of path elements confuses them
	for i := 0; i < 6; i++ {
		for j := 0; j < 6; j++ {
			if i == j || (!ctx.Thorough() && (i+j)%2 == 0) {
				continue
			}
			a, b := api.Langs[i], api.Langs[j]
			// order on the command line follows the tool's own order of targets; both directories are new
			tag := fmt.Sprintf("sib_%d_%d", i, j)
			da, db := filepath.Join(tag, "out", "msg-"+a), filepath.Join(tag, "out", "msg")
			args := []string{"compile", "-f", file, langFlag[a], da, langFlag[b], db}
			r := runCLI(dir, 120*time.Second, bin, args...)
			runs++
			rep := map[string]any{"name": p.Name, "text": text, "args": args}
			if r.crashed {
				continue
			}
			if r.exit != 0 {
				report("non-zero exit when one output directory's name is a prefix of a sibling's", fmt.Sprintf("%s: %s into out/msg-%s, %s into out/msg: exit %d\n%s", p.Name, a, a, b, r.exit, core.Trunc(r.stdout+r.stderr, 300)), rep)
				continue
			}
			for _, x := range []struct{ lang, d string }{{a, da}, {b, db}} {
				got := dirFiles(filepath.Join(dir, x.d))
				for n, want := range alone[x.lang] {
					if got[n] != want {
						report("a file of "+x.lang+" is missing or different when a sibling output directory's name is a prefix of its own (or the reverse)", fmt.Sprintf("%s: %s into out/msg-%s, %s into out/msg: %s", p.Name, a, a, b, n), rep)
						break
					}
				}
			}
		}
	}
	return runs
}
