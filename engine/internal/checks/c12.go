package checks

import (
	"bytes"
	"fmt"
	"os"
	"path/filepath"
	"regexp"
	"sort"
	"strconv"
	"strings"
	"sync"
	"sync/atomic"
	"time"

	"verif/engine/internal/core"
	"verif/engine/internal/dsl"
)

func init() { Registry["C12"] = C12 }

var reDiag = regexp.MustCompile(`(?m)^Syntax error at line (\d+), column (-?\d+): (.*)$`)

type compileRun struct {
	exit    int
	crashed bool
	stdout  string
	stderr  string
	diags   []cliDiag
	files   []string // files found under the output directories
	timeout bool
}

type cliDiag struct {
	line int
	msg  string
}

// runCompile runs the real binary with all six outputs requested.
func runCompile(ctx *core.Ctx, bin, text string) compileRun {
	return runCompileFlags(ctx, bin, text, []string{"-l", "o/lua", "-r", "o/rs", "-g", "o/go", "-j", "o/java", "-p", "o/py", "-c", "o/cpp"})
}

// runCompileFlags compiles text with the given output flags (possibly none).
func runCompileFlags(ctx *core.Ctx, bin, text string, flags []string) compileRun {
	dir := ctx.TempPath(".c")
	os.MkdirAll(dir, 0o755)
	defer os.RemoveAll(dir)
	file := filepath.Join(dir, "in.dsl")
	os.WriteFile(file, []byte(text), 0o644)
	cctx, cmd := cmdWithTimeout(120*time.Second, bin, append([]string{"compile", "-f", file}, flags...)...)
	var so, se bytes.Buffer
	cmd.Stdout = &limitedBuf{b: &so, max: 1 << 18}
	cmd.Stderr = &limitedBuf{b: &se, max: 1 << 16}
	cmd.Dir = dir
	err := cmd.Run()
	r := compileRun{stdout: so.String(), stderr: se.String()}
	if cctx.Err() != nil {
		r.timeout = true
	}
	if err != nil {
		r.exit = 1
		if ee, ok := err.(interface{ ExitCode() int }); ok {
			r.exit = ee.ExitCode()
		}
		r.crashed = crashed(err, r.stderr+r.stdout)
	}
	for _, m := range reDiag.FindAllStringSubmatch(r.stdout, -1) {
		n, _ := strconv.Atoi(m[1])
		r.diags = append(r.diags, cliDiag{n, m[3]})
	}
	filepath.WalkDir(filepath.Join(dir, "o"), func(p string, d os.DirEntry, err error) error {
		if err == nil && !d.IsDir() {
			rel, _ := filepath.Rel(dir, p)
			r.files = append(r.files, rel)
		}
		return nil
	})
	return r
}

// C12: ill-formed DSL is rejected at the right line; well-formed DSL is accepted.
func C12(ctx *core.Ctx) int {
	bin := ctx.BuildRepoBinary("pinned")
	faults := faultCorpus(ctx)
	if ctx.Replay != "" {
		var r struct {
			Replay struct {
				Fault *Fault `json:"fault"`
				Name  string `json:"name"`
				Text  string `json:"text"`
			} `json:"replay"`
		}
		readReplay(ctx, &r)
		if r.Replay.Fault != nil {
			c12Fault(ctx, bin, *r.Replay.Fault, nil)
		} else {
			c12Accept(ctx, bin, r.Replay.Name, r.Replay.Text, "replayed")
		}
		return ctx.Finish("fault_enumeration", core.Coverage{"evaluations": 1, "distinct_nontrivial": 0, "rule": "replay", "samples": []any{r.Replay.Name}})
	}
	var evals int64
	outcomes := sync.Map{}
	// a fault injected into a base program that is itself not accepted is unobservable: find those bases first
	bases := faultBasePrograms(ctx)
	badBase := sync.Map{}
	core.Parallel(len(bases), func(i int) {
		r := runCompile(ctx, bin, bases[i].Text())
		if r.crashed || r.exit != 0 || len(r.diags) > 0 {
			badBase.Store(bases[i].Name, true)
		}
	})
	var unobservable int64
	core.Parallel(len(faults), func(i int) {
		base := faults[i].Name[:strings.Index(faults[i].Name, "/"+faults[i].Class+"/")]
		if _, bad := badBase.Load(base); bad {
			atomic.AddInt64(&unobservable, 1)
			return
		}
		c12Fault(ctx, bin, faults[i], &outcomes)
		atomic.AddInt64(&evals, 1)
	})
	// rejection does not depend on which outputs were requested: one fault of every class, compiled with no
	// output flag at all and with each single one
	{
		perClass := map[string]Fault{}
		for _, f := range faults {
			base := f.Name[:strings.Index(f.Name, "/"+f.Class+"/")]
			if _, bad := badBase.Load(base); bad {
				continue
			}
			if _, ok := perClass[f.Class]; !ok {
				perClass[f.Class] = f
			}
		}
		var classes []string
		for c := range perClass {
			classes = append(classes, c)
		}
		sort.Strings(classes)
		flagSets := [][]string{{}, {"-l", "o/lua"}, {"-r", "o/rs"}, {"-g", "o/go"}, {"-j", "o/java"}, {"-p", "o/py"}, {"-c", "o/cpp"}}
		type job struct {
			f     Fault
			flags []string
		}
		var jobs []job
		for _, c := range classes {
			for _, fl := range flagSets {
				jobs = append(jobs, job{perClass[c], fl})
			}
		}
		core.Parallel(len(jobs), func(i int) {
			j := jobs[i]
			r := runCompileFlags(ctx, bin, j.f.Text, j.flags)
			atomic.AddInt64(&evals, 1)
			which := "no output flag"
			if len(j.flags) > 0 {
				which = "only " + j.flags[0]
			}
			if r.crashed || r.timeout {
				return // C11
			}
			if r.exit == 0 || len(r.diags) == 0 || len(r.files) > 0 {
				ctx.Report(fmt.Sprintf("%s|not rejected when the compiler is run with %s (exit %d, %d diagnostics, %d files)", j.f.Class, which, r.exit, len(r.diags), len(r.files)),
					fmt.Sprintf("%s\n%s", j.f.Name, core.Trunc(j.f.Text, 500)), map[string]any{"fault": j.f, "name": j.f.Name, "text": j.f.Text, "flags": j.flags})
			}
		})
	}
	// well-formed programs must be accepted
	var accepts []struct{ name, text, kind string }
	for _, p := range faultBasePrograms(ctx) {
		for _, lay := range faultLayouts {
			toks := p.Tokens()
			g := dsl.Gaps(toks, dsl.Pretty)
			if lay.name == "one line" {
				g = dsl.Gaps(toks, dsl.OneLine)
			}
			g[0] = lay.leading + g[0]
			accepts = append(accepts, struct{ name, text, kind string }{p.Name + "/" + lay.name, dsl.Join(toks, g), "base program " + familyOf(p.Name)})
		}
	}
	// every documented value of every documented option, alone and set explicitly to its default
	uni := dsl.Universal()
	for _, name := range dsl.OptionNames {
		for _, v := range dsl.OptionValues[name] {
			q := dsl.WithOptions(uni, []dsl.OptDeviation{{Name: name, Value: v}})
			accepts = append(accepts, struct{ name, text, kind string }{q.Name, q.Text(), "documented option value " + name + " = " + v})
		}
	}
	// spelling variants of well-formed programs (documented constructs only)
	for _, p := range acceptVariants() {
		accepts = append(accepts, struct{ name, text, kind string }{p.Name, p.Text(), "documented construct: " + p.Notes[0]})
	}
	// the targeted codec programs of C04-C06 (length-of, match and checksum shapes; boundary keys) are well-formed too
	for _, p := range append(append(lengthPrograms(), matchPrograms()...), checksumPrograms()...) {
		accepts = append(accepts, struct{ name, text, kind string }{p.Name, p.Text(), "base program " + familyOf(p.Name)})
	}
	core.Parallel(len(accepts), func(i int) {
		c12Accept(ctx, bin, accepts[i].name, accepts[i].text, accepts[i].kind)
		atomic.AddInt64(&evals, 1)
	})
	nd := 0
	var oc []string
	outcomes.Range(func(k, v any) bool { nd++; oc = append(oc, k.(string)); return true })
	classes := map[string]int{}
	for _, f := range faults {
		classes[f.Class]++
	}
	samples := []any{}
	for i := 0; i < len(faults) && len(samples) < 5; i += len(faults)/5 + 1 {
		samples = append(samples, map[string]any{"name": faults[i].Name, "class": faults[i].Class, "span_lines": faults[i].Span, "text": core.Trunc(faults[i].Text, 500)})
	}
	cov := core.Coverage{
		"evaluations":         evals,
		"distinct_nontrivial": nd,
		"rule": "faulty programs = base programs (P1 subset, P3 subset, P5, P6; plain and shifted by three leading lines) x 13 fault classes x every site; each compiled by the real binary with six outputs requested; " +
			"oracle: exit != 0, a 'Syntax error at line N' line with N inside the offending declaration's lines and a message naming the offence, no file written. plus every base program, every documented option value and documented spelling: accepted, exit 0, no diagnostics. distinct_nontrivial = distinct (fault class, outcome) pairs",
		"samples":           samples,
		"faulty_programs":   len(faults),
		"accepted_programs": len(accepts),
		"faults_per_class":  classes,
		"outcomes":          oc,
		"exhaustive":        true,
	}
	ctx.Assumes = append(ctx.Assumes,
		"'the line of the offending declaration' is read as: any line from the first to the last token of the second / referring declaration",
		"'naming the offence' is read as: the message contains the offending identifier or a word of the fault class")
	return ctx.Finish("fault_enumeration", cov)
}

func familyOf(name string) string {
	if i := strings.Index(name, "/"); i > 0 {
		return name[:i]
	}
	return name
}

func c12Fault(ctx *core.Ctx, bin string, f Fault, outcomes *sync.Map) {
	r := runCompile(ctx, bin, f.Text)
	rep := map[string]any{"fault": f, "name": f.Name, "text": f.Text}
	cls := f.Class
	if f.Variant != "" {
		cls += " (" + f.Variant + ")"
	}
	note := func(o string) {
		if outcomes != nil {
			outcomes.Store(f.Class+": "+o, true)
		}
	}
	switch {
	case r.timeout:
		note("timeout")
		ctx.Report(cls+"|compiler does not terminate", f.Name, rep)
		return
	case r.crashed:
		note("crash")
		ctx.Report(cls+"|not rejected: the compiler crashes instead ("+noFrame(crashClass(r.stderr+r.stdout))+")", fmt.Sprintf("%s\n%s\n--- stderr\n%s", f.Name, core.Trunc(f.Text, 600), core.Trunc(r.stderr, 600)), rep)
		return
	case r.exit == 0:
		note("accepted")
		ctx.Report(cls+"|not rejected: exit status 0", fmt.Sprintf("%s (offending lines %d-%d)\n%s", f.Name, f.Span[0], f.Span[1], core.Trunc(f.Text, 800)), rep)
		if len(r.files) == 0 {
			return
		}
	}
	if len(r.files) > 0 {
		note("files written")
		if r.exit != 0 {
			ctx.Report(cls+"|rejected but output files were written", fmt.Sprintf("%s: %v", f.Name, r.files), rep)
		}
	}
	if r.exit == 0 {
		return
	}
	if len(r.diags) == 0 {
		note("rejected without diagnostic line")
		ctx.Report(cls+"|rejected without a 'Syntax error at line' diagnostic", fmt.Sprintf("%s\nstdout: %s\nstderr: %s", f.Name, core.Trunc(r.stdout, 400), core.Trunc(r.stderr, 400)), rep)
		return
	}
	// some diagnostic must sit on the offending declaration and name the offence
	var best string
	okLine, okMsg := false, false
	for _, d := range r.diags {
		inSpan := d.line >= f.Span[0] && d.line <= f.Span[1]
		names := false
		lm := strings.ToLower(d.msg)
		for _, n := range f.Names {
			if strings.Contains(d.msg, n) {
				names = true
			}
		}
		for _, w := range f.Words {
			if strings.Contains(lm, strings.ToLower(w)) {
				names = true
			}
		}
		if inSpan && names {
			okLine, okMsg = true, true
			break
		}
		if names && !okMsg {
			okMsg = true
			switch {
			case d.line < f.Span[0]:
				best = "before"
			default:
				best = "after"
			}
		}
		if inSpan {
			okLine = true
		}
	}
	switch {
	case okLine && okMsg && best == "":
		note("rejected correctly")
	case okMsg:
		note("wrong line")
		ctx.Report(cls+"|diagnostic names the offence but its line is "+best+" the offending declaration", fmt.Sprintf("%s: offending lines %d-%d, diagnostics %v\n%s", f.Name, f.Span[0], f.Span[1], r.diags, core.Trunc(f.Text, 800)), rep)
	default:
		note("wrong message")
		ctx.Report(cls+"|no diagnostic names the offence", fmt.Sprintf("%s: diagnostics %v\n%s", f.Name, r.diags, core.Trunc(f.Text, 800)), rep)
	}
}

func c12Accept(ctx *core.Ctx, bin, name, text, kind string) {
	r := runCompile(ctx, bin, text)
	rep := map[string]any{"name": name, "text": text}
	switch {
	case r.crashed:
		ctx.Report("well-formed program crashes the compiler|"+kind+"|"+noFrame(crashClass(r.stderr+r.stdout)), fmt.Sprintf("%s: %s\n%s\n%s", name, crashClass(r.stderr+r.stdout), core.Trunc(text, 600), core.Trunc(r.stderr, 500)), rep)
	case r.exit != 0 || len(r.diags) > 0:
		msg := ""
		if len(r.diags) > 0 {
			msg = normDiag(r.diags[0].msg)
		} else {
			msg = core.Trunc(strings.TrimSpace(lastLine(r.stdout)), 80)
		}
		ctx.Report("well-formed program rejected|"+kind+"|"+msg, fmt.Sprintf("%s: exit %d, diagnostics %v\n%s", name, r.exit, r.diags, core.Trunc(text, 800)), rep)
	}
}

func lastLine(s string) string {
	l := strings.Split(strings.TrimSpace(s), "\n")
	return l[len(l)-1]
}

func normDiag(m string) string {
	if len(m) > 60 {
		m = m[:60]
	}
	return m
}

// acceptVariants: well-formed programs that use documented constructs in their other spellings.
func acceptVariants() []*dsl.Program {
	var out []*dsl.Program
	mk := func(note string, p *dsl.Program) {
		p.Opts = dsl.TargetOpts("gaccept")
		p.Notes = []string{note}
		p.Name = "accept/" + note
		out = append(out, p)
	}
	al := dsl.Sc("u16", "Val")
	al.Alias = true
	mk("long type alias", &dsl.Program{Packets: []*dsl.Packet{dsl.Root("Msg", al)}})
	mk("MetaData entry without doc string", &dsl.Program{
		Meta:    []*dsl.MetaBlock{{Name: "Dict", Entries: []*dsl.MetaEntry{{Name: "Price", Kind: dsl.Scalar, Type: "u64"}}}},
		Packets: []*dsl.Packet{dsl.Root("Msg", dsl.Mr("Price", ""))}})
	mk("empty padding attribute", &dsl.Program{Packets: []*dsl.Packet{dsl.Root("Msg", dsl.Fx(4, "Val", &dsl.Pad{Left: true}))}})
	tg := dsl.Sc("u16", "Val")
	tg.Tag = 7
	mk("tag attribute", &dsl.Program{Packets: []*dsl.Packet{dsl.Root("Msg", tg)}})
	m := dsl.Mt("Kind", "Body", dsl.K("Alpha", "1"), dsl.K("Beta", "2"))
	m.PairCommas = 1
	mk("match pairs without commas", &dsl.Program{Packets: []*dsl.Packet{dsl.Root("Msg", dsl.Sc("u16", "Kind"), m), dsl.Pk("Alpha"), dsl.Pk("Beta")}})
	for _, variant := range []string{"MetaData block after the packets that use it", "options block after the packets", "MetaData and options after the packets"} {
		q := &dsl.Program{
			Meta:    []*dsl.MetaBlock{{Name: "Dict", Entries: []*dsl.MetaEntry{{Name: "Price", Kind: dsl.Scalar, Type: "u64", Doc: "price"}, {Name: "Symbol", Kind: dsl.FixStr, Type: "char", N: 4, Doc: "sym"}, {Name: "LastPx", Kind: dsl.MetaRef, Ref: "Price", Doc: "alias"}}}},
			Packets: []*dsl.Packet{dsl.Root("Msg", dsl.Mr("Price", ""), dsl.Mr("Symbol", "Sym"), dsl.Rep(dsl.Mr("LastPx", "Hist")), dsl.Ob("Leg", "")), dsl.Pk("Leg", dsl.Mr("Price", "Bid"))}}
		q.MetaLast = strings.Contains(variant, "MetaData")
		mk(variant, q)
		if strings.Contains(variant, "options") {
			q.OptsLast = true
			q.Opts = append(q.Opts, dsl.Opt{Name: "LittleEndian", Value: "true", Semi: true})
		}
	}
	mk("forward reference to a later packet", &dsl.Program{Packets: []*dsl.Packet{dsl.Pk("First", dsl.Ob("Later", "")), dsl.Root("Msg", dsl.Ob("First", "")), dsl.Pk("Later", dsl.Sc("u8", "X"))}})
	return out
}
