package checks

import (
	"bufio"
	"encoding/json"
	"fmt"
	"os"
	"os/exec"
	"regexp"
	"runtime/debug"
	"strings"
	"sync"
	"syscall"
	"time"

	api "github.com/xinchentechnote/fin-protoc/verifapi"
	"verif/engine/internal/core"
)

// The worker protocol: the parent writes one JSON object per line on stdin ({"id":..,"text":..}); the
// worker answers "START <id>" before touching an input and "DONE <id> <json>" after it. When the
// worker dies (stack exhaustion and other fatal errors cannot be recovered), the input named by the
// last START is the one that killed it; the parent records that and restarts a worker for the rest.

type workIn struct {
	ID   int    `json:"id"`
	Text string `json:"text"`
	Mode string `json:"mode"` // "all" (format + parse + generators)
}

// WorkOut is the verdict for one input.
type WorkOut struct {
	ID      int               `json:"id"`
	Format  string            `json:"format"`  // ok | error | panic|<frame>|<class>
	Parse   string            `json:"parse"`   // ok | syntax | diag | panic|...
	Gen     map[string]string `json:"gen"`     // per language: ok | error | panic|...
	Crashed string            `json:"crashed"` // set by the parent when the worker died on this input
}

func panicSig(err error) string {
	p, ok := err.(*api.Panic)
	if !ok {
		return "error"
	}
	return "panic|" + p.TopFrame() + "|" + panicClass(p.Value)
}

var reHex = regexp.MustCompile(`0x[0-9a-f]+|\d+`)

func panicClass(v string) string {
	switch {
	case strings.Contains(v, "nil pointer dereference"):
		return "nil pointer dereference"
	case strings.Contains(v, "interface conversion"):
		if strings.Contains(v, "is nil") {
			return "interface conversion of nil"
		}
		return "interface conversion"
	case strings.Contains(v, "index out of range"):
		return "index out of range"
	case strings.Contains(v, "slice bounds out of range"):
		return "slice bounds out of range"
	}
	v = reHex.ReplaceAllString(v, "N")
	if len(v) > 60 {
		v = v[:60]
	}
	return v
}

// Worker is the subprocess entry point.
func Worker() {
	debug.SetMaxStack(48 << 20)
	var lim syscall.Rlimit
	lim.Cur, lim.Max = 6<<30, 6<<30
	if os.Getenv("VERIF_NO_RLIMIT") == "" {
		syscall.Setrlimit(syscall.RLIMIT_AS, &lim)
	}
	// crash reports of the runtime go to a file the parent reads after the death (more robust than a pipe)
	if f, err := os.Create(fmt.Sprintf("%s/wlog.%d", os.Getenv("VERIF_WORKER_DIR"), os.Getpid())); err == nil {
		syscall.Dup2(int(f.Fd()), 2)
	}
	in := bufio.NewReaderSize(os.Stdin, 1<<20)
	out := bufio.NewWriter(core.Out)
	dir := os.Getenv("VERIF_WORKER_DIR")
	path := fmt.Sprintf("%s/w%d.dsl", dir, os.Getpid())
	for {
		line, err := in.ReadBytes('\n')
		if len(line) > 0 {
			var wi workIn
			if e := json.Unmarshal(line, &wi); e == nil {
				fmt.Fprintf(out, "START %d\n", wi.ID)
				out.Flush()
				res := workOne(wi, path)
				b, _ := json.Marshal(res)
				fmt.Fprintf(out, "DONE %d %s\n", wi.ID, b)
				out.Flush()
			}
		}
		if err != nil {
			break
		}
	}
	os.Remove(path)
}

func workOne(wi workIn, path string) WorkOut {
	res := WorkOut{ID: wi.ID, Gen: map[string]string{}}
	if _, err := api.Format(wi.Text); err != nil {
		res.Format = panicSig(err)
	} else {
		res.Format = "ok"
	}
	m, diags, err := api.ParseText(path, wi.Text)
	switch {
	case err != nil:
		if _, ok := err.(*api.Panic); ok {
			res.Parse = panicSig(err)
		} else {
			res.Parse = "syntax"
		}
		return res
	case len(diags) > 0:
		res.Parse = "diag"
		return res
	}
	res.Parse = "ok"
	_ = m
	for _, lang := range api.Langs {
		mm, _, err := api.ParseText(path, wi.Text)
		if err != nil {
			res.Gen[lang] = panicSig(err)
			continue
		}
		if _, err := api.Generate(mm, lang); err != nil {
			res.Gen[lang] = panicSig(err)
		} else {
			res.Gen[lang] = "ok"
		}
	}
	return res
}

// runWorkers pushes texts through worker subprocesses and returns a verdict per text.
func runWorkers(ctx *core.Ctx, texts []string, nWorkers int, perInput time.Duration) []WorkOut {
	results := make([]WorkOut, len(texts))
	for i := range results {
		results[i].ID = -1
	}
	self, _ := os.Executable()
	var mu sync.Mutex
	next := 0
	take := func(n int) []int {
		mu.Lock()
		defer mu.Unlock()
		var ids []int
		for len(ids) < n && next < len(texts) {
			ids = append(ids, next)
			next++
		}
		return ids
	}
	var wg sync.WaitGroup
	for w := 0; w < nWorkers; w++ {
		wg.Add(1)
		go func() {
			defer wg.Done()
			for {
				batch := take(200)
				if len(batch) == 0 {
					return
				}
				runBatch(ctx, self, texts, batch, results, perInput)
			}
		}()
	}
	wg.Wait()
	return results
}

func runBatch(ctx *core.Ctx, self string, texts []string, batch []int, results []WorkOut, perInput time.Duration) {
	for len(batch) > 0 {
		cmd := exec.Command(self, "--worker")
		cmd.Env = append(os.Environ(), "VERIF_WORKER_DIR="+ctx.Scratch)
		stdin, _ := cmd.StdinPipe()
		stdout, _ := cmd.StdoutPipe()
		var stderr strings.Builder
		cmd.Stderr = &limitedWriter{b: &stderr, max: 1 << 16}
		if err := cmd.Start(); err != nil {
			core.HarnessError("start worker: %v", err)
		}
		go func(ids []int) {
			w := bufio.NewWriter(stdin)
			for _, id := range ids {
				b, _ := json.Marshal(workIn{ID: id, Text: texts[id], Mode: "all"})
				w.Write(b)
				w.WriteByte('\n')
			}
			w.Flush()
			stdin.Close()
		}(batch)
		current := -1
		done := map[int]bool{}
		lines := make(chan string, 64)
		go func() {
			sc := bufio.NewScanner(stdout)
			sc.Buffer(make([]byte, 1<<20), 1<<26)
			for sc.Scan() {
				lines <- sc.Text()
			}
			close(lines)
		}()
		timer := time.NewTimer(perInput)
		hung := false
	loop:
		for {
			select {
			case l, ok := <-lines:
				if !ok {
					break loop
				}
				if strings.HasPrefix(l, "START ") {
					fmt.Sscanf(l, "START %d", &current)
					if !timer.Stop() {
						select {
						case <-timer.C:
						default:
						}
					}
					timer.Reset(perInput)
				} else if strings.HasPrefix(l, "DONE ") {
					var id int
					fmt.Sscanf(l, "DONE %d", &id)
					rest := l[strings.Index(l[5:], " ")+6:]
					var wo WorkOut
					if err := json.Unmarshal([]byte(rest), &wo); err == nil {
						results[id] = wo
						done[id] = true
					}
					current = -1
				} else if stderr.Len() < 4000 {
					stderr.WriteString("[stdout] " + l + "\n")
				}
			case <-timer.C:
				hung = true
				cmd.Process.Kill()
				break loop
			}
		}
		werr := cmd.Wait()
		logPath := fmt.Sprintf("%s/wlog.%d", ctx.Scratch, cmd.Process.Pid)
		if b, err := os.ReadFile(logPath); err == nil {
			if len(b) > 1<<16 {
				b = b[:1<<16]
			}
			stderr.Write(b)
		}
		os.Remove(logPath)
		var rest []int
		for _, id := range batch {
			if done[id] {
				continue
			}
			if id == current {
				if hung {
					results[id] = WorkOut{ID: id, Crashed: "hang"}
				} else {
					cc := crashClass(stderr.String())
					if strings.HasPrefix(cc, "fatal|died|") {
						cc += fmt.Sprintf(" [%v]", werr)
					}
					results[id] = WorkOut{ID: id, Crashed: cc}
				}
				continue
			}
			rest = append(rest, id)
		}
		if current == -1 && len(rest) == len(batch) {
			core.HarnessError("worker made no progress: %s", core.Trunc(stderr.String(), 2000))
		}
		batch = rest
	}
}

type limitedWriter struct {
	b   *strings.Builder
	max int
}

func (l *limitedWriter) Write(p []byte) (int, error) {
	if l.b.Len() < l.max {
		n := l.max - l.b.Len()
		if n > len(p) {
			n = len(p)
		}
		l.b.Write(p[:n])
	}
	return len(p), nil
}

var reFrame = regexp.MustCompile(`(?m)^github\.com/xinchentechnote/fin-protoc/([^\s(]+(?:\([^)]*\))?[^\s(]*)\(`)

// noFrame drops the function name from a crash class ("fatal|<kind>|<frame>", "panic|<frame>|<class>").
func noFrame(cls string) string {
	p := strings.Split(cls, "|")
	switch {
	case len(p) >= 3 && p[0] == "fatal" && p[1] != "died":
		return p[0] + "|" + p[1]
	case len(p) >= 3 && p[0] == "panic":
		return p[0] + "|" + strings.Join(p[2:], "|")
	}
	return cls
}

// crashSig identifies a crash by what a user can observe and reproduce - the entry point, the kind of crash and
// the input - and not by the name of the function it happens in: renaming or splitting a function must not turn
// a recorded finding into a new alarm, while a crash on any other input, or of another kind on the same input,
// is still a new violation.
func crashSig(entry, cls, text string) string {
	one := strings.Join(strings.Fields(text), " ")
	if len(one) > 48 {
		one = one[:48] + "…"
	}
	return entry + "|" + noFrame(cls) + "|input " + core.Hash(text)[:10] + " " + one
}

// crashClass turns the stderr of a dead Go process into "fatal|<kind>|<first repository frame>".
func crashClass(stderr string) string {
	kind := "died"
	switch {
	case strings.Contains(stderr, "stack overflow") || strings.Contains(stderr, "goroutine stack exceeds"):
		kind = "stack overflow"
	case strings.Contains(stderr, "out of memory") || strings.Contains(stderr, "cannot allocate memory"):
		kind = "out of memory"
	case strings.Contains(stderr, "panic:"):
		kind = "panic"
		if i := strings.Index(stderr, "panic:"); i >= 0 {
			l := stderr[i:]
			if j := strings.Index(l, "\n"); j > 0 {
				l = l[:j]
			}
			kind = "panic " + panicClass(l)
		}
	case strings.Contains(stderr, "fatal error:"):
		kind = "fatal error"
	}
	frame := "?"
	if kind == "stack overflow" {
		// the frame on top at the moment of exhaustion is accidental; name the recursion by the repository
		// function that occurs most often in the trace (ties: alphabetical)
		count := map[string]int{}
		for _, m := range reFrame.FindAllStringSubmatch(stderr, -1) {
			if !strings.HasPrefix(m[1], "verifapi.") {
				count[m[1]]++
			}
		}
		// (the trace shows the 50 innermost and the 50 outermost frames: in a mutual recursion of two or three
		// functions which of them is counted once more depends on where the stack ran out, so "most often" alone is not
		// stable) - every function that takes part in the cycle occurs at least half as often as the most frequent
		// one; the recursion is named after the alphabetically first of them
		best := 0
		for _, n := range count {
			if n > best {
				best = n
			}
		}
		for f, n := range count {
			if 2*n >= best && (frame == "?" || f < frame) {
				frame = f
			}
		}
	} else {
		for _, m := range reFrame.FindAllStringSubmatch(stderr, -1) {
			if strings.HasPrefix(m[1], "verifapi.") {
				continue
			}
			frame = m[1]
			break
		}
	}
	if kind == "died" {
		t := strings.TrimSpace(stderr)
		if len(t) > 200 {
			t = t[:200]
		}
		return "fatal|died|" + t
	}
	return "fatal|" + kind + "|" + frame
}
