package checks

import (
	"bytes"
	"encoding/json"
	"fmt"
	"os"
	"path/filepath"
	"runtime"
	"sort"
	"strconv"
	"strings"
	"sync"
	"sync/atomic"
	"time"

	api "github.com/xinchentechnote/fin-protoc/verifapi"
	seam "github.com/xinchentechnote/fin-protoc/verifseam"
	"verif/engine/internal/core"
	"verif/engine/internal/dsl"
)

func init() { Registry["C13"] = C13 }

// ---- E3: the choice-point explorer ----------------------------------------------------------

type choicePoint struct {
	site string
	n    int // number of alternatives
}

// execCtl controls one execution: it replays a prefix of choices, then takes choice 0.
type execCtl struct {
	prefix   []int
	points   []choicePoint
	choices  []int
	err      string
	fullPerm int // enumerate all n! orders up to this n; beyond it only adjacent transpositions, rotation and reversal
}

var (
	ctlMu sync.RWMutex
	ctls  = map[int64]*execCtl{}
)

func goid() int64 {
	var buf [64]byte
	n := runtime.Stack(buf[:], false)
	// "goroutine 123 ["
	f := bytes.Fields(buf[:n])
	id, _ := strconv.ParseInt(string(f[1]), 10, 64)
	return id
}

func currentCtl() *execCtl {
	ctlMu.RLock()
	c := ctls[goid()]
	ctlMu.RUnlock()
	return c
}

func (c *execCtl) choose(site string, n int) int {
	i := len(c.points)
	c.points = append(c.points, choicePoint{site, n})
	ch := 0
	if i < len(c.prefix) {
		ch = c.prefix[i]
		if ch < 0 || ch >= n {
			c.err = fmt.Sprintf("choice %d out of range at point %d (%s, %d alternatives): replay diverged", ch, i, site, n)
			ch = 0
		}
	}
	c.choices = append(c.choices, ch)
	return ch
}

func factorial(n int) int {
	f := 1
	for i := 2; i <= n; i++ {
		f *= i
	}
	return f
}

// nthPermutation returns the k-th permutation (lexicographic, 0 = identity) of keys.
func nthPermutation(keys []string, k int) []string {
	n := len(keys)
	pool := append([]string(nil), keys...)
	out := make([]string, 0, n)
	for i := n; i >= 1; i-- {
		f := factorial(i - 1)
		idx := k / f
		k %= f
		out = append(out, pool[idx])
		pool = append(pool[:idx], pool[idx+1:]...)
	}
	return out
}

// reducedOrders: for large maps, the alternatives are identity, each adjacent transposition, rotation by one and reversal.
func reducedOrder(keys []string, k int) []string {
	n := len(keys)
	out := append([]string(nil), keys...)
	switch {
	case k == 0:
	case k <= n-1:
		out[k-1], out[k] = out[k], out[k-1]
	case k == n:
		out = append(out[1:], out[0])
	default:
		for i, j := 0, n-1; i < j; i, j = i+1, j-1 {
			out[i], out[j] = out[j], out[i]
		}
	}
	return out
}

func installSeam() {
	seam.OrderHook = func(site string, sorted []string) []string {
		c := currentCtl()
		if c == nil || len(sorted) < 2 {
			return sorted
		}
		if len(sorted) <= c.fullPerm {
			k := c.choose(site, factorial(len(sorted)))
			return nthPermutation(sorted, k)
		}
		k := c.choose(site, len(sorted)+2)
		return reducedOrder(sorted, k)
	}
	seam.NowHook = func(site string) time.Time {
		c := currentCtl()
		if c == nil {
			return time.Now()
		}
		if c.choose(site, 2) == 1 {
			return time.Now().AddDate(1, 0, 0)
		}
		return time.Now()
	}
}

// runControlled executes f under a controller on the calling goroutine.
func runControlled(prefix []int, fullPerm int, f func() string) (*execCtl, string) {
	c := &execCtl{prefix: prefix, fullPerm: fullPerm}
	id := goid()
	ctlMu.Lock()
	ctls[id] = c
	ctlMu.Unlock()
	out := f()
	ctlMu.Lock()
	delete(ctls, id)
	ctlMu.Unlock()
	return c, out
}

type c13Stats struct {
	execs, points, traces int64
	reduced, bounded      int64
	outcomes              sync.Map
}

// C13: compilation is deterministic.
func C13(ctx *core.Ctx) int {
	installSeam()
	var progs []*dsl.Program
	progs = append(progs, dsl.P5()...)
	progs = append(progs, dsl.P6()...)
	for _, p := range dsl.P4() {
		if strings.Contains(p.Name, "collide") || strings.Contains(p.Name, "initialism") || strings.Contains(p.Name, "packet-long") || strings.Contains(p.Name, "inline-long") || ctx.Thorough() {
			progs = append(progs, p)
		}
	}
	p2 := dsl.P2()
	for i, p := range p2 {
		if i%13 == 0 || ctx.Thorough() {
			progs = append(progs, p)
		}
	}
	p1 := dsl.P1()
	for i, p := range p1 {
		if i%9 == 0 || ctx.Thorough() || (strings.Contains(p.Name, "match") && !strings.Contains(p.Name, "lenof") && i%2 == 0) {
			progs = append(progs, p)
		}
	}
	for i, p := range dsl.P3() {
		// nested inline objects and deep chains reach per-packet early exits and nested emitters
		if ctx.Thorough() || strings.Contains(p.Name, "inline>inline") || strings.Contains(p.Name, "repinline>repinline") || i%11 == 0 {
			progs = append(progs, p)
		}
	}
	// MetaData entries that refer to other entries, in chains of one to three steps (whatever is resolved by walking
	// a map of entries meets the deep ones before or after the entries they refer to)
	progs = append(progs, attributePrograms()...)
	{
		var es []*dsl.MetaEntry
		add := func(base *dsl.MetaEntry, names ...string) {
			es = append(es, base)
			prev := base.Name
			for _, n := range names {
				es = append(es, &dsl.MetaEntry{Name: n, Kind: dsl.MetaRef, Ref: prev, Doc: "refers to " + prev})
				prev = n
			}
		}
		add(&dsl.MetaEntry{Name: "Amount", Kind: dsl.Scalar, Type: "u64", Doc: "amount"}, "Price", "LimitPrice", "StopPrice")
		add(&dsl.MetaEntry{Name: "Sym", Kind: dsl.FixStr, Type: "char", N: 4, Doc: "symbol"}, "Sym2", "Sym3")
		add(&dsl.MetaEntry{Name: "Txt", Kind: dsl.DynStr, Type: "string", Doc: "text"}, "Txt2", "Txt3")
		p := &dsl.Program{Name: "META/reference-chains", Meta: []*dsl.MetaBlock{{Name: "Dict", Entries: es}},
			Packets: []*dsl.Packet{dsl.Root("Msg", dsl.Mr("StopPrice", "A"), dsl.Mr("Sym3", "B"), dsl.Mr("Txt3", "C"), dsl.Mr("LimitPrice", "D"), dsl.Rep(dsl.Mr("Price", "E")))}}
		p.Opts = dsl.TargetOpts("gmetachains")
		progs = append(progs, p)
	}
	if ctx.Replay != "" {
		var r struct {
			Replay struct {
				Name, Text, Lang string
				Choices          []int
			} `json:"replay"`
		}
		readReplay(ctx, &r)
		st := &c13Stats{}
		c13Explore(ctx, r.Replay.Name, r.Replay.Text, r.Replay.Lang, st, 5, 200000, nil)
		return ctx.Finish("model_checking", core.Coverage{"states": 1, "transitions": st.execs, "traces_validated_against_impl": 0, "samples": []any{r.Replay.Name}})
	}
	st := &c13Stats{}
	samples := &core.Sample{N: 8}
	type job struct {
		p     *dsl.Program
		lang  string
		name  string
		text  string
		plain bool
	}
	var jobs []job
	for _, p := range progs {
		for _, l := range api.Langs {
			jobs = append(jobs, job{p, l, p.Name, p.Text(), true})
			// the same program with every declaration on one source line (positions tie: anything ordered by
			// line numbers falls back to the underlying iteration order)
			if ctx.Thorough() || strings.HasPrefix(p.Name, "P5/") || strings.HasPrefix(p.Name, "P6/") {
				jobs = append(jobs, job{p, l, p.Name + " (one line)", dsl.Render(p.Tokens(), dsl.OneLine), false})
			}
		}
	}
	fullPerm := 4
	capExecs := 6000
	if ctx.Thorough() {
		fullPerm = 6
		capExecs = 400000
	}
	// wall-clock budget of the thorough tier (a budget, not an oracle: pairs reached after it are still explored,
	// with the quick tier's parameters, and the evidence says how many)
	budget := 45 * time.Minute
	if s := os.Getenv("VERIF_C13_BUDGET_S"); s != "" {
		if n, err := strconv.Atoi(s); err == nil {
			budget = time.Duration(n) * time.Second
		}
	}
	var degraded int64
	enumerated := sync.Map{} // program|lang -> set of outcome hashes, and whether complete
	core.Parallel(len(jobs), func(i int) {
		j := jobs[i]
		fp, ce := fullPerm, capExecs
		if ctx.Thorough() && time.Since(ctx.Start) > budget {
			fp, ce = 4, 6000
			atomic.AddInt64(&degraded, 1)
		}
		set, complete := c13Explore(ctx, j.name, j.text, j.lang, st, fp, ce, samples)
		if !j.plain {
			return
		}
		enumerated.Store(j.p.Name+"|"+j.lang, struct {
			set      map[string]bool
			complete bool
		}{set, complete})
	})
	// binding to the implementation: the un-instrumented binary, fresh processes
	bin := ctx.BuildRepoBinary("plain")
	pinnedBin := ctx.BuildRepoBinary("pinned")
	runsPer := 8
	if ctx.Thorough() {
		runsPer = 32
	}
	// answers of the environment that the seam does not own (per-process hash seeds, random numbers, process ids,
	// the environment, ...; reported by the rewriter): only fresh processes can vary them, so when the tree uses any,
	// every program gets its free runs
	unowned := unownedSources(ctx)
	core.Parallel(len(progs), func(i int) {
		p := progs[i]
		if !ctx.Thorough() && len(unowned) == 0 && !(strings.HasPrefix(p.Name, "P5/") || strings.HasPrefix(p.Name, "P6/") || strings.HasPrefix(p.Name, "P4/") || strings.HasPrefix(p.Name, "META/") || strings.HasPrefix(p.Name, "ATTR/") || i%7 == 0) {
			return
		}
		text := p.Text()
		if _, err := applyHistory(ctx, text, nil); err != nil {
			return
		}
		seen := map[string]map[string]bool{}
		first := map[string]string{}
		for k := 0; k < runsPer; k++ {
			dir := ctx.TempPath(".n")
			os.MkdirAll(dir, 0o755)
			file := filepath.Join(dir, "in.dsl")
			os.WriteFile(file, []byte(text), 0o644)
			// each target in its own invocation so that generator interference (C14) cannot show up here
			for _, l := range api.Langs {
				r := runCLI(dir, 120*time.Second, bin, "compile", "-f", file, langFlag[l], "out_"+l)
				if r.crashed || r.exit != 0 {
					continue
				}
				t := dirTree(filepath.Join(dir, "out_"+l))
				atomic.AddInt64(&st.traces, 1)
				if seen[l] == nil {
					seen[l] = map[string]bool{}
					first[l] = t
				}
				seen[l][core.Hash(t)] = true
				// A free-running difference is a finding of its own only where the explorer found NO order dependence
				// (nondeterminism outside the owned seam). Where the explorer already reports that this target's output
				// depends on a map order, differing free runs are its expected consequence - and whether eight runs
				// happen to differ is chance, which must not decide whether a signature appears.
				if t != first[l] && !orderDependent(&enumerated, p.Name, l) {
					ctx.Report("observed with the un-instrumented binary|two runs of the same command produce different "+l+" trees|"+progName(p.Name),
						fmt.Sprintf("program %s: run %d differs from run 0\nfirst difference: %s", p.Name, k, firstDiffLine(first[l], t)),
						map[string]any{"name": p.Name, "text": text, "lang": l})
				}
			}
			os.RemoveAll(dir)
		}
		// independent of run: the same command into a directory that still holds the (longer) files of an earlier run.
		// Done with the binary whose map order is pinned: with the free-running binary a program that is
		// nondeterministic anyway (a known finding) would differ by chance and the directory would be blamed.
		{
			dir := ctx.TempPath(".n")
			os.MkdirAll(dir, 0o755)
			file := filepath.Join(dir, "in.dsl")
			os.WriteFile(file, []byte(text), 0o644)
			for _, l := range api.Langs {
				if first[l] == "" {
					continue
				}
				if r := runCLI(dir, 120*time.Second, pinnedBin, "compile", "-f", file, langFlag[l], "fresh_"+l); r.crashed || r.exit != 0 {
					continue
				}
				fresh := dirTree(filepath.Join(dir, "fresh_"+l))
				out := filepath.Join(dir, "out_"+l)
				if r := runCLI(dir, 120*time.Second, pinnedBin, "compile", "-f", file, langFlag[l], "out_"+l); r.crashed || r.exit != 0 {
					continue
				}
				if dirTree(out) != fresh {
					continue // not reproducible even with pinned map order and fresh directories: not this probe's subject
				}
				filepath.Walk(out, func(pth string, info os.FileInfo, err error) error {
					if err == nil && !info.IsDir() {
						if f, e := os.OpenFile(pth, os.O_APPEND|os.O_WRONLY, 0o644); e == nil {
							f.WriteString("\n/* tail of a longer file written by an earlier run */\n")
							f.Close()
						}
					}
					return nil
				})
				if r := runCLI(dir, 120*time.Second, pinnedBin, "compile", "-f", file, langFlag[l], "out_"+l); r.crashed || r.exit != 0 {
					continue
				}
				atomic.AddInt64(&st.traces, 1)
				if t := dirTree(out); t != fresh {
					ctx.Report("the "+l+" tree depends on what an earlier run left in the output directory|"+progName(p.Name),
						fmt.Sprintf("program %s: compiled into a directory holding longer files of the same names (binary with pinned map order)\nfirst difference: %s", p.Name, firstDiffLine(fresh, t)),
						map[string]any{"name": p.Name, "text": text, "lang": l})
				}
			}
			os.RemoveAll(dir)
		}
		for _, l := range api.Langs {
			v, ok := enumerated.Load(p.Name + "|" + l)
			if !ok {
				continue
			}
			e := v.(struct {
				set      map[string]bool
				complete bool
			})
			if !e.complete {
				continue
			}
			for h := range seen[l] {
				if !e.set[h] {
					ctx.Report("binding|the un-instrumented binary produced a "+l+" tree that the explorer did not enumerate",
						fmt.Sprintf("program %s: nondeterminism outside the owned seam (or the seam misses a source)", p.Name),
						map[string]any{"name": p.Name, "text": text, "lang": l})
				}
			}
		}
	})
	// compilation sequences in one process; the command line under other visiting orders (c13seq.go)
	seqProcs := c13Sequences(ctx)
	pinned := ctx.BuildRepoBinary("pinned")
	var orderRuns int64
	core.Parallel(len(progs), func(i int) {
		p := progs[i]
		if !ctx.Thorough() && !(strings.HasPrefix(p.Name, "P5/") || strings.HasPrefix(p.Name, "P6/") || strings.HasPrefix(p.Name, "P4/") || i%7 == 0) {
			return
		}
		atomic.AddInt64(&orderRuns, c13CommandLineOrders(ctx, pinned, p))
	})
	locRuns := c13Locations(ctx, pinned)
	nOut := 0
	st.outcomes.Range(func(k, v any) bool { nOut++; return true })
	cov := core.Coverage{
		"states":                          nOut,
		"transitions":                     st.execs,
		"traces_validated_against_impl":   st.traces,
		"two_compilations_in_one_process": map[string]any{"processes": seqProcs, "rule": "every ordered pair of the padding/option programs compiled in one process of its own, per target: the second's files = those of a process that compiled it alone"},
		"same_command_from_differently_named_directories": map[string]any{"runs": locRuns, "rule": "absolute input path, output directory . and out, three working directories with different names, with and without package options: identical files"},
		"command_line_under_other_visiting_orders":        map[string]any{"runs": orderRuns, "rule": "the binary built with the seam, all six targets requested, maps visited sorted / reversed / rotated: every target's tree identical"},
		"samples":                         samples.List,
		"programs":                        len(progs),
		"program_generator_pairs":         len(jobs),
		"choice_points_met":               st.points,
		"pairs_with_reduced_alternatives": st.reduced,
		"pairs_where_execution_cap_forced_deviation_bound_2": st.bounded,
		"full_permutations_up_to_n":                          fullPerm,
		"exhaustive":                                         st.reduced == 0 && st.bounded == 0 && degraded == 0,
		"budget_s":                                           budget.Seconds(),
		"pairs_explored_with_quick_parameters_after_budget": degraded,
		"rule": "stateless choice-point DFS: every range over a map in the module's own packages and every time.Now() is a choice point (found by go/types, rewritten by overlay); one execution = real parse + one real generator under a schedule of choices; all schedules enumerated (all n! orders for maps up to the stated n; beyond it identity, adjacent transpositions, rotation, reversal). " +
			"states = distinct (program, generator, output tree) outcomes; transitions = executions. oracle: every schedule's file map equals the all-default schedule's. traces validated = runs of the un-instrumented binary whose trees must lie inside the enumerated outcome set",
	}
	cov["sources_of_nondeterminism_the_seam_does_not_own"] = unowned
	if len(unowned) > 0 {
		ctx.Assumes = append(ctx.Assumes, "the tree uses sources of nondeterminism the seam does not own ("+strings.Join(unowned, ", ")+"): for them the fresh-process runs of the real binary (every program, "+fmt.Sprint(runsPer)+" runs) are the only exploration")
	}
	ctx.Assumes = append(ctx.Assumes, "nondeterminism inside third-party packages (ANTLR runtime, strcase, text/template) is not enumerated; the free runs of the real binary are the only look at it",
		"the clock has two answers: now and now + 1 year")
	return ctx.Finish("model_checking", cov)
}

// unownedSources reads the rewriter's report of range statements it had to leave as written and of calls / imports
// that answer from the environment.
func unownedSources(ctx *core.Ctx) []string {
	b, err := os.ReadFile(filepath.Join(filepath.Dir(ctx.Overlay), "sites.json"))
	if err != nil {
		return nil
	}
	var r struct {
		Sites []struct{ ID, Kind string } `json:"sites"`
	}
	if json.Unmarshal(b, &r) != nil {
		return nil
	}
	var out []string
	for _, s := range r.Sites {
		if s.Kind == "unowned-source" || strings.HasPrefix(s.Kind, "range-map-unowned") {
			out = append(out, s.ID)
		}
	}
	sort.Strings(out)
	return out
}

// siteClass abstracts a seam site "file:function:expression" to "the order in which a map is visited in <file>" /
// "the clock read in <file>".
func siteClass(site string) string {
	p := strings.SplitN(site, ":", 3)
	if len(p) < 3 {
		return site
	}
	if strings.HasPrefix(p[2], "range ") {
		return "the order in which a map is visited in " + p[0]
	}
	return "the clock read in " + p[0]
}

// orderDependent: the explorer enumerated more than one outcome for (program, target).
func orderDependent(enumerated *sync.Map, prog, lang string) bool {
	v, ok := enumerated.Load(prog + "|" + lang)
	if !ok {
		return false
	}
	e := v.(struct {
		set      map[string]bool
		complete bool
	})
	return len(e.set) > 1
}

func progName(n string) string {
	if i := strings.Index(n, "{"); i > 0 {
		n = n[:i]
	}
	return n
}

func subset(a, b []string) bool {
	for _, x := range a {
		ok := false
		for _, y := range b {
			if x == y {
				ok = true
			}
		}
		if !ok {
			return false
		}
	}
	return true
}

// c13Explore enumerates all schedules of (parse + generate lang) for one program.
func c13Explore(ctx *core.Ctx, name, text, lang string, st *c13Stats, fullPerm, capExecs int, samples *core.Sample) (map[string]bool, bool) {
	path := ctx.TempPath(".dsl")
	os.WriteFile(path, []byte(text), 0o644)
	defer os.Remove(path)
	exec := func(prefix []int) (*execCtl, string) {
		return runControlled(prefix, fullPerm, func() string {
			m, diags, err := api.ParseFile(path)
			if err != nil || len(diags) > 0 {
				return "NOT-ACCEPTED"
			}
			if api.Cyclic(m) {
				return "NOT-ACCEPTED"
			}
			return genString(m, lang)
		})
	}
	c0, base := exec(nil)
	if base == "NOT-ACCEPTED" {
		return nil, false
	}
	unownedReport := func(a, b string, prefix []int) {
		// same input file, same schedule of every choice the seam owns, same process - and another output
		ctx.Report(lang+" output differs between two executions under one and the same schedule (a source of nondeterminism other than map order and the clock)|"+progName(name),
			fmt.Sprintf("program %s, generator %s, schedule %v executed twice\nfirst difference: %s", name, lang, prefix, firstDiffLine(a, b)),
			map[string]any{"name": name, "text": text, "lang": lang, "choices": prefix})
	}
	if _, again := exec(nil); again != base {
		unownedReport(base, again, nil)
		return nil, false
	}
	outcomes := map[string]bool{core.Hash(base): true}
	st.outcomes.Store(core.Hash(name, lang, base), true)
	atomic.AddInt64(&st.execs, 2)
	atomic.AddInt64(&st.points, int64(len(c0.points)))
	reduced := false
	total := 1
	for _, p := range c0.points {
		total *= p.n
		if total > 1<<40 {
			total = 1 << 40
		}
	}
	bound := -1 // unbounded
	if total > capExecs {
		bound = 2
		atomic.AddInt64(&st.bounded, 1)
	}
	count := 1
	type finding struct {
		sites  []string
		detail string
		replay map[string]any
	}
	found := map[string]finding{}
	var explore func(prefix []int, devs int)
	explore = func(prefix []int, devs int) {
		c, out := exec(prefix)
		count++
		atomic.AddInt64(&st.execs, 1)
		if c.err != "" {
			core.HarnessError("C13 %s/%s: %s", name, lang, c.err)
		}
		h := core.Hash(out)
		outcomes[h] = true
		st.outcomes.Store(core.Hash(name, lang, out), true)
		if out != base {
			// confirm determinism of the schedule itself before believing it
			_, again := exec(prefix)
			if again != out {
				unownedReport(out, again, prefix)
				return
			}
			var sites []string
			for i, ch := range c.choices {
				if ch != 0 {
					sites = append(sites, c.points[i].site)
				}
			}
			key := strings.Join(uniq(sites), " + ")
			if _, ok := found[key]; !ok {
				found[key] = finding{uniq(sites), fmt.Sprintf("program %s, generator %s, schedule %v (points %v)\nfirst difference from the canonical-order output: %s", name, lang, c.choices, c.points, firstDiffLine(base, out)),
					map[string]any{"name": name, "text": text, "lang": lang, "choices": c.choices}}
			}
		}
		for i := len(prefix); i < len(c.points); i++ {
			if bound >= 0 && devs+1 > bound {
				continue
			}
			for alt := 1; alt < c.points[i].n; alt++ {
				np := append(append([]int{}, c.choices[:i]...), alt)
				explore(np, devs+1)
			}
		}
	}
	for i := 0; i < len(c0.points); i++ {
		if c0.points[i].n > 0 && len(c0.points) > 0 {
			for alt := 1; alt < c0.points[i].n; alt++ {
				np := append(append([]int{}, c0.choices[:i]...), alt)
				explore(np, 1)
			}
		}
	}
	// report only minimal sets of deviating choice points (a superset of a violating set says nothing new)
	for key, f := range found {
		minimal := true
		for k2, f2 := range found {
			if k2 != key && len(f2.sites) < len(f.sites) && subset(f2.sites, f.sites) {
				minimal = false
			}
		}
		if minimal {
			// the clock sites affect every program alike; map-order sites are told apart by the program that exposes them
			suffix := "|" + progName(name)
			if !strings.Contains(key, "range ") {
				suffix = ""
			}
			// the signature names the kind of choice and the file, not the function or the expression: renaming a
			// function or a variable must not turn a recorded finding into a new alarm (the exact sites are in the detail)
			var cls []string
			for _, s := range f.sites {
				cls = append(cls, siteClass(s))
			}
			ctx.Report(fmt.Sprintf("%s output depends on %s%s", lang, strings.Join(uniq(cls), " + "), suffix), "choice points: "+key+"\n"+f.detail, f.replay)
		}
	}
	// reduced alternatives: detect from the recorded points of the base run
	for _, p := range c0.points {
		if strings.Contains(p.site, ":") && p.n != 2 {
			// n alternatives of a map of size k: k! when full, k+2 when reduced
			isFact := false
			for k := 2; k <= fullPerm; k++ {
				if factorial(k) == p.n {
					isFact = true
				}
			}
			if !isFact {
				reduced = true
			}
		}
	}
	if reduced {
		atomic.AddInt64(&st.reduced, 1)
	}
	if samples != nil && len(c0.points) > 1 {
		var pts []string
		for _, p := range c0.points {
			pts = append(pts, fmt.Sprintf("%s(%d)", p.site, p.n))
		}
		samples.Add(map[string]any{"program": name, "generator": lang, "choice_points": pts, "executions": count, "distinct_outcomes": len(outcomes)})
	}
	keys := make([]string, 0, len(outcomes))
	for k := range outcomes {
		keys = append(keys, k)
	}
	sort.Strings(keys)
	return outcomes, !reduced && bound < 0
}
