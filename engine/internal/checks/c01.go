package checks

import (
	"encoding/hex"
	"fmt"
	"os"
	"sort"
	"strings"

	"verif/engine/internal/core"
	"verif/engine/internal/dsl"
	"verif/engine/internal/wire"
)

func init() {
	Registry["C01"] = C01
}

func devLangs() []string {
	if s := os.Getenv("VERIF_LANGS"); s != "" {
		return strings.Split(s, ",")
	}
	return CodecLangs
}

func maxDevFor(ctx *core.Ctx) int {
	if ctx.Thorough() {
		return 2
	}
	return 1
}

type codecStats struct {
	cells, observable, unobservable int
	evals                           int
	regEvals                        int
	offEvals                        int
	reuseEvals                      int
	offByLang                       map[string]int
	offSkipped                      map[string]int
	regStates                       map[string]bool
	blockers                        map[string]int
	distinct                        map[string]bool
}

func newCodecStats() *codecStats {
	return &codecStats{blockers: map[string]int{}, distinct: map[string]bool{}, regStates: map[string]bool{}, offByLang: map[string]int{}, offSkipped: map[string]int{}}
}

func (s *codecStats) coverage(rule string, cases []*ProgCase) core.Coverage {
	var bl []string
	for k, v := range s.blockers {
		bl = append(bl, fmt.Sprintf("%d x %s", v, k))
	}
	sort.Strings(bl)
	samples := []any{}
	for i := 0; i < len(cases) && len(samples) < 5; i += len(cases)/5 + 1 {
		pc := cases[i]
		sm := map[string]any{"program": pc.Prog.Name, "text": core.Trunc(pc.Text, 400), "messages": len(pc.Msgs)}
		if len(pc.Msgs) > 0 {
			sm["first_message"] = core.Trunc(pc.R.FormatValue(nil, pc.R.Root, pc.Msgs[0].Val), 300)
			sm["first_reference_encoding"] = core.Trunc(hex.EncodeToString(pc.Encs[0].Bytes), 200)
		}
		samples = append(samples, sm)
	}
	return core.Coverage{
		"evaluations":                    s.evals,
		"distinct_nontrivial":            len(s.distinct),
		"rule":                           rule,
		"samples":                        samples,
		"program_configurations":         len(cases),
		"cells":                          s.cells,
		"observable_cells":               s.observable,
		"unobservable_cells":             s.unobservable,
		"unobservable_because":           bl,
		"exhaustive":                     true,
		"non_initial_buffer_evaluations": s.offEvals,
		"non_initial_buffer_evaluations_by_target":             s.offByLang,
		"non_initial_buffer_commands_not_understood_by_driver": s.offSkipped,
		"non_initial_buffers":                                  "every case's first 2 messages x buffers already holding {a5, 01..07, another message of the program}: encoder appends after them (C01/C04/C06), decoder starts behind them (C02); the same object encoded twice (C01); judged only where the same message is handled correctly from the initial state",
	}
}

// replayFilter restricts the program list to the one named in a replay artefact.
func replayFilter(ctx *core.Ctx, progs []*dsl.Program) []*dsl.Program {
	if ctx.Replay == "" {
		return progs
	}
	var r struct {
		Replay struct{ Name string } `json:"replay"`
	}
	readReplay(ctx, &r)
	var out []*dsl.Program
	for _, p := range progs {
		if p.Name == r.Replay.Name {
			out = append(out, p)
		}
	}
	return out
}

// C01: encoders emit exactly the declared wire layout.
func C01(ctx *core.Ctx) int {
	progs := replayFilter(ctx, codecPrograms(ctx))
	cases := buildCases(ctx, progs, maxDevFor(ctx))
	langs := devLangs()
	langs = runCodec(ctx, cases, langs)
	st := newCodecStats()
	for _, pc := range cases {
		for _, l := range langs {
			cc := pc.Cells[l]
			st.cells++
			if cc == nil || !cc.Observable() {
				st.unobservable++
				if cc != nil {
					st.blockers[l+": "+cc.Blocker()]++
				}
				continue
			}
			st.observable++
			for i, m := range pc.Msgs {
				o := cc.T.Out["ENC:"+m.ID]
				st.evals++
				rep := map[string]any{"name": pc.Prog.Name, "lang": l, "message": m.ID, "text": pc.Text, "value": pc.R.FormatValue(nil, pc.R.Root, m.Val), "reference": hex.EncodeToString(pc.Encs[i].Bytes)}
				switch {
				case o == nil:
					ctx.Report(l+"|no answer from the emitted encoder", fmt.Sprintf("program %s message %s", pc.Prog.Name, m.ID), rep)
				case o.Kind == "ERR" && o.ErrKind == "unsupported":
					// the driver could not build the value: a declared member or type is missing (C07's subject)
					st.blockers[l+": member/type missing: "+abstractName(o.ErrText)]++
				case o.Kind == "ERR" && wallClockAnswer(o.ErrText):
					st.blockers[l+": per-command wall-clock limit of the driver (not a verdict)"]++
				case o.Kind == "ERR":
					ctx.Report(fmt.Sprintf("%s|encoder fails|%s|%s", l, errWord(o.ErrText), progClass(pc.Prog.Name)),
						fmt.Sprintf("program %s message %s: %s\n%s", pc.Prog.Name, m.ID, o.ErrText, core.Trunc(pc.Text, 500)), rep)
				default:
					got, err := hex.DecodeString(o.Hex)
					if err != nil {
						core.HarnessError("driver printed bad hex: %s", o.Raw)
					}
					st.distinct[o.Hex] = true
					if d := wireDiff(pc.Encs[i], got); d != "" {
						rep["got"] = o.Hex
						ctx.Report(fmt.Sprintf("%s|%s|%s", l, d, optsFor(pc.Prog, d)),
							fmt.Sprintf("program %s message %s\nvalue     %s\nreference %s\n%-9s %s\n%s", pc.Prog.Name, m.ID, core.Trunc(rep["value"].(string), 300), core.Trunc(hex.EncodeToString(pc.Encs[i].Bytes), 300), l, core.Trunc(o.Hex, 300), core.Trunc(pc.Text, 600)), rep)
					}
				}
			}
			offEncChecks(ctx, pc, cc, st, -1)
			twiceChecks(ctx, pc, cc, st)
		}
	}
	cov := st.coverage("cells = (program, option configuration, target); programs = P1 singles under every relevant option point with <= 1 (quick) / <= 2 (thorough) non-default options, the universal packet under every such point, P2 pairs, P3 nesting, P5 graphs, P6 repository protocols; messages = every message with <= 1 / <= 2 members off the baseline over boundary value domains. "+
		"Each emitted encoder is built with its real toolchain against a minimal conforming runtime and run on every message; oracle = byte equality with the reference encoder. distinct_nontrivial = distinct encodings observed", cases)
	ctx.Assumes = append(ctx.Assumes, "runtime semantics are those of /verif/runtimes/<lang> (the property says: a runtime that honours the codec API the generated code calls)",
		"a cell whose emitted code does not build or lacks a declared member is unobservable here and reported by C07")
	return ctx.Finish("exploration", cov)
}

func abstractName(s string) string {
	f := strings.Fields(s)
	if len(f) > 0 {
		return f[0]
	}
	return s
}

func errWord(s string) string {
	s = normLog(s)
	if len(s) > 60 {
		s = s[:60]
	}
	return s
}

var _ = wire.KInt
