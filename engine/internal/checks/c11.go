package checks

import (
	"bytes"
	"fmt"
	"os"
	"os/exec"
	"path/filepath"
	"sort"
	"strings"
	"sync"
	"sync/atomic"
	"time"

	"verif/engine/internal/core"
	"verif/engine/internal/dsl"
)

func init() { Registry["C11"] = C11 }

type c11Input struct {
	Name string
	Text string
}

func c11Corpus(ctx *core.Ctx) []c11Input {
	budget := 2
	if ctx.Thorough() {
		budget = 3
	}
	var out []c11Input
	seen := map[string]bool{}
	add := func(name, text string) {
		if seen[text] {
			return
		}
		seen[text] = true
		out = append(out, c11Input{name, text})
	}
	var valid []Text
	for _, pol := range []int{dsl.NamesUnique, dsl.NamesSame} {
		for _, t := range grammarTexts(budget, pol) {
			add(t.Name, dsl.Render(t.Toks, dsl.Pretty))
			if pol == dsl.NamesUnique {
				valid = append(valid, t)
			}
		}
	}
	progs := corpusPrograms(ctx)
	for _, p := range progs {
		add("E1/"+p.Name, p.Text())
	}
	valid = append(valid, programTexts(progs)...)
	for _, t := range repoSamples(ctx) {
		add(t.Name, dsl.Render(t.Toks, dsl.Pretty))
	}
	for _, t := range specialTexts() {
		add(t.Name, t.Raw)
	}
	filepath.WalkDir(ctx.RepoDir, func(p string, d os.DirEntry, err error) error {
		if err == nil && !d.IsDir() && strings.HasSuffix(p, ".dsl") {
			if b, e := os.ReadFile(p); e == nil {
				add("repofile/"+filepath.Base(p), string(b))
			}
		}
		return nil
	})
	for _, it := range invalidTexts(valid, ctx.Thorough()) {
		add("invalid/"+it.Name, it.Text)
	}
	for _, f := range faultCorpus(ctx) {
		add("fault/"+f.Name, f.Text)
	}
	// semantically odd but grammatical programs named by the property: no root, references to nothing, self reference
	odd := map[string]string{
		"no-root":               "packet A {\n    u16 x,\n}\n",
		"no-root-match":         "packet A {\n    u16 k,\n    match k as b {\n        1 : B,\n    },\n}\npacket B {\n}\n",
		"undeclared-match-key":  "root packet A {\n    match zz as b {\n        1 : B,\n    },\n}\npacket B {\n}\n",
		"undeclared-match-alt":  "root packet A {\n    u16 k,\n    match k as b {\n        1 : Nope,\n    },\n}\n",
		"undeclared-len-target": "root packet A {\n    u16 l @lengthOf(nothing),\n    u16 x,\n}\n",
		"self-repeat":           "root packet A {\n    u8 d,\n    repeat A kids,\n}\n",
		"self-plain":            "root packet A {\n    u8 d,\n    A kid,\n}\n",
		"mutual":                "root packet A {\n    B b,\n}\npacket B {\n    repeat A a,\n}\n",
		"meta-no-doc":           "MetaData M {\n    u16 Price,\n}\nroot packet A {\n    Price,\n}\n",
		"meta-ref-unknown":      "MetaData M {\n    Nope Price `d`,\n}\nroot packet A {\n    Price,\n}\n",
		"pad-on-scalar":         "root packet A {\n    @leftPad('0')\n    u16 x,\n}\n",
		"pad-on-object":         "root packet A {\n    @rightPad(' ')\n    B,\n}\npacket B {\n}\n",
		"pad-empty":             "root packet A {\n    @leftPad()\n    char[4] x,\n}\n",
		"len-no-type":           "root packet A {\n    l @lengthOf(b),\n    B b,\n}\npacket B {\n}\n",
		"checksum-no-type":      "root packet A {\n    u16 x,\n    c @calculatedFrom(\"CRC\"),\n}\n",
		"empty":                 "",
		"only-comment":          "// nothing\n",
		"empty-blocks":          "options {\n}\nMetaData M {\n}\nroot packet A {\n}\n",
		"two-options-blocks":    "options {\n    LittleEndian = true;\n}\noptions {\n    LittleEndian = false;\n}\nroot packet A {\n}\n",
		"options-odd-values":    "options {\n    LittleEndian = 1;\n    StringPrefixLenType = char[4];\n    GoPackage = u8;\n}\nroot packet A {\n    string s,\n}\n",
		"match-mixed-keys":      "root packet A {\n    u16 k,\n    match k as b {\n        [1, \"x\"] : B,\n    },\n}\npacket B {\n}\n",
		"inline-deep":           "root packet A {\n    X {\n        Y {\n            Z {\n                u8 q,\n            },\n        },\n    },\n}\n",
		"inline-with-match":     "root packet A {\n    X {\n        u8 k,\n        match k as m {\n            1 : B,\n        },\n    },\n}\npacket B {\n}\n",
		"inline-with-lenof":     "root packet A {\n    X {\n        u8 l @lengthOf(p),\n        B p,\n    },\n}\npacket B {\n}\n",
		"zero-length-fixed":     "root packet A {\n    char[0] z,\n    zchar[0] y,\n}\n",
		"huge-fixed":            "root packet A {\n    char[99999999999999999999] z,\n}\n",
		"tag-huge":              "root packet A {\n    @tag(99999999999999999999)\n    u8 z,\n}\n",
	}
	var names []string
	for k := range odd {
		names = append(names, k)
	}
	sort.Strings(names)
	for _, k := range names {
		add("odd/"+k, odd[k])
	}
	// scale probes
	depth := 300
	flat := 2000
	if ctx.Thorough() {
		depth = 2000
		flat = 8000
	}
	var nest strings.Builder
	nest.WriteString("root packet A {\n")
	for i := 0; i < depth; i++ {
		fmt.Fprintf(&nest, "N%d {\n", i)
	}
	nest.WriteString("u8 x,\n")
	for i := 0; i < depth; i++ {
		nest.WriteString("},\n")
	}
	nest.WriteString("}\n")
	add(fmt.Sprintf("scale/nest-%d", depth), nest.String())
	var fl strings.Builder
	fl.WriteString("root packet A {\n")
	for i := 0; i < flat; i++ {
		fmt.Fprintf(&fl, "    u32 Field%d `doc %d`,\n", i, i)
	}
	fl.WriteString("}\n")
	add(fmt.Sprintf("scale/flat-%d", flat), fl.String())
	return out
}

// scaleSlow counts scale probes that exceeded a deadline (slow, not a verdict).
var scaleSlow int64

// C11: no input crashes the formatter or the compiler.
func C11(ctx *core.Ctx) int {
	corpus := c11Corpus(ctx)
	if ctx.Replay != "" {
		var r struct {
			Replay struct{ Name, Text string } `json:"replay"`
		}
		readReplay(ctx, &r)
		corpus = []c11Input{{r.Replay.Name, r.Replay.Text}}
	}
	texts := make([]string, len(corpus))
	for i, c := range corpus {
		texts[i] = c.Text
	}
	perInput := 60 * time.Second
	results := runWorkers(ctx, texts, 16, perInput)
	outcomes := map[string]int{}
	var suspects []int
	var misbehaved []int
	for i, r := range results {
		in := corpus[i]
		rep := map[string]any{"name": in.Name, "text": in.Text}
		bad := false
		note := func(entry, verdict string) {
			outcomes[entry+":"+verdictClass(verdict)]++
			if strings.HasPrefix(verdict, "panic|") {
				bad = true
				ctx.Report(crashSig("library "+entry, verdict, in.Text), fmt.Sprintf("input %s: %s\n%s", in.Name, verdict, core.Trunc(in.Text, 500)), rep)
			}
		}
		switch {
		case r.Crashed == "hang":
			suspects = append(suspects, i)
			continue
		case r.Crashed != "":
			// classify from a solo run: the crash report of a process that has already handled other inputs can be incomplete
			if solo := runWorkers(ctx, []string{in.Text}, 1, perInput); solo[0].Crashed != "" && solo[0].Crashed != "hang" {
				r.Crashed = solo[0].Crashed
			}
			bad = true
			if strings.Contains(r.Crashed, "died") && os.Getenv("VERIF_DEBUG") != "" {
				os.WriteFile(fmt.Sprintf("/var/tmp/died.%d.dsl", i), []byte(in.Text), 0o644)
			}
			outcomes["worker:"+r.Crashed]++
			ctx.Report(crashSig("library (format/parse/generate)", r.Crashed, in.Text), fmt.Sprintf("input %s kills the process: %s\n%s", in.Name, r.Crashed, core.Trunc(in.Text, 500)), rep)
		case r.ID == -1:
			core.HarnessError("no verdict for input %s", in.Name)
		default:
			note("format", r.Format)
			note("parse+visit", r.Parse)
			for _, lang := range []string{"lua", "rust", "go", "java", "python", "cpp"} {
				if v, ok := r.Gen[lang]; ok {
					note("generate "+lang, v)
				}
			}
		}
		if bad {
			misbehaved = append(misbehaved, i)
		}
	}
	// confirm hang suspects with three solo runs
	hangs := 0
	for _, i := range suspects {
		if strings.HasPrefix(corpus[i].Name, "scale/") {
			// the scale probes look for crashes at depth / width; their running time grows with their size (the
			// formatter is super-linear in the nesting depth), so exceeding the per-input deadline on a loaded
			// machine is "slow", never a verdict
			atomic.AddInt64(&scaleSlow, 1)
			continue
		}
		confirmed := true
		for k := 0; k < 3; k++ {
			r := runWorkers(ctx, []string{corpus[i].Text}, 1, perInput)
			if r[0].Crashed != "hang" {
				confirmed = false
				break
			}
		}
		if confirmed {
			hangs++
			misbehaved = append(misbehaved, i)
			ctx.Report("library (format/parse/generate)|hang", fmt.Sprintf("input %s does not terminate within %v (3 solo re-runs)\n%s", corpus[i].Name, perInput, core.Trunc(corpus[i].Text, 500)),
				map[string]any{"name": corpus[i].Name, "text": corpus[i].Text})
		}
	}
	// real artefacts: CLI and shared library, on every input that misbehaved plus a fixed slice of the corpus
	pick := map[int]bool{}
	for _, i := range misbehaved {
		pick[i] = true
	}
	stride := 23
	if ctx.Thorough() {
		stride = 5
	}
	for i := range corpus {
		if i%stride == 0 || strings.HasPrefix(corpus[i].Name, "odd/") || strings.HasPrefix(corpus[i].Name, "repo") || strings.HasPrefix(corpus[i].Name, "E2/fieldAttribute") {
			pick[i] = true
		}
	}
	var ids []int
	for i := range pick {
		if len(corpus[i].Text) < 100000 {
			ids = append(ids, i)
		}
	}
	sort.Ints(ids)
	artefactRuns := c11Artefacts(ctx, corpus, ids, outcomes)
	var oc []string
	for k, v := range outcomes {
		oc = append(oc, fmt.Sprintf("%s=%d", k, v))
	}
	sort.Strings(oc)
	samples := []any{}
	for i := 0; i < len(corpus) && len(samples) < 6; i += len(corpus)/6 + 1 {
		samples = append(samples, map[string]any{"name": corpus[i].Name, "text": core.Trunc(corpus[i].Text, 300)})
	}
	cov := core.Coverage{
		"evaluations":         len(corpus)*8 + artefactRuns,
		"distinct_nontrivial": len(outcomes),
		"rule": "inputs = grammar derivations (unique and all-equal identifiers) + E1 programs + repository files + token-granular truncations/deletions/duplications + byte strings + the C12 fault corpus + grammatical-but-odd programs + scale probes; " +
			"each through library format, parse+visit and six generators in memory-capped worker subprocesses; a slice (and every misbehaving input) through the real binary (format -d, format -f, compile with six outputs) and the real shared library from a C host. distinct_nontrivial = distinct (entry point, outcome class) pairs observed",
		"samples":            samples,
		"inputs":             len(corpus),
		"outcome_histogram":  oc,
		"real_artefact_runs": artefactRuns,
		"hang_suspects":      len(suspects),
		"scale_probes_over_the_deadline_(slow,_not_a_verdict)": scaleSlow,
		"hangs_confirmed":      hangs,
		"per_input_deadline_s": perInput.Seconds(),
		"exhaustive":           true,
	}
	ctx.Assumes = append(ctx.Assumes, "a hang is an input that exceeds 60 s in three solo re-runs (inputs take milliseconds)",
		"the C export is exercised for texts without NUL bytes (C strings cannot carry them)")
	return ctx.Finish("exploration", cov)
}

func verdictClass(v string) string {
	if i := strings.Index(v, "|"); i > 0 {
		return v[:i]
	}
	return v
}

// c11Artefacts drives the real binary and the real shared library.
func c11Artefacts(ctx *core.Ctx, corpus []c11Input, ids []int, outcomes map[string]int) int {
	bin := ctx.BuildRepoBinary("plain")
	so := ctx.BuildRepoBinary("so")
	host := buildCHost(ctx, so)
	var runs int64
	var mu sync.Mutex
	core.Parallel(len(ids), func(k int) {
		in := corpus[ids[k]]
		rep := map[string]any{"name": in.Name, "text": in.Text}
		dir := ctx.TempPath(".d")
		os.MkdirAll(dir, 0o755)
		defer os.RemoveAll(dir)
		file := filepath.Join(dir, "in.dsl")
		check := func(entry string, args ...string) {
			os.WriteFile(file, []byte(in.Text), 0o644)
			cctx, cmd := cmdWithTimeout(120*time.Second, args[0], args[1:]...)
			var stderr, stdout bytes.Buffer
			cmd.Stderr = &limitedBuf{b: &stderr, max: 1 << 16}
			cmd.Stdout = &limitedBuf{b: &stdout, max: 1 << 12}
			cmd.Dir = dir
			err := cmd.Run()
			atomic.AddInt64(&runs, 1)
			timedOut := cctx.Err() != nil
			class := "ok"
			if timedOut && strings.HasPrefix(in.Name, "scale/") {
				class = "timeout (scale probe: slow, not a verdict)"
				atomic.AddInt64(&scaleSlow, 1)
			} else if timedOut {
				class = "timeout"
				ctx.Report(entry+"|hang", fmt.Sprintf("input %s: no termination within 120 s\n%s", in.Name, core.Trunc(in.Text, 400)), rep)
			} else if err != nil {
				class = "exit!=0"
				se := stderr.String() + stdout.String()
				if crashed(err, se) {
					class = "crash"
					ctx.Report(crashSig(entry, crashClass(se), in.Text), fmt.Sprintf("input %s crashes %s: %s\n%s\n--- stderr\n%s", in.Name, entry, crashClass(se), core.Trunc(in.Text, 400), core.Trunc(stderr.String(), 1200)), rep)
				}
			}
			mu.Lock()
			outcomes[entry+":"+class]++
			mu.Unlock()
		}
		if !strings.ContainsRune(in.Text, 0) {
			check("cli format -d", bin, "format", "-d="+in.Text)
			check("C export FormatPacketDslExport", host, so, file)
		}
		check("cli format -f", bin, "format", "-f", file)
		check("cli compile", bin, "compile", "-f", file, "-l", "o/lua", "-r", "o/rs", "-g", "o/go", "-j", "o/java", "-p", "o/py", "-c", "o/cpp")
	})
	return int(runs)
}

type limitedBuf struct {
	b   *bytes.Buffer
	max int
}

func (l *limitedBuf) Write(p []byte) (int, error) {
	if l.b.Len() < l.max {
		n := l.max - l.b.Len()
		if n > len(p) {
			n = len(p)
		}
		l.b.Write(p[:n])
	}
	return len(p), nil
}

func crashed(err error, out string) bool {
	if ee, ok := err.(*exec.ExitError); ok {
		if ee.ExitCode() == 2 && (strings.Contains(out, "panic:") || strings.Contains(out, "fatal error:") || strings.Contains(out, "goroutine ")) {
			return true
		}
		if ee.ExitCode() == -1 { // killed by a signal
			return true
		}
		if ee.ExitCode() >= 128 {
			return true
		}
	}
	return false
}

const cHostSrc = `
#include <stdio.h>
#include <stdlib.h>
#include <string.h>
#include <dlfcn.h>
typedef char* (*fmt_fn)(char*);
int main(int argc, char** argv) {
  if (argc < 3) return 3;
  void* h = dlopen(argv[1], RTLD_NOW);
  if (!h) { fprintf(stderr, "dlopen: %s\n", dlerror()); return 3; }
  fmt_fn f = (fmt_fn)dlsym(h, "FormatPacketDslExport");
  if (!f) { fprintf(stderr, "dlsym failed\n"); return 3; }
  /* one call per file argument, in order, in this one process; the result of the LAST call is printed */
  for (int a = 2; a < argc; a++) {
    FILE* fp = fopen(argv[a], "rb");
    if (!fp) return 3;
    fseek(fp, 0, SEEK_END); long n = ftell(fp); fseek(fp, 0, SEEK_SET);
    char* buf = malloc(n + 1);
    if (fread(buf, 1, n, fp) != (size_t)n) return 3;
    buf[n] = 0; fclose(fp);
    char* out = f(buf);
    if (!out) { fprintf(stderr, "NULL result\n"); return 4; }
    if (a == argc - 1) fwrite(out, 1, strlen(out), stdout);
    free(out);
    free(buf);
  }
  return 0;
}
`

func buildCHost(ctx *core.Ctx, so string) string {
	src := filepath.Join(ctx.Scratch, "chost.c")
	out := filepath.Join(ctx.Scratch, "chost")
	if _, err := os.Stat(out); err == nil {
		return out
	}
	os.WriteFile(src, []byte(cHostSrc), 0o644)
	if b, err := exec.Command("gcc", "-O0", "-o", out, src, "-ldl").CombinedOutput(); err != nil {
		core.HarnessError("gcc chost: %v\n%s", err, b)
	}
	return out
}
