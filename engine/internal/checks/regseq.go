package checks

import (
	"encoding/hex"
	"fmt"
	"sort"
	"strings"

	"verif/engine/internal/core"
	"verif/engine/internal/targets"
	"verif/engine/internal/wire"
)

// Registry sequences (C06): "when no algorithm is registered under that name the caller's value is
// written" speaks about the registry at the time of the encode, and the application may register and
// remove algorithms between messages. The explored space is every sequence of registry operations
// up to a depth, from a fresh process, with the first encode placed at every position:
//
//	alphabet   UNREG n, REG n for every registered algorithm name n the program uses
//	sequences  all of length regDepth (every shorter sequence is a prefix of one of them)
//	first use  k = 0..regDepth: no encode before the k-th operation has been applied (so that anything the
//	           emitted code or its runtime captures on first use is captured in every registry state),
//	           then one encode after every further operation
//	oracle     the checksum field's bytes = reference encoder with exactly the names removed at that moment
//
// Every (sequence, k) runs in its own driver process (targets.NewProc).

type regStep struct {
	op, name string
	encID    string // "" = no encode after this step
	off      map[string]bool
	enc      *wire.Encoding
}

type regSeq struct {
	id    string
	steps []regStep // steps[0] is the initial state (op == "")
}

var regSequencesOn bool // set by C06 before the cases are built

func regDepth(ctx *core.Ctx) int {
	if ctx.Thorough() {
		return 3
	}
	return 2
}

func checksumNames(r *wire.RProgram) []string {
	seen := map[string]bool{}
	for _, pk := range r.Packets {
		for _, f := range pk.Fields {
			if f.Kind == wire.KChecksum && wire.ChecksumRegistered(f.Algo) {
				seen[f.Algo] = true
			}
		}
	}
	var out []string
	for n := range seen {
		out = append(out, n)
	}
	sort.Strings(out)
	return out
}

func buildRegSeqs(pc *ProgCase, depth int) {
	names := checksumNames(pc.R)
	if len(names) == 0 || len(pc.Msgs) == 0 {
		return
	}
	msg := pc.Msgs[0]
	type op struct{ op, name string }
	var alphabet []op
	for _, n := range names {
		alphabet = append(alphabet, op{"UNREG", n}, op{"REG", n})
	}
	var seqs [][]op
	var rec func(cur []op)
	rec = func(cur []op) {
		if len(cur) == depth {
			seqs = append(seqs, append([]op(nil), cur...))
			return
		}
		for _, a := range alphabet {
			rec(append(cur, a))
		}
	}
	rec(nil)
	for si, ops := range seqs {
		for k := 0; k <= depth; k++ {
			if k == depth && depth > 0 {
				// first use after the last operation: one encode at the very end
			}
			sq := regSeq{id: fmt.Sprintf("q%d.k%d", si, k)}
			off := map[string]bool{}
			snapshot := func() map[string]bool {
				c := map[string]bool{}
				for n, v := range off {
					if v {
						c[n] = true
					}
				}
				return c
			}
			st := regStep{off: snapshot()}
			if k == 0 {
				st.encID = sq.id + ".e0"
				st.enc = pc.R.EncodeWithout(msg, st.off)
			}
			sq.steps = append(sq.steps, st)
			for j, o := range ops {
				off[o.name] = o.op == "UNREG"
				st := regStep{op: o.op, name: o.name, off: snapshot()}
				if j+1 >= k {
					st.encID = fmt.Sprintf("%s.e%d", sq.id, j+1)
					st.enc = pc.R.EncodeWithout(msg, st.off)
				}
				sq.steps = append(sq.steps, st)
			}
			pc.RegSeqs = append(pc.RegSeqs, sq)
		}
	}
}

// regInput renders the sequences as driver commands, one process per sequence.
func regInput(pc *ProgCase) []string {
	var in []string
	if len(pc.RegSeqs) == 0 {
		return nil
	}
	val := pc.R.FormatValue(nil, pc.R.Root, pc.Msgs[0].Val)
	for _, sq := range pc.RegSeqs {
		in = append(in, targets.NewProc)
		for j, st := range sq.steps {
			if st.op != "" {
				in = append(in, fmt.Sprintf("%s %s.o%d %s", st.op, sq.id, j, st.name))
			}
			if st.encID != "" {
				in = append(in, fmt.Sprintf("ENC %s %s", st.encID, val))
			}
		}
	}
	return in
}

func (sq regSeq) describe(upto int) string {
	var parts []string
	for j, st := range sq.steps {
		if j > upto {
			break
		}
		if st.op != "" {
			parts = append(parts, st.op+" "+st.name)
		}
		if st.encID != "" {
			parts = append(parts, "encode")
		}
	}
	return strings.Join(parts, "; ")
}

// regChecks applies the oracle to the registry sequences of one observable cell.
func regChecks(ctx *core.Ctx, pc *ProgCase, cc *CodecCell, st *codecStats) {
	if len(pc.RegSeqs) == 0 {
		return
	}
	if o := cc.T.Out["ENC:"+pc.Msgs[0].ID]; o == nil || o.Kind != "ENC" {
		return // this message does not encode in the ordinary run either: reported there
	}
	for _, sq := range pc.RegSeqs {
		for j, step := range sq.steps {
			if step.encID == "" {
				continue
			}
			o := cc.T.Out["ENC:"+step.encID]
			if o == nil || o.Kind != "ENC" {
				// the same message encodes in the ordinary run, so this failure is owed to the registry operations
				if o != nil && !wallClockAnswer(o.ErrText) && o.ErrKind != "unsupported" {
					st.regEvals++
					ctx.Report(fmt.Sprintf("%s|encoder fails after the checksum registry changed|%s|%s", cc.Lang, errWord(o.ErrText), progClass(pc.Prog.Name)),
						fmt.Sprintf("program %s, process: %s\n%s", pc.Prog.Name, sq.describe(j), o.ErrText),
						map[string]any{"name": pc.Prog.Name, "lang": cc.Lang, "text": pc.Text, "sequence": sq.describe(j)})
				}
				continue
			}
			st.regEvals++
			st.regStates[fmt.Sprintf("%v|first-use-at=%s", len(step.off) > 0, sq.id[strings.Index(sq.id, ".k")+1:])] = true
			got, _ := hex.DecodeString(o.Hex)
			d := fieldDiff(step.enc, got, wire.KChecksum)
			if d == "" {
				continue
			}
			// which registry state does the observed value correspond to?
			how := "neither the registered nor the removed state explains the bytes"
			names := checksumNames(pc.R)
			for mask := 0; mask < 1<<len(names); mask++ {
				alt := map[string]bool{}
				for b, n := range names {
					if mask&(1<<b) != 0 {
						alt[n] = true
					}
				}
				if e := pc.R.EncodeWithout(pc.Msgs[0], alt); fieldDiff(e, got, wire.KChecksum) == "" {
					how = "the bytes are those of an earlier registry state"
					break
				}
			}
			want := "registered: computed value expected"
			if len(step.off) > 0 {
				want = "removed: caller's value expected"
			}
			ctx.Report(fmt.Sprintf("%s|checksum field ignores the registry at encode time (%s; %s)|%s", cc.Lang, want, how, optsFor(pc.Prog, d)),
				fmt.Sprintf("program %s, one process: %s\nreference %s\n%-9s %s\n%s", pc.Prog.Name, sq.describe(j), hexOf(step.enc.Bytes), cc.Lang, o.Hex, core.Trunc(pc.Text, 600)),
				map[string]any{"name": pc.Prog.Name, "lang": cc.Lang, "text": pc.Text, "sequence": sq.describe(j), "reference": hexOf(step.enc.Bytes), "got": o.Hex})
		}
	}
}
