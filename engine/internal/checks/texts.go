package checks

import (
	"fmt"
	"os"
	"path/filepath"
	"sort"
	"strings"

	api "github.com/xinchentechnote/fin-protoc/verifapi"
	"verif/engine/internal/core"
	"verif/engine/internal/dsl"
)

// Registry maps property ids to checks.
var Registry = map[string]func(*core.Ctx) int{}

// Text is one element of the text space: a token sequence (default channel) that the grammar derives.
type Text struct {
	Name string
	Toks []string
	Raw  string // when set: a hand-written text (with comments) used as is; Toks are its default-channel tokens
}

// specialTexts are valid texts whose comments, doc strings and string keys contain characters that
// are special to printf-style formatting, escaping and encodings, and repeated identical comments.
func specialTexts() []Text {
	raws := map[string]string{
		"percent":                 "// 100% sure %d %s %v %%\npacket P { // trailing 50%\n    u16 a `rate in % (e.g. 5%d)`,\n    match a as b {\n        1 : Q, // %x\n    },\n}\npacket Q {\n}\n",
		"backslash":               "// path C:\\dir\\n and \\t\npacket P {\n    u16 a `a\\nb \\x00 \\`,\n    string k,\n    match k as b {\n        \"a\\\"b\" : Q,\n        \"%s\\\\\" : R,\n    },\n}\npacket Q {\n}\npacket R {\n}\n",
		"unicode":                 "// 注释 — ünïcode ✓\npacket P {\n    u16 a `说明 ✓ é`, // 尾注\n    string s `😀`,\n}\n",
		"same-comment-twice":      "packet P {\n    // reserved, must be zero\n    u16 a,\n    // reserved, must be zero\n    u16 b, // lots\n    u16 c, // lots\n}\n",
		"same-comment-top":        "// note\noptions {\n    // note\n    LittleEndian = true; // note\n    StringPrefixLenType = u8; // note\n}\n// note\npacket P {\n    u16 a,\n}\n",
		"comment-markers-inside":  "packet P { // a // b /// c\n    u16 a, //\n    u16 b, ////\n}\n",
		"tabs-in-comment":         "packet P {\n    u16 a, //\ttabbed\tcomment  with  spaces   \n}\n",
		// string keys that contain the language's own punctuation, alone and inside key lists (a routine that re-splits
		// or re-joins the text of a list instead of walking its tokens cuts them)
		"string-keys-syntax-chars-single": "packet P {\n    string k,\n    match k as b {\n        \"A,B\" : Q,\n        \"p:q\" : R,\n        \"[z]\" : Q,\n        \"{x}; y\" : R,\n        \" lead\" : Q,\n        \"// c\" : R,\n    },\n}\npacket Q {\n}\npacket R {\n}\n",
		"string-keys-syntax-chars-lists":  "packet P {\n    string k,\n    match k as b {\n        [\"X,Y\", \"p:q\", \"[z]\"] : R,\n        [\"a,1\", \"b, 2\", \"c ,3\", \"d;4\", \"e{5}\", \"f]6\", \"g\\\"7\"] : Q,\n        [\",\"] : R,\n        [\"//\", \"`\"] : Q,\n    },\n}\npacket Q {\n}\npacket R {\n}\n",
		// free text in a legacy multi-byte encoding (GBK, Latin-1): runs of two and more bytes that are not UTF-8
		"non-utf8-runs": "// \xd6\xd0\xce\xc4\xd7\xa2\xca\xcd caf\xe9\xe8\npacket P {\n    u16 a `\xcb\xb5\xc3\xf7 \xff\xfe`, // \xce\xb2\xd7\xa2\n    string k,\n    match k as b {\n        \"\xbc\xfc\xbc\xfc\" : Q,\n    },\n}\npacket Q {\n}\n",
		"doc-with-comment-marker": "packet P {\n    u16 a `// not a comment`,\n    u16 b `ends with slash /`,\n}\n",
	}
	// a line longer than the 64 KiB a line-oriented reader buffers by default, with declarations after it
	long := strings.Repeat("x", 70000)
	raws["long-line-comment"] = "packet A {\n    u8 x,\n}\n// " + long + "\npacket B {\n    u16 y, // tail\n}\n"
	raws["long-line-doc"] = "packet A {\n    u8 x `" + long + "`,\n    u16 y,\n}\npacket B {\n}\n"
	for n, raw := range docPositionTexts() {
		raws[n] = raw
	}
	var names []string
	for n := range raws {
		names = append(names, n)
	}
	sort.Strings(names)
	var out []Text
	for _, n := range names {
		raw := raws[n]
		toks, err := api.Lex(raw)
		if err != nil {
			continue
		}
		var tt []string
		for _, t := range toks {
			if t.Channel == 0 {
				tt = append(tt, t.Text)
			}
		}
		out = append(out, Text{Name: "special/" + n, Toks: tt, Raw: raw})
	}
	return out
}

// docPositionTexts: every position of the grammar that takes free text (the doc string of each declaration kind,
// a checksum algorithm name, a string match key, comments) filled with each payload that is special to some
// layer a text passes through (format verbs, escapes, non-ASCII, comment markers, syntax characters, runs of
// blanks) - once in all positions together and once in each position alone, so that a defect of one
// declaration kind's printing routine is met whatever the others do.
func docPositionTexts() map[string]string {
	const tmpl = "MetaData Dict {\n    u64 Price `D0`,\n    Price Bid `D1`,\n}\nroot packet P {\n    u16 Kind `D2`,\n    Q Obj `D3`,\n    Q `D4`,\n    repeat Q Objs `D5`,\n" +
		"    u16 BodyLen @lengthOf(Body) `D6`,\n    match Kind as Body {\n        1 : Q,\n        [2, 3] : R,\n    },\n    u32 Sum @calculatedFrom(\"S0\") `D7`,\n    Price Px `D8`,\n" +
		"    Inner {\n        u8 X `D9`,\n    },\n    char[4] Fx `D10`,\n    repeat string Ss `D11`,\n    @tag(3)\n    u8 T `D12`, // C0\n}\n// C1\npacket Q {\n    u8 X,\n}\npacket R {\n}\n"
	payloads := []struct{ name, text string }{
		{"percent", "100% of %d %s %v %%"},
		{"backslash", `a\nb \x00 \t \`},
		{"unicode", "说明 ✓ é 😀"},
		{"comment-marker", "// not a comment /* nor this */ /"},
		{"syntax-chars", "{ } , ; : [ ] @lengthOf(x) \"q\" 'c'"},
		{"blanks", "two  spaces \t tab   end "},
	}
	const positions = 13
	out := map[string]string{}
	fill := func(only int, pl string) string {
		s := tmpl
		for k := positions - 1; k >= 0; k-- {
			v := fmt.Sprintf("doc %d", k)
			if only < 0 || only == k {
				v = pl
			}
			s = strings.Replace(s, fmt.Sprintf("`D%d`", k), "`"+v+"`", 1)
		}
		alg, c0, c1 := "SUMU32", "trailing", "between"
		if only < 0 || only == positions {
			if !strings.ContainsAny(pl, "\"\\") {
				alg = pl
			}
		}
		if only < 0 || only == positions+1 {
			c0 = pl
		}
		if only < 0 || only == positions+2 {
			c1 = pl
		}
		s = strings.Replace(s, "\"S0\"", "\""+alg+"\"", 1)
		s = strings.Replace(s, "// C0", "// "+c0, 1)
		s = strings.Replace(s, "// C1", "// "+c1, 1)
		return s
	}
	for _, pl := range payloads {
		out["free-text/"+pl.name+"/everywhere"] = fill(-1, pl.text)
		for k := 0; k < positions+3; k++ {
			out[fmt.Sprintf("free-text/%s/position-%02d", pl.name, k)] = fill(k, pl.text)
		}
	}
	return out
}

// grammarTexts enumerates the E2 derivations: for every rule, every derivation within `budget`
// non-default choices, embedded in its minimal context.
func grammarTexts(budget int, policy int) []Text {
	g := dsl.NewGrammar(3)
	seen := map[string]bool{}
	var out []Text
	for _, r := range dsl.RuleNames {
		for i, d := range g.Derive(r, budget) {
			t := dsl.Instantiate(d, policy)
			k := dsl.Key(t)
			if seen[k] {
				continue
			}
			seen[k] = true
			out = append(out, Text{Name: fmt.Sprintf("E2/%s/b%d/%d/n%d", r, budget, i, policy), Toks: t})
		}
	}
	return out
}

// repoSamples returns the DSL files shipped in the repository (token sequences via the real lexer).
func repoSamples(ctx *core.Ctx) []Text {
	var out []Text
	var files []string
	filepath.WalkDir(ctx.RepoDir, func(p string, d os.DirEntry, err error) error {
		if err == nil && !d.IsDir() && strings.HasSuffix(p, ".dsl") {
			files = append(files, p)
		}
		return nil
	})
	sort.Strings(files)
	for _, f := range files {
		b, err := os.ReadFile(f)
		if err != nil {
			continue
		}
		toks, err := api.Lex(string(b))
		if err != nil {
			continue
		}
		var tt []string
		for _, t := range toks {
			if t.Channel == 0 {
				tt = append(tt, t.Text)
			}
		}
		rel, _ := filepath.Rel(ctx.RepoDir, f)
		out = append(out, Text{Name: "repo/" + rel, Toks: tt})
	}
	return out
}

// programTexts returns the E1 programs as token sequences.
func programTexts(progs []*dsl.Program) []Text {
	var out []Text
	for _, p := range progs {
		out = append(out, Text{Name: "E1/" + p.Name, Toks: p.Tokens()})
	}
	return out
}

// tokSig describes, for a signature, where two texts first differ, in terms of token types so that
// it identifies the construct and not the input.
func diffSig(a, b string) string {
	ta, ea := api.Lex(a)
	tb, eb := api.Lex(b)
	if ea != nil || eb != nil {
		return "lexer-failed"
	}
	n := len(ta)
	if len(tb) < n {
		n = len(tb)
	}
	for i := 0; i < n; i++ {
		if ta[i].Type != tb[i].Type {
			return fmt.Sprintf("token %s (after %s, before %s) became %s", tokClass(ta[i]), prevName(ta, i), nextName(ta, i), tokClass(tb[i]))
		}
		if ta[i].Text != tb[i].Text {
			return fmt.Sprintf("text of %s token changed", tokClass(ta[i]))
		}
	}
	if len(ta) != len(tb) {
		if len(ta) > len(tb) {
			return fmt.Sprintf("token %s missing at end after %s", tokClass(ta[n]), prevName(ta, n))
		}
		return fmt.Sprintf("extra token %s at end after %s", tokClass(tb[n]), prevName(tb, n))
	}
	// same tokens: layout differs
	pl, pc := 1, 0
	ql, qc := 1, 0
	for i := 0; i < n; i++ {
		da := [2]int{ta[i].Line - pl, ta[i].Column}
		db := [2]int{tb[i].Line - ql, tb[i].Column}
		if da[0] == 0 {
			da[1] = ta[i].Column - pc
		}
		if db[0] == 0 {
			db[1] = tb[i].Column - qc
		}
		if da != db {
			return fmt.Sprintf("whitespace between %s and %s", prevName(ta, i), tokClass(ta[i]))
		}
		pl, pc = endPos(ta[i])
		ql, qc = endPos(tb[i])
	}
	return "trailing whitespace"
}

func endPos(t api.Token) (int, int) {
	nl := strings.Count(t.Text, "\n")
	if nl == 0 {
		return t.Line, t.Column + len([]rune(t.Text))
	}
	last := t.Text[strings.LastIndex(t.Text, "\n")+1:]
	return t.Line + nl, len([]rune(last))
}

func nextName(t []api.Token, i int) string {
	if i+1 >= len(t) {
		return "end"
	}
	return tokClass(t[i+1])
}

func prevName(t []api.Token, i int) string {
	if i == 0 {
		return "start"
	}
	return tokClass(t[i-1])
}

func tokClass(t api.Token) string {
	if t.Name != "" {
		if t.Name == "STRING_LITERAL" && strings.Contains(t.Text, "\n") {
			return "STRING_LITERAL(multi-line)"
		}
		return t.Name
	}
	return "'" + t.Text + "'"
}
