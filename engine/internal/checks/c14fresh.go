package checks

import (
	"bufio"
	"fmt"
	"os"
	"os/exec"
	"strings"
	"sync/atomic"
	"time"

	api "github.com/xinchentechnote/fin-protoc/verifapi"
	"verif/engine/internal/core"
)

// Fresh-process histories (C14). E4 explores every order of generators over one parsed model inside the
// checker's own long-lived process; its state is the dump of the model. State a generator leaves anywhere else
// in the process - a package-level variable, a table inside a third-party package - is invisible to that dump
// and, in a long-lived process, reaches every baseline alike. The command line can only show it for the one
// order main() uses. Here every generator history up to a depth is replayed in a process of its own:
//
//	vcheck --gen-worker <file> A B ... T     parse once, apply the real generators A, B, ... to the one model,
//	                                         print the hash of T's file map (and of the model dump before T)
//
// and T's files after the history must equal T's files from the process that ran T alone.
// depth 2 (quick): all 30 ordered pairs; depth 3 (thorough): additionally all 120 ordered triples.

// GenWorker is the subprocess entry point.
func GenWorker(args []string) {
	out := bufio.NewWriter(core.Out)
	defer out.Flush()
	if len(args) < 2 {
		fmt.Fprintln(out, "ERR usage")
		return
	}
	m, diags, err := api.ParseFile(args[0])
	if err != nil || len(diags) > 0 || api.Cyclic(m) {
		fmt.Fprintln(out, "NOT-ACCEPTED")
		return
	}
	hist := args[1:]
	for _, l := range hist[:len(hist)-1] {
		api.Generate(m, l)
	}
	fmt.Fprintf(out, "TREE %s\n", core.Hash(genString(m, hist[len(hist)-1])))
}

func freshRun(ctx *core.Ctx, self, file string, hist []string) string {
	cmd := exec.Command(self, append([]string{"--gen-worker", file}, hist...)...)
	cmd.Env = append(os.Environ(), "VERIF_WORKER_DIR="+ctx.Scratch)
	done := make(chan struct{})
	var b []byte
	var err error
	go func() { b, err = cmd.Output(); close(done) }()
	select {
	case <-done:
	case <-time.After(5 * time.Minute):
		cmd.Process.Kill()
		<-done
		return "TIMEOUT"
	}
	if err != nil {
		return "DIED " + err.Error()
	}
	return strings.TrimSpace(string(b))
}

type freshStats struct{ processes, histories, programs int64 }

func c14Fresh(ctx *core.Ctx, name, text string, depth int, fs *freshStats) {
	if _, err := applyHistory(ctx, text, nil); err != nil {
		return
	}
	self, _ := os.Executable()
	file := ctx.TempPath(".dsl")
	os.WriteFile(file, []byte(text), 0o644)
	defer os.Remove(file)
	atomic.AddInt64(&fs.programs, 1)
	base := map[string]string{}
	for _, l := range api.Langs {
		base[l] = freshRun(ctx, self, file, []string{l})
		atomic.AddInt64(&fs.processes, 1)
		if !strings.HasPrefix(base[l], "TREE ") {
			// a generator that dies or does not terminate alone is C11's subject
			delete(base, l)
		}
	}
	var hists [][]string
	var rec func(cur []string)
	rec = func(cur []string) {
		if len(cur) >= 2 {
			hists = append(hists, append([]string(nil), cur...))
		}
		if len(cur) == depth {
			return
		}
		for _, l := range api.Langs {
			dup := false
			for _, c := range cur {
				if c == l {
					dup = true
				}
			}
			if !dup {
				rec(append(cur, l))
			}
		}
	}
	rec(nil)
	for _, h := range hists {
		target := h[len(h)-1]
		want, ok := base[target]
		if !ok {
			continue
		}
		usable := true
		for _, l := range h[:len(h)-1] {
			if _, ok := base[l]; !ok {
				usable = false // a history through a generator that dies alone says nothing about interference
			}
		}
		if !usable {
			continue
		}
		got := freshRun(ctx, self, file, h)
		atomic.AddInt64(&fs.processes, 1)
		atomic.AddInt64(&fs.histories, 1)
		if got == "TIMEOUT" {
			continue // wall-clock answers are never verdicts
		}
		if got != want {
			before := strings.Join(h[:len(h)-1], ", ")
			what := "differs"
			if !strings.HasPrefix(got, "TREE ") {
				what = "cannot be generated (" + core.Trunc(got, 80) + ")"
			}
			ctx.Report(fmt.Sprintf("fresh|output of %s %s when %s ran before it in the same process", target, what, h[len(h)-2]),
				fmt.Sprintf("program %s: in a fresh process the generators %s ran on the parsed model, then %s: its files are not those of a process that ran %s alone\n%s", name, before, target, target, core.Trunc(text, 600)),
				map[string]any{"name": name, "text": text, "history": h})
		}
	}
}
