package checks

import (
	"fmt"

	"verif/engine/internal/core"
	"verif/engine/internal/wire"
)

// Reused objects (C05). A receive loop commonly decodes every message into one long-lived object. The packet a
// match field holds afterwards must be the one the table maps the key just read to - not whatever the object
// held before. Explored: for every case whose root has a match field, every ordered pair (a, b) of messages that
// carry different alternatives: decode a, then decode b into the same object (driver command DECX); and a, then
// the encoding with an unmapped key. Oracle (only the dispatch is judged, since what a decoder does with the
// other members of a used object is not the subject): after (a, b) the match member holds b's packet type; after
// (a, unmapped) the decode fails. Judged only where b alone / the unmapped key alone behave correctly.
// The Rust target constructs a new value per decode and has nothing to reuse.

type reuseRun struct {
	id       string
	a, b     int // message indices; b < 0: the k-th unmapped encoding
	unmapped int
}

const reuseMaxPairs = 12

func rootMatchIndex(r *wire.RProgram) int {
	for i, f := range r.Root.Fields {
		if f.Kind == wire.KMatch {
			return i
		}
	}
	return -1
}

func buildReuseRuns(pc *ProgCase) {
	mi := rootMatchIndex(pc.R)
	if mi < 0 {
		return
	}
	// one representative message per alternative
	rep := map[string]int{}
	var order []string
	for i, m := range pc.Msgs {
		p := m.Val.Fields[mi].Packet
		if _, ok := rep[p]; !ok {
			rep[p] = i
			order = append(order, p)
		}
	}
	for _, pa := range order {
		for _, pb := range order {
			if pa == pb || len(pc.Reuse) >= reuseMaxPairs {
				continue
			}
			pc.Reuse = append(pc.Reuse, reuseRun{id: fmt.Sprintf("r.%s.%s", pc.Msgs[rep[pa]].ID, pc.Msgs[rep[pb]].ID), a: rep[pa], b: rep[pb]})
		}
	}
	for k := range pc.UnmappedHex {
		if len(order) > 0 && k < 3 {
			pc.Reuse = append(pc.Reuse, reuseRun{id: fmt.Sprintf("r.%s.u%d", pc.Msgs[rep[order[len(order)-1]]].ID, k), a: rep[order[len(order)-1]], b: -1, unmapped: k})
		}
	}
}

func reuseInput(pc *ProgCase) []string {
	var in []string
	for _, r := range pc.Reuse {
		second := ""
		if r.b >= 0 {
			second = hexOf(pc.Encs[r.b].Bytes)
		} else {
			second = pc.UnmappedHex[r.unmapped]
		}
		in = append(in, fmt.Sprintf("DECX %s %s %s %s", r.id, pc.R.Root.Name, hexOf(pc.Encs[r.a].Bytes), second))
	}
	return in
}

func reuseChecks(ctx *core.Ctx, pc *ProgCase, cc *CodecCell, st *codecStats) {
	mi := rootMatchIndex(pc.R)
	for _, r := range pc.Reuse {
		o := cc.T.Out["DEC:"+r.id]
		if o == nil || (o.Kind == "ERR" && (o.ErrKind == "unsupported" || o.ErrKind == "inapplicable" || wallClockAnswer(o.ErrText))) {
			continue
		}
		rep := map[string]any{"name": pc.Prog.Name, "lang": cc.Lang, "text": pc.Text, "first": hexOf(pc.Encs[r.a].Bytes)}
		if r.b < 0 {
			// judged only if the unmapped key alone is refused
			if u := cc.T.Out[fmt.Sprintf("DEC:u%d", r.unmapped)]; u == nil || u.Kind != "ERR" || u.ErrKind != "error" {
				continue
			}
			st.reuseEvals++
			if o.Kind == "DEC" {
				rep["second"] = pc.UnmappedHex[r.unmapped]
				ctx.Report(fmt.Sprintf("%s|an object that already holds a payload accepts a key absent from the match table|%s", cc.Lang, progClass(pc.Prog.Name)),
					fmt.Sprintf("program %s: decode %s, then into the same object %s (key not in the table): no error\ndecoded %s\n%s", pc.Prog.Name, hexOf(pc.Encs[r.a].Bytes), pc.UnmappedHex[r.unmapped], core.Trunc(o.Raw, 300), core.Trunc(pc.Text, 600)), rep)
			}
			continue
		}
		if !plainDecOK(pc, cc, r.b) {
			continue
		}
		st.reuseEvals++
		rep["second"] = hexOf(pc.Encs[r.b].Bytes)
		want := pc.WireVals[r.b].Fields[mi].Packet
		where := fmt.Sprintf("program %s: decode message %s (%s), then into the same object message %s (%s)\n", pc.Prog.Name, pc.Msgs[r.a].ID, pc.WireVals[r.a].Fields[mi].Packet, pc.Msgs[r.b].ID, want)
		if o.Kind == "ERR" {
			ctx.Report(fmt.Sprintf("%s|an object that already holds a payload cannot decode a message with another key|%s|%s", cc.Lang, errWord(o.ErrText), progClass(pc.Prog.Name)),
				where+o.ErrText+"\n"+core.Trunc(pc.Text, 600), rep)
			continue
		}
		if d := pc.R.Compare(pc.R.Root, pc.WireVals[r.b], o.Tree()); d != nil && d.Field != nil && d.Field.Kind == wire.KMatch {
			ctx.Report(fmt.Sprintf("%s|an object that already holds a payload keeps it instead of the packet the key selects: %s|%s", cc.Lang, d.Class, progClass(pc.Prog.Name)),
				where+d.String()+"\ndecoded "+core.Trunc(o.Raw, 300)+"\n"+core.Trunc(pc.Text, 600), rep)
		}
	}
}
