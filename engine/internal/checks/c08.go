package checks

import (
	"fmt"
	"sort"
	"strings"
	"sync"
	"sync/atomic"

	api "github.com/xinchentechnote/fin-protoc/verifapi"
	"verif/engine/internal/core"
	"verif/engine/internal/dsl"
)

func init() { Registry["C08"] = C08 }

// rewriteSite is one place where a meaning-preserving rewrite can be applied.
type rewriteSite struct {
	kind  string // the rewrite's name (part of the signature)
	where string
	apply func(q *dsl.Program)
}

func fieldAt(q *dsl.Program, path []int) *dsl.Field {
	f := q.Packets[path[0]].Fields[path[1]]
	for _, i := range path[2:] {
		f = f.Sub[i]
	}
	return f
}

// rewriteSites enumerates every site of every meaning-preserving rewrite of the property statement.
func rewriteSites(p *dsl.Program) []rewriteSite {
	var out []rewriteSite
	add := func(kind, where string, f func(q *dsl.Program)) {
		out = append(out, rewriteSite{kind, where, f})
	}
	padOptionsSet := false
	for _, o := range p.Opts {
		if strings.HasPrefix(o.Name, "FixedStringPad") {
			padOptionsSet = true
		}
	}
	var walk func(fs []*dsl.Field, path []int, inline bool)
	walk = func(fs []*dsl.Field, path []int, inline bool) {
		for i, f := range fs {
			pth := append(append([]int{}, path...), i)
			where := fmt.Sprintf("%s.%s", p.Packets[pth[0]].Name, f.FieldName())
			switch f.Kind {
			case dsl.Scalar:
				if f.Type != "char" {
					add("type alias (u16 <-> uint16)", where, func(q *dsl.Program) { x := fieldAt(q, pth); x.Alias = !x.Alias })
				}
			case dsl.LenOf, dsl.Checksum:
				add("type alias (u16 <-> uint16)", where, func(q *dsl.Program) { x := fieldAt(q, pth); x.Alias = !x.Alias })
				if !inline {
					add("inline <-> prefixed attribute placement", where, func(q *dsl.Program) { x := fieldAt(q, pth); x.Prefixed = !x.Prefixed })
				}
			case dsl.DynStr:
				add("string <-> char[]", where, func(q *dsl.Program) {
					x := fieldAt(q, pth)
					if x.Type == "string" {
						x.Type = "char[]"
					} else {
						x.Type = "string"
					}
				})
			case dsl.FixStr:
				if f.Type == "zchar" && !inline {
					add("zchar[n] <-> @rightPad('\\x00') char[n]", where, func(q *dsl.Program) {
						x := fieldAt(q, pth)
						x.Type = "char"
						x.Pad = &dsl.Pad{Left: false, Char: `'\x00'`}
					})
				}
				if f.Type == "char" && f.Pad == nil && !inline && !padOptionsSet {
					add("no padding <-> explicit default @rightPad(' ')", where, func(q *dsl.Program) { fieldAt(q, pth).Pad = &dsl.Pad{Left: false, Char: "' '"} })
				}
			case dsl.Match:
				add("optional commas after match pairs", where, func(q *dsl.Program) { x := fieldAt(q, pth); x.PairCommas = (x.PairCommas + 1) % 3 })
				for pi, pr := range f.Pairs {
					pi := pi
					if len(pr.Keys) > 1 {
						add("key list <-> expanded pairs", where, func(q *dsl.Program) {
							x := fieldAt(q, pth)
							old := x.Pairs[pi]
							var np []dsl.Pair
							np = append(np, x.Pairs[:pi]...)
							for _, k := range old.Keys {
								np = append(np, dsl.Pair{Keys: []string{k}, Packet: old.Packet})
							}
							np = append(np, x.Pairs[pi+1:]...)
							x.Pairs = np
						})
					} else {
						add("single key <-> one-element list", where, func(q *dsl.Program) { x := fieldAt(q, pth); x.Pairs[pi].List = !x.Pairs[pi].List })
					}
				}
			case dsl.MetaRef:
				e := p.MetaEntryByName(f.Ref)
				for e != nil && e.Kind == dsl.MetaRef {
					e = p.MetaEntryByName(e.Ref)
				}
				if e != nil && !inline {
					ee := *e
					add("MetaData-typed field <-> the inlined type", where, func(q *dsl.Program) {
						x := fieldAt(q, pth)
						name := x.FieldName()
						x.Kind = ee.Kind
						x.Type = ee.Type
						x.N = ee.N
						x.Name = name
						x.Ref = ""
					})
				}
			case dsl.Inline:
				walk(f.Sub, pth, true)
			}
			if f.Kind != dsl.Inline && f.Kind != dsl.Match {
				add("doc string present <-> absent", where, func(q *dsl.Program) {
					x := fieldAt(q, pth)
					if x.Doc == "" {
						// free text that spells words of the language: what decides a field's meaning must read its
						// type, not the text of the whole declaration
						x.Doc = "was zchar[8] before v2; repeat string u16 char[] match root packet @lengthOf(x) @leftPad('0')"
						// ... and that holds one half of a bracketing pair of some other notation: the opening halves in
						// the fields at even positions, the closing halves at odd positions, so that two doc strings
						// applied together bracket the declarations between them (a text-level pre-pass that strips
						// block comments, expands templates or balances brackets swallows those declarations)
						if pth[len(pth)-1]%2 == 0 {
							x.Doc += "; see specs/*.md <!-- ${ {{ ( [ { #if 0"
						} else {
							x.Doc += "; see venues/*/symbols.csv --> }} ) ] } #endif"
						}
					} else {
						x.Doc = ""
					}
				})
			}
		}
	}
	for pi, pk := range p.Packets {
		walk(pk.Fields, []int{pi}, false)
	}
	for _, name := range dsl.OptionNames {
		name := name
		if _, set := p.OptValue(name); !set {
			def := dsl.OptionValues[name][0]
			add("explicit default option <-> omitted", name, func(q *dsl.Program) { q.Opts = append(q.Opts, dsl.Opt{Name: name, Value: def, Semi: true}) })
		}
	}
	for oi := range p.Opts {
		oi := oi
		add("optional ';' after an option", p.Opts[oi].Name, func(q *dsl.Program) { q.Opts[oi].Semi = !q.Opts[oi].Semi })
	}
	for bi, mb := range p.Meta {
		for ei, e := range mb.Entries {
			bi, ei := bi, ei
			if e.Kind == dsl.Scalar && e.Type != "char" {
				add("type alias (u16 <-> uint16)", "MetaData."+e.Name, func(q *dsl.Program) { x := q.Meta[bi].Entries[ei]; x.Alias = !x.Alias })
			}
			if e.Kind == dsl.DynStr {
				add("string <-> char[]", "MetaData."+e.Name, func(q *dsl.Program) {
					x := q.Meta[bi].Entries[ei]
					if x.Type == "string" {
						x.Type = "char[]"
					} else {
						x.Type = "string"
					}
				})
			}
		}
	}
	return out
}

// attributePrograms: several fields share one MetaData entry / referenced type and one of them carries an attribute.
func attributePrograms() []*dsl.Program {
	var out []*dsl.Program
	meta := func() []*dsl.MetaBlock {
		return []*dsl.MetaBlock{{Name: "Dict", Entries: []*dsl.MetaEntry{
			{Name: "Symbol", Kind: dsl.FixStr, Type: "char", N: 4, Doc: "symbol"},
			{Name: "ZSym", Kind: dsl.FixStr, Type: "zchar", N: 4, Doc: "zsym"},
			{Name: "Price", Kind: dsl.Scalar, Type: "u64", Doc: "price"},
		}}}
	}
	for ai := 0; ai < 3; ai++ {
		for _, pd := range []*dsl.Pad{{Left: true, Char: "'0'"}, {Left: false, Char: `'\x00'`}, {Left: true, Char: "' '"}} {
			fs := []*dsl.Field{dsl.Mr("Symbol", "First"), dsl.Mr("Symbol", "Second"), dsl.Mr("Symbol", "Third")}
			pd := *pd
			fs[ai].Pad = &pd
			p := &dsl.Program{Name: fmt.Sprintf("ATTR/pad-on-field-%d-%s", ai, strings.Trim(pd.Char, "'\\")), Meta: meta(), Packets: []*dsl.Packet{dsl.Root("Msg", fs...), dsl.Pk("Other", dsl.Mr("Symbol", "Fourth"))}}
			p.Packets[0].Fields = append(p.Packets[0].Fields, dsl.Ob("Other", ""))
			p.Opts = dsl.TargetOpts("gattr")
			out = append(out, p)
		}
	}
	{
		fs := []*dsl.Field{dsl.Mr("ZSym", "First"), dsl.Mr("ZSym", "Second")}
		fs[0].Pad = &dsl.Pad{Left: true, Char: "'0'"}
		p := &dsl.Program{Name: "ATTR/pad-on-zchar-entry", Meta: meta(), Packets: []*dsl.Packet{dsl.Root("Msg", fs...)}}
		p.Opts = dsl.TargetOpts("gattr")
		out = append(out, p)
	}
	// entries that are aliases of other entries (one and two steps), for every kind of target entry: a field typed
	// by the alias means what a field of the target's type means, padding included
	{
		m := meta()
		m[0].Entries = append(m[0].Entries,
			&dsl.MetaEntry{Name: "Str", Kind: dsl.DynStr, Type: "string", Doc: "text"},
			&dsl.MetaEntry{Name: "SymAlias", Kind: dsl.MetaRef, Ref: "Symbol", Doc: "alias of a char[4]"},
			&dsl.MetaEntry{Name: "ZAlias", Kind: dsl.MetaRef, Ref: "ZSym", Doc: "alias of a zchar[4]"},
			&dsl.MetaEntry{Name: "ZAlias2", Kind: dsl.MetaRef, Ref: "ZAlias", Doc: "alias of an alias"},
			&dsl.MetaEntry{Name: "PxAlias", Kind: dsl.MetaRef, Ref: "Price"},
			&dsl.MetaEntry{Name: "StrAlias", Kind: dsl.MetaRef, Ref: "Str"})
		p := &dsl.Program{Name: "ATTR/alias-entries", Meta: m, Packets: []*dsl.Packet{dsl.Root("Msg",
			dsl.Mr("SymAlias", "A"), dsl.Mr("ZAlias", "B"), dsl.Mr("ZAlias2", "C"), dsl.Mr("PxAlias", "D"), dsl.Mr("StrAlias", "E"), dsl.Rep(dsl.Mr("ZAlias", "F")), dsl.Mr("ZSym", "G"))}}
		p.Opts = dsl.TargetOpts("gattralias")
		out = append(out, p)
	}
	{
		fs := []*dsl.Field{dsl.Mr("Price", "First"), dsl.Mr("Price", "Second")}
		fs[0].Tag = 9
		p := &dsl.Program{Name: "ATTR/tag-on-one", Meta: meta(), Packets: []*dsl.Packet{dsl.Root("Msg", fs...)}}
		p.Opts = dsl.TargetOpts("gattr")
		out = append(out, p)
	}
	return out
}

// C08: generated code depends on meaning, not spelling.
func C08(ctx *core.Ctx) int {
	var progs []*dsl.Program
	progs = append(progs, dsl.P1()...)
	progs = append(progs, dsl.P3()...)
	progs = append(progs, dsl.P5()...)
	progs = append(progs, dsl.P6()...)
	progs = append(progs, attributePrograms()...)
	progs = append(progs, dsl.Universal())
	if ctx.Thorough() {
		progs = append(progs, dsl.P2()...)
		progs = append(progs, dsl.P4()...)
	}
	// the same programs with their MetaData block written after the packets that use it: every equivalence must
	// hold wherever the blocks stand
	for _, p := range append([]*dsl.Program(nil), progs...) {
		if len(p.Meta) > 0 && !p.MetaLast {
			q := p.Clone()
			q.MetaLast = true
			q.Name = p.Name + " (MetaData block last)"
			progs = append(progs, q)
		}
	}
	maxSubset := 2
	if ctx.Thorough() {
		maxSubset = 3
	}
	var evals, unobs, nsites int64
	distinct := sync.Map{}
	samples := &core.Sample{N: 6}
	only := ""
	if ctx.Replay != "" {
		var r struct {
			Replay struct{ Name string } `json:"replay"`
		}
		readReplay(ctx, &r)
		only = r.Replay.Name
	}
	core.Parallel(len(progs), func(i int) {
		p := progs[i]
		if only != "" && p.Name != only {
			return
		}
		baseText := p.Text()
		base, diags, err := compileAll(ctx, baseText)
		if err != nil || diags != nil {
			atomic.AddInt64(&unobs, 1)
			// not accepted as written (C12's subject) - but if the same program with its MetaData-typed fields
			// spelled out IS accepted, two texts that mean the same do not produce the same outputs
			q := p.Clone()
			n := 0
			for _, s := range rewriteSites(p) {
				if s.kind == "MetaData-typed field <-> the inlined type" {
					s.apply(q)
					n++
				}
			}
			if n > 0 {
				atomic.AddInt64(&evals, 1)
				if _, d2, err2 := compileAll(ctx, q.Text()); err2 == nil && d2 == nil {
					why := ""
					if err != nil {
						why = errClass(err)
					} else {
						why = normDiag(diags[0])
					}
					ctx.Report("MetaData-typed field <-> the inlined type|only the inlined spelling is accepted|"+why,
						fmt.Sprintf("program %s: rejected as written (%s), accepted with its MetaData-typed fields spelled out\n--- original\n%s\n--- respelled\n%s", p.Name, why, core.Trunc(baseText, 500), core.Trunc(q.Text(), 500)),
						map[string]any{"name": p.Name, "text": q.Text(), "original": baseText})
				}
			}
			return
		}
		for _, l := range api.Langs {
			distinct.Store(core.Hash(p.Name, l, base[l]), true)
		}
		sites := rewriteSites(p)
		atomic.AddInt64(&nsites, int64(len(sites)))
		type found struct {
			kinds  []string
			lang   string
			detail string
			replay map[string]any
		}
		var finds []found
		try := func(what string, kinds []string, text string) {
			atomic.AddInt64(&evals, 1)
			got, d2, err := compileAll(ctx, text)
			if err != nil || d2 != nil {
				msg := ""
				if err != nil {
					msg = errClass(err)
				} else {
					msg = normDiag(d2[0])
				}
				finds = append(finds, found{kinds, "(all)", fmt.Sprintf("program %s, %s: the respelled text is not accepted: %s\n--- original\n%s\n--- respelled\n%s", p.Name, what, msg, core.Trunc(baseText, 500), core.Trunc(text, 500)),
					map[string]any{"name": p.Name, "what": what, "text": text, "original": baseText}})
				return
			}
			for _, l := range api.Langs {
				if got[l] != base[l] {
					finds = append(finds, found{kinds, l, fmt.Sprintf("program %s, %s: %s output differs\nfirst difference: %s\n--- original\n%s\n--- respelled\n%s", p.Name, what, l, firstDiffLine(base[l], got[l]), core.Trunc(baseText, 500), core.Trunc(text, 500)),
						map[string]any{"name": p.Name, "what": what, "text": text, "original": baseText, "lang": l}})
				}
			}
		}
		// subsets of rewrite sites
		n := len(sites)
		var subsets [][]int
		small := 8
		msz := maxSubset
		if !ctx.Thorough() {
			small = 6
			if n > 24 {
				msz = 1
			}
		}
		if n <= small {
			for mask := 1; mask < 1<<n; mask++ {
				var s []int
				for b := 0; b < n; b++ {
					if mask&(1<<b) != 0 {
						s = append(s, b)
					}
				}
				subsets = append(subsets, s)
			}
		} else {
			var rec func(start int, cur []int)
			rec = func(start int, cur []int) {
				if len(cur) > 0 {
					subsets = append(subsets, append([]int{}, cur...))
				}
				if len(cur) == msz {
					return
				}
				for b := start; b < n; b++ {
					rec(b+1, append(cur, b))
				}
			}
			rec(0, nil)
		}
		for _, sub := range subsets {
			q := p.Clone()
			var kinds, wheres []string
			// apply in descending site order so that pair-expanding rewrites do not shift later indices
			for k := len(sub) - 1; k >= 0; k-- {
				sites[sub[k]].apply(q)
				kinds = append(kinds, sites[sub[k]].kind)
				wheres = append(wheres, sites[sub[k]].kind+" at "+sites[sub[k]].where)
			}
			try(strings.Join(wheres, "; "), uniq(kinds), q.Text())
		}
		// layout, comments
		toks := p.Tokens()
		for _, st := range []dsl.Style{dsl.OneLine, dsl.Newline, dsl.Tabs, dsl.CRLF, dsl.Ragged} {
			try(fmt.Sprintf("layout %d", st), []string{"whitespace"}, dsl.Render(toks, st))
		}
		g := dsl.Gaps(toks, dsl.Pretty)
		for gi := range g {
			if gi%3 == 0 {
				g[gi] = g[gi] + " // note\n"
			}
		}
		try("comments", []string{"comments"}, dsl.Join(toks, g))
		// report minimal kind-sets per language
		sort.Slice(finds, func(a, b int) bool { return len(finds[a].kinds) < len(finds[b].kinds) })
		reported := map[string][][]string{}
		for _, f := range finds {
			dup := false
			for _, prev := range reported[f.lang] {
				if subset(prev, f.kinds) {
					dup = true
				}
			}
			if dup {
				continue
			}
			reported[f.lang] = append(reported[f.lang], f.kinds)
			ctx.Report(fmt.Sprintf("%s|%s output changes", strings.Join(f.kinds, " + "), f.lang), f.detail, f.replay)
		}
		if i%37 == 0 {
			var ss []string
			for _, s := range sites {
				ss = append(ss, s.kind+" at "+s.where)
			}
			samples.Add(map[string]any{"program": p.Name, "rewrite_sites": ss, "variants": len(subsets) + 6})
		}
	})
	nd := 0
	distinct.Range(func(k, v any) bool { nd++; return true })
	cov := core.Coverage{
		"evaluations":                        evals,
		"distinct_nontrivial":                nd,
		"rule":                               fmt.Sprintf("for each program (P1, P3, P5, P6, U, attribute-sharing programs; thorough adds P2, P4): every subset of meaning-preserving rewrite sites when <= 8 sites, else every subset of size <= %d; plus 5 layouts and a commented variant; all six output trees (each target from a fresh parse) compared byte for byte with the original's. distinct_nontrivial = distinct (program, target, output tree) baselines", maxSubset),
		"samples":                            samples.List,
		"programs":                           len(progs),
		"programs_unobservable_not_accepted": unobs,
		"rewrite_sites_total":                nsites,
		"exhaustive":                         true,
	}
	ctx.Assumes = append(ctx.Assumes, "map-iteration order and the clock are pinned (C13 explores them)", "each target is generated from a fresh parse (C14 owns generator interference)")
	return ctx.Finish("exploration", cov)
}
