package checks

import (
	"encoding/hex"
	"fmt"
	"math"
	"sort"
	"strconv"
	"strings"

	"verif/engine/internal/core"
	"verif/engine/internal/dsl"
	"verif/engine/internal/targets"
	"verif/engine/internal/wire"
)

func init() {
	Registry["C02"] = C02
	Registry["C03"] = C03
	Registry["C04"] = C04
	Registry["C05"] = C05
	Registry["C06"] = C06
}

// progClass names the situation a program stands for, for signatures of whole-message failures.
func progClass(name string) string {
	if i := strings.Index(name, "{"); i > 0 {
		name = name[:i]
	}
	// hand-written shapes are named in full (each is its own situation: a known finding in one of them must not
	// mask a new defect in another); the systematic families P2/P3/P4 are named by family
	if strings.HasPrefix(name, "P1/") || strings.HasPrefix(name, "L/") || strings.HasPrefix(name, "M/") || strings.HasPrefix(name, "K/") || strings.HasPrefix(name, "F/") || strings.HasPrefix(name, "P5/") || strings.HasPrefix(name, "P6/") {
		return name
	}
	return familyOf(name)
}

func hexOf(b []byte) string { return hex.EncodeToString(b) }

// forEachObservable walks the observable cells and keeps the unobservable ones in the statistics.
func forEachObservable(cases []*ProgCase, langs []string, st *codecStats, f func(pc *ProgCase, cc *CodecCell)) {
	for _, pc := range cases {
		for _, l := range langs {
			cc := pc.Cells[l]
			st.cells++
			if cc == nil || !cc.Observable() {
				st.unobservable++
				if cc != nil {
					st.blockers[l+": "+cc.Blocker()]++
				}
				continue
			}
			st.observable++
			f(pc, cc)
		}
	}
}

// decodeChecks applies the C02 oracle to one decode observation. only != nil restricts reporting to
// differences located in fields of that kind (used by the projections C04/C05/C06).
func decodeChecks(ctx *core.Ctx, pc *ProgCase, cc *CodecCell, i int, si int, st *codecStats, only func(k wire.FKind) bool) {
	m := pc.Msgs[i]
	l := cc.Lang
	id := fmt.Sprintf("DEC:%s.s%d", m.ID, si)
	o := cc.T.Out[id]
	if o == nil {
		return
	}
	st.evals++
	ref := pc.Encs[i].Bytes
	sfx := "no trailing bytes"
	switch si {
	case 1, 2:
		sfx = "trailing bytes present"
	case 3:
		sfx = "a second message follows"
	}
	rep := map[string]any{"name": pc.Prog.Name, "lang": l, "message": m.ID, "suffix": si, "text": pc.Text, "value": pc.R.FormatValue(nil, pc.R.Root, m.Val), "reference": hexOf(ref)}
	if o.Kind == "ERR" {
		if o.ErrKind == "unsupported" {
			st.blockers[l+": member/type missing: "+abstractName(o.ErrText)]++
			return
		}
		if wallClockAnswer(o.ErrText) {
			st.blockers[l+": per-command wall-clock limit of the driver (not a verdict)"]++
			return
		}
		if only == nil {
			ctx.Report(fmt.Sprintf("%s|decoder rejects the canonical encoding (%s)|%s|%s|%s", l, sfx, errWord(o.ErrText), progClass(pc.Prog.Name), optsOnly(pc.Prog, "int")),
				fmt.Sprintf("program %s message %s: %s\nbytes %s\n%s", pc.Prog.Name, m.ID, o.ErrText, core.Trunc(hexOf(ref), 300), core.Trunc(pc.Text, 600)), rep)
		} else if only(wire.KMatch) && si == 0 {
			// every key carried by an enumerated message is in the table: a rejection is a dispatch failure
			ctx.Report(fmt.Sprintf("%s|decoder rejects a message whose key is in the match table|%s|%s", l, errWord(o.ErrText), progClass(pc.Prog.Name)),
				fmt.Sprintf("program %s message %s: %s\nvalue %s\nbytes %s\n%s", pc.Prog.Name, m.ID, o.ErrText, core.Trunc(rep["value"].(string), 300), core.Trunc(hexOf(ref), 300), core.Trunc(pc.Text, 600)), rep)
		}
		return
	}
	st.distinct[o.Raw] = true
	if d := pc.R.Compare(pc.R.Root, pc.WireVals[i], o.Tree()); d != nil {
		k := wire.KObj
		if d.Field != nil {
			k = d.Field.Kind
		}
		if d.Class == "member missing" {
			// the emitted type lacks a declared member: C07's subject, unobservable here
			st.blockers[l+": member missing in the decoded object: "+d.Where()]++
			return
		}
		if only == nil || only(k) {
			ctx.Report(fmt.Sprintf("%s|decoded value differs: %s %s|%s", l, d.Where(), d.Class, optsFor(pc.Prog, d.Where()+" "+d.Class)),
				fmt.Sprintf("program %s message %s (%s): %s\nbytes %s\ndecoded %s\n%s", pc.Prog.Name, m.ID, sfx, d.String(), core.Trunc(hexOf(ref), 300), core.Trunc(o.Raw, 400), core.Trunc(pc.Text, 600)), rep)
		}
		return
	}
	if only != nil {
		return
	}
	if o.Pos != len(ref) {
		dir := "fewer"
		if o.Pos > len(ref) {
			dir = "more"
		}
		ctx.Report(fmt.Sprintf("%s|decoder consumes %s bytes than the message has (%s)|%s|%s", l, dir, sfx, progClass(pc.Prog.Name), optsOnly(pc.Prog, "int")),
			fmt.Sprintf("program %s message %s: read position %d, message length %d\n%s", pc.Prog.Name, m.ID, o.Pos, len(ref), core.Trunc(pc.Text, 600)), rep)
	}
	if o.ReencErr != "" {
		ctx.Report(fmt.Sprintf("%s|re-encoding the decoded value fails|%s|%s", l, errWord(o.ReencErr), progClass(pc.Prog.Name)),
			fmt.Sprintf("program %s message %s: %s", pc.Prog.Name, m.ID, o.ReencErr), rep)
	} else if got, err := hex.DecodeString(o.Hex); err == nil {
		if d := wireDiff(pc.Encs[i], got); d != "" {
			ctx.Report(fmt.Sprintf("%s|re-encoding the decoded value does not reproduce the bytes: %s|%s", l, d, optsFor(pc.Prog, d)),
				fmt.Sprintf("program %s message %s\nbytes     %s\nre-encode %s\n%s", pc.Prog.Name, m.ID, core.Trunc(hexOf(ref), 300), core.Trunc(o.Hex, 300), core.Trunc(pc.Text, 600)), rep)
		}
	}
}

func suffixCount(i int) []int {
	s := []int{0, 1}
	if i < 3 {
		s = append(s, 2)
	}
	if i < 2 {
		s = append(s, 3)
	}
	return s
}

// C02: decoders invert encoders and consume exactly one message.
func C02(ctx *core.Ctx) int {
	progs := replayFilter(ctx, codecPrograms(ctx))
	cases := buildCases(ctx, progs, maxDevFor(ctx))
	langs := devLangs()
	langs = runCodec(ctx, cases, langs)
	st := newCodecStats()
	forEachObservable(cases, langs, st, func(pc *ProgCase, cc *CodecCell) {
		for i := range pc.Msgs {
			for _, si := range suffixCount(i) {
				decodeChecks(ctx, pc, cc, i, si, st, nil)
			}
		}
		offDecChecks(ctx, pc, cc, st)
		reuseChecks(ctx, pc, cc, st) // which packet a reused object holds afterwards is part of "the original field values"
	})
	cov := st.coverage("same cells and messages as C01; every emitted decoder is fed the *reference* encoding of every message, alone and followed by trailing bytes (ffffff, 00, a second copy of the message); "+
		"oracle: decoded members equal the message (fixed strings trimmed, length/checksum members = wire values), read position = message length, re-encoding reproduces the bytes. distinct_nontrivial = distinct decode observations", cases)
	ctx.Assumes = append(ctx.Assumes, "a null and an empty string/list are the same logical value (the wire cannot distinguish them)", "decoders are fed the reference bytes, so an encoder defect (C01) cannot hide or cause a C02 verdict")
	return ctx.Finish("exploration", cov)
}

// C03: all target languages agree on the wire.
func C03(ctx *core.Ctx) int {
	progs := replayFilter(ctx, codecPrograms(ctx))
	cases := buildCases(ctx, progs, maxDevFor(ctx))
	langs := devLangs()
	langs = runCodec(ctx, cases, langs)
	st := newCodecStats()
	pairsHeld := 0
	type cross struct {
		pc   *ProgCase
		from string
		i    int
		hex  string
	}
	var crosses []cross
	for _, pc := range cases {
		var obs []*CodecCell
		for _, l := range langs {
			cc := pc.Cells[l]
			st.cells++
			if cc != nil && cc.Observable() {
				obs = append(obs, cc)
				st.observable++
			} else {
				st.unobservable++
				if cc != nil {
					st.blockers[l+": "+cc.Blocker()]++
				}
			}
		}
		for i, m := range pc.Msgs {
			encs := map[string]string{}
			for _, cc := range obs {
				if o := cc.T.Out["ENC:"+m.ID]; o != nil && o.Kind == "ENC" {
					encs[cc.Lang] = o.Hex
					st.distinct[o.Hex] = true
				}
			}
			// an encoder that fails on a message the other targets encode has drifted from them as surely as one
			// that writes other bytes (added after seeded change C03-A6: a guard with a signed bound)
			if len(encs) > 0 {
				for _, cc := range obs {
					o := cc.T.Out["ENC:"+m.ID]
					if o == nil || o.Kind != "ERR" || o.ErrKind == "unsupported" || o.ErrKind == "inapplicable" || wallClockAnswer(o.ErrText) {
						continue
					}
					var other string
					for l := range encs {
						if other == "" || l < other {
							other = l
						}
					}
					st.evals++
					ctx.Report(fmt.Sprintf("encoders disagree|%s fails to encode a message that %s encodes|%s|%s", cc.Lang, other, errWord(o.ErrText), progClass(pc.Prog.Name)),
						fmt.Sprintf("program %s message %s\nvalue %s\n%-7s %s\n%-7s %s", pc.Prog.Name, m.ID, core.Trunc(pc.R.FormatValue(nil, pc.R.Root, m.Val), 300), cc.Lang, core.Trunc(o.ErrText, 300), other, core.Trunc(encs[other], 300)),
						map[string]any{"name": pc.Prog.Name, "message": m.ID, "text": pc.Text, "langs": []string{cc.Lang, other}})
				}
			}
			var ls []string
			for l := range encs {
				ls = append(ls, l)
			}
			sort.Strings(ls)
			for a := 0; a < len(ls); a++ {
				for b := a + 1; b < len(ls); b++ {
					st.evals++
					if encs[ls[a]] == encs[ls[b]] {
						pairsHeld++
						continue
					}
					ga, _ := hex.DecodeString(encs[ls[a]])
					gb, _ := hex.DecodeString(encs[ls[b]])
					// localise with the reference layout: which side deviates from it, and where
					da, db := wireDiff(pc.Encs[i], ga), wireDiff(pc.Encs[i], gb)
					where := da
					if where == "" {
						where = db
					}
					ctx.Report(fmt.Sprintf("encoders disagree|%s vs %s|%s|%s", ls[a], ls[b], where, optsFor(pc.Prog, where)),
						fmt.Sprintf("program %s message %s\nvalue %s\n%-7s %s\n%-7s %s\n%s", pc.Prog.Name, m.ID, core.Trunc(pc.R.FormatValue(nil, pc.R.Root, m.Val), 300), ls[a], core.Trunc(encs[ls[a]], 300), ls[b], core.Trunc(encs[ls[b]], 300), core.Trunc(pc.Text, 600)),
						map[string]any{"name": pc.Prog.Name, "message": m.ID, "text": pc.Text, "langs": []string{ls[a], ls[b]}})
				}
			}
			// decoders on the reference bytes agree with each other (relational: no reference value consulted)
			dumps := map[string]string{}
			trees := map[string]*wire.Tree{}
			for _, cc := range obs {
				if o := cc.T.Out[fmt.Sprintf("DEC:%s.s0", m.ID)]; o != nil {
					if o.Kind == "DEC" {
						dumps[cc.Lang] = canonTree(pc.R, o.Tree())
						trees[cc.Lang] = o.Tree()
					} else if o.ErrKind != "unsupported" {
						dumps[cc.Lang] = "ERR"
					}
				}
			}
			var dl []string
			for l := range dumps {
				dl = append(dl, l)
			}
			sort.Strings(dl)
			for a := 0; a < len(dl); a++ {
				for b := a + 1; b < len(dl); b++ {
					st.evals++
					if dumps[dl[a]] != dumps[dl[b]] {
						where := "one of them rejects the bytes"
						if trees[dl[a]] != nil && trees[dl[b]] != nil {
							where = treeDiffWhere(pc.R, pc.R.Root, trees[dl[a]], trees[dl[b]])
						}
						ctx.Report(fmt.Sprintf("decoders disagree on the same bytes|%s vs %s|%s|%s", dl[a], dl[b], where, optsFor(pc.Prog, where)),
							fmt.Sprintf("program %s message %s bytes %s\n%-7s %s\n%-7s %s", pc.Prog.Name, m.ID, core.Trunc(hexOf(pc.Encs[i].Bytes), 200), dl[a], core.Trunc(dumps[dl[a]], 400), dl[b], core.Trunc(dumps[dl[b]], 400)),
							map[string]any{"name": pc.Prog.Name, "message": m.ID, "text": pc.Text, "langs": []string{dl[a], dl[b]}})
					}
				}
			}
			// bytes of an encoder that deviates from the others go through every other decoder (phase 2, bounded)
			for l, h := range encs {
				if h != hexOf(pc.Encs[i].Bytes) && len(crosses) < 400 {
					crosses = append(crosses, cross{pc, l, i, h})
				}
			}
		}
	}
	// phase 2: cross decoding of deviating encodings
	crossRuns := 0
	if len(crosses) > 0 {
		env := targetEnv(ctx)
		byLang := map[string][]*targets.Cell{}
		type key struct {
			pc   *ProgCase
			lang string
		}
		cellOf := map[key]*targets.Cell{}
		for k, x := range crosses {
			for _, l := range langs {
				cc := x.pc.Cells[l]
				if l == x.from || cc == nil || !cc.Observable() || strings.Contains(l, "@") {
					continue
				}
				kk := key{x.pc, l}
				c2 := cellOf[kk]
				if c2 == nil {
					c2 = &targets.Cell{Name: cc.T.Name, Lang: l, Files: cc.T.Files, Meta: cc.T.Meta, R: cc.T.R}
					cellOf[kk] = c2
					byLang[l] = append(byLang[l], c2)
				}
				c2.Input = append(c2.Input, fmt.Sprintf("DEC x%d %s %s", k, x.pc.R.Root.Name, x.hex))
			}
		}
		for l, cells := range byLang {
			if t, ok := targets.All[l]; ok {
				t.RunCells(env, cells)
			}
		}
		for k, x := range crosses {
			res := map[string]string{}
			for _, l := range langs {
				c2 := cellOf[key{x.pc, l}]
				if c2 == nil || c2.Out == nil {
					continue
				}
				if o := c2.Out[fmt.Sprintf("DEC:x%d", k)]; o != nil {
					crossRuns++
					if o.Kind == "DEC" {
						res[l] = canonTree(x.pc.R, o.Tree())
					} else {
						res[l] = "ERR"
					}
				}
			}
			var rl []string
			for l := range res {
				rl = append(rl, l)
			}
			sort.Strings(rl)
			for a := 0; a < len(rl); a++ {
				for b := a + 1; b < len(rl); b++ {
					if res[rl[a]] != res[rl[b]] {
						ctx.Report(fmt.Sprintf("decoders disagree on the bytes of the %s encoder|%s vs %s|%s", x.from, rl[a], rl[b], progClass(x.pc.Prog.Name)),
							fmt.Sprintf("program %s message %s: bytes %s", x.pc.Prog.Name, x.pc.Msgs[x.i].ID, core.Trunc(x.hex, 300)),
							map[string]any{"name": x.pc.Prog.Name, "text": x.pc.Text})
					}
				}
			}
		}
	}
	cov := st.coverage("same cells and messages as C01; for every message all pairs of observable encoders are compared byte for byte, all pairs of decoders are compared on the same bytes (relational: the reference model is not consulted for the verdict, only to localise), "+
		"and the bytes of any encoder that deviates are fed to every other decoder (bounded to 400 deviating messages per run). distinct_nontrivial = distinct encodings observed", cases)
	cov["encoder_pairs_agreeing"] = pairsHeld
	cov["cross_decodes"] = crossRuns
	ctx.Assumes = append(ctx.Assumes, "a pair is held only if both sides were observable; a target whose cell does not build drops out of the pairs for that cell")
	return ctx.Finish("exploration", cov)
}

// canonTree renders a decoded tree in a language-neutral canonical form, directed by the packet's
// schema: integers as bit patterns of the declared width, empty/nil strings and lists alike, member
// names normalised and sorted. Members the schema does not know are kept (normalised) at the end.
func canonTree(r *wire.RProgram, t *wire.Tree) string {
	return canonObj(r, r.Root, t)
}

// treeDiffWhere names the kind of the first member on which two decoded trees differ.
func treeDiffWhere(r *wire.RProgram, pk *wire.RPacket, a, b *wire.Tree) string {
	if a == nil || b == nil || a.Kind != 'P' || b.Kind != 'P' || pk == nil {
		return "object"
	}
	ia, ib := map[string]*wire.Tree{}, map[string]*wire.Tree{}
	for i, n := range a.Names {
		ia[wire.Norm(n)] = a.Fields[i]
	}
	for i, n := range b.Names {
		ib[wire.Norm(n)] = b.Fields[i]
	}
	for _, f := range pk.Fields {
		fa, fb := ia[wire.Norm(f.Name)], ib[wire.Norm(f.Name)]
		if canonField(r, f, fa, false) == canonField(r, f, fb, false) {
			continue
		}
		k := f.Kind.String()
		if f.Repeat {
			k = "repeated " + k
		}
		if !f.Repeat && f.Kind == wire.KObj {
			return nestedWhere(treeDiffWhere(r, f.Packet, fa, fb))
		}
		if f.Kind == wire.KMatch && fa != nil && fb != nil && fa.Kind == 'P' && fb.Kind == 'P' && wire.Norm(fa.Packet) == wire.Norm(fb.Packet) {
			for _, p2 := range r.Order {
				if wire.Norm(p2.Name) == wire.Norm(fa.Packet) {
					return nestedWhere(treeDiffWhere(r, p2, fa, fb))
				}
			}
		}
		return k
	}
	return "object"
}

func nestedWhere(w string) string {
	if strings.HasSuffix(w, "(nested)") {
		return w
	}
	return w + " (nested)"
}

func canonObj(r *wire.RProgram, pk *wire.RPacket, t *wire.Tree) string {
	if t == nil || t.Kind == 'n' {
		return "nil"
	}
	if t.Kind != 'P' {
		return "?" + string(t.Kind)
	}
	idx := map[string]*wire.Tree{}
	for i, n := range t.Names {
		idx[wire.Norm(n)] = t.Fields[i]
	}
	var p []string
	if pk != nil {
		for _, f := range pk.Fields {
			p = append(p, wire.Norm(f.Name)+"="+canonField(r, f, idx[wire.Norm(f.Name)], false))
		}
	}
	name := wire.Norm(t.Packet)
	if pk != nil && pk.Inline && strings.HasSuffix(name, wire.Norm(pk.Name)) {
		name = wire.Norm(pk.Name)
	}
	return "P:" + name + "{" + strings.Join(p, " ") + "}"
}

func canonField(r *wire.RProgram, f *wire.RField, t *wire.Tree, elem bool) string {
	if f.Repeat && !elem {
		if t == nil || t.Kind != '[' || len(t.List) == 0 {
			return "[]"
		}
		var p []string
		for _, e := range t.List {
			p = append(p, canonField(r, f, e, true))
		}
		return "[" + strings.Join(p, " ") + "]"
	}
	switch f.Kind {
	case wire.KInt, wire.KLenOf, wire.KChecksum, wire.KChar:
		if t == nil {
			return "missing"
		}
		var b uint64
		switch t.Kind {
		case 'i':
			if strings.HasPrefix(t.Int, "-") {
				n, _ := strconv.ParseInt(t.Int, 10, 64)
				b = uint64(n)
			} else {
				b, _ = strconv.ParseUint(t.Int, 10, 64)
			}
		case 'c':
			b = t.Bits
		case 's':
			if len(t.Str) == 1 {
				b = uint64(t.Str[0])
			}
		default:
			return "?" + string(t.Kind)
		}
		w := uint(8 * dsl.Width(f.Type))
		if w < 64 {
			b &= (uint64(1) << w) - 1
		}
		return fmt.Sprintf("i:%x", b)
	case wire.KFloat:
		if t == nil || t.Kind != 'f' {
			return "missing"
		}
		if f := math.Float64frombits(t.Bits); f != f {
			return "f:nan"
		}
		return fmt.Sprintf("f:%x", t.Bits)
	case wire.KFixStr, wire.KDynStr:
		if t == nil || t.Kind != 's' {
			return "s:"
		}
		return "s:" + t.Str
	case wire.KObj:
		return canonObj(r, f.Packet, t)
	case wire.KMatch:
		if t == nil || t.Kind != 'P' {
			return "nil"
		}
		for _, pk := range r.Order {
			if wire.Norm(pk.Name) == wire.Norm(t.Packet) {
				return canonObj(r, pk, t)
			}
		}
		return "P:" + wire.Norm(t.Packet) + "{?}"
	}
	return "?"
}

// projection runs the shared pipeline on a program family and reports only what concerns one field kind.
func projection(ctx *core.Ctx, progs []*dsl.Program, kind wire.FKind, rule string) int {
	progs = replayFilter(ctx, progs)
	cases := buildCases(ctx, progs, maxDevFor(ctx))
	langs := devLangs()
	langs = runCodec(ctx, cases, langs)
	st := newCodecStats()
	only := func(k wire.FKind) bool { return k == kind }
	forEachObservable(cases, langs, st, func(pc *ProgCase, cc *CodecCell) {
		l := cc.Lang
		for i, m := range pc.Msgs {
			o := cc.T.Out["ENC:"+m.ID]
			if o == nil {
				continue
			}
			st.evals++
			rep := map[string]any{"name": pc.Prog.Name, "lang": l, "message": m.ID, "text": pc.Text, "value": pc.R.FormatValue(nil, pc.R.Root, m.Val), "reference": hexOf(pc.Encs[i].Bytes)}
			if o.Kind == "ENC" {
				st.distinct[o.Hex] = true
				got, _ := hex.DecodeString(o.Hex)
				if d := fieldDiff(pc.Encs[i], got, kind); d != "" {
					ctx.Report(fmt.Sprintf("%s|%s|%s", l, d, optsFor(pc.Prog, d)),
						fmt.Sprintf("program %s message %s\nvalue     %s\nreference %s\n%-9s %s\n%s", pc.Prog.Name, m.ID, core.Trunc(rep["value"].(string), 300), core.Trunc(hexOf(pc.Encs[i].Bytes), 300), l, core.Trunc(o.Hex, 300), core.Trunc(pc.Text, 600)), rep)
				}
			} else if wallClockAnswer(o.ErrText) {
				st.blockers[l+": per-command wall-clock limit of the driver (not a verdict)"]++
			} else if o.ErrKind != "unsupported" && kind == wire.KMatch {
				ctx.Report(fmt.Sprintf("%s|encoder fails on a message with a mapped key|%s|%s", l, errWord(o.ErrText), progClass(pc.Prog.Name)),
					fmt.Sprintf("program %s message %s: %s", pc.Prog.Name, m.ID, o.ErrText), rep)
			} else if o.ErrKind != "unsupported" {
				ctx.Report(fmt.Sprintf("%s|encoder fails on a message of a packet with a %s field|%s|%s", l, kind, errWord(o.ErrText), progClass(pc.Prog.Name)),
					fmt.Sprintf("program %s message %s: %s", pc.Prog.Name, m.ID, o.ErrText), rep)
			}
			for _, si := range suffixCount(i) {
				decodeChecks(ctx, pc, cc, i, si, st, only)
			}
		}
		if kind == wire.KChecksum {
			regChecks(ctx, pc, cc, st)
		}
		if kind == wire.KChecksum || kind == wire.KLenOf {
			offEncChecks(ctx, pc, cc, st, int(kind))
		}
		if kind == wire.KMatch {
			reuseChecks(ctx, pc, cc, st)
		}
	})
	if kind == wire.KMatch {
		unmappedChecks(ctx, cases, langs, st)
	}
	cov := st.coverage(rule, cases)
	if kind == wire.KMatch {
		cov["reused_object_evaluations"] = st.reuseEvals
		cov["reused_object_rule"] = "every ordered pair of messages carrying different alternatives (<= 12 per case) decoded one after the other into ONE object, and (message, unmapped key): the match member must hold the second key's packet / the decode must fail; Rust constructs a value per decode (nothing to reuse)"
	}
	if kind == wire.KChecksum {
		nseq := 0
		for _, pc := range cases {
			nseq += len(pc.RegSeqs)
		}
		var rs []string
		for k := range st.regStates {
			rs = append(rs, k)
		}
		sort.Strings(rs)
		cov["registry_sequences"] = map[string]any{"depth": regDepth(ctx), "processes_per_target": nseq, "encodes_checked": st.regEvals, "distinct_(removed,first_use)_states_observed": rs,
			"rule": "alphabet {UNREG n, REG n}; all operation sequences of the stated depth from a fresh process x first encode after 0..depth operations; one encode after every later operation; oracle = reference encoder with exactly the names removed at that moment"}
	}
	return ctx.Finish("exploration", cov)
}

// fieldDiff compares the bytes of every field of the given kind with the reference, provided the
// encodings are aligned up to that field (otherwise an earlier field is wrong: C01's subject).
func fieldDiff(enc *wire.Encoding, got []byte, kind wire.FKind) string {
	ref := enc.Bytes
	for _, sp := range enc.Layout {
		if sp.Kind != kind || (sp.What != "value" && sp.What != "object") {
			continue
		}
		if sp.Off > len(got) || sp.Off > len(ref) {
			return ""
		}
		for i := 0; i < sp.Off; i++ {
			if ref[i] != got[i] {
				// bytes before this field differ; if the only differing bytes are inside *another* field of the
				// same kind (e.g. the length field patched wrongly) that field is reported on its own turn
				return ""
			}
		}
		if kind == wire.KMatch {
			// the payload range must hold the supplied payload
			end := sp.Off + sp.Len
			if end > len(got) {
				return "match payload: encoding shorter than the supplied payload"
			}
			for i := sp.Off; i < end; i++ {
				if ref[i] != got[i] {
					return "match payload: bytes are not the supplied payload"
				}
			}
			continue
		}
		end := sp.Off + sp.Len
		if end > len(got) {
			return fmt.Sprintf("%s %s field: encoding ends inside the field", kind, sp.Type)
		}
		same := true
		for i := sp.Off; i < end; i++ {
			if ref[i] != got[i] {
				same = false
			}
		}
		if !same {
			class := "wrong value"
			rev := sp.Len > 1
			for x := 0; x < sp.Len; x++ {
				if got[sp.Off+x] != ref[end-1-x] {
					rev = false
				}
			}
			allZero := true
			for x := sp.Off; x < end; x++ {
				if got[x] != 0 {
					allZero = false
				}
			}
			switch {
			case rev:
				class = "byte order reversed"
			case allZero:
				class = "left zero (not filled in)"
			}
			return fmt.Sprintf("%s %s field: %s", kind, sp.Type, class)
		}
		// neighbours must be untouched by back-patching: bytes right after the field
		if kind == wire.KLenOf {
			for i := end; i < len(ref) && i < len(got) && i < end+8; i++ {
				if ref[i] != got[i] {
					return fmt.Sprintf("lenof %s field: bytes after the length field differ (patch window overruns?)", sp.Type)
				}
			}
		}
	}
	return ""
}

func unmappedChecks(ctx *core.Ctx, cases []*ProgCase, langs []string, st *codecStats) {
	for _, pc := range cases {
		for _, l := range langs {
			cc := pc.Cells[l]
			if cc == nil || !cc.Observable() {
				continue
			}
			for k := range pc.UnmappedHex {
				o := cc.T.Out[fmt.Sprintf("DEC:u%d", k)]
				if o == nil {
					continue
				}
				st.evals++
				rep := map[string]any{"name": pc.Prog.Name, "lang": l, "text": pc.Text, "bytes": pc.UnmappedHex[k]}
				if o.Kind == "DEC" {
					what := "the payload is skipped"
					if o.Tree() != nil {
						for i, n := range o.Tree().Names {
							_ = n
							if f := o.Tree().Fields[i]; f != nil && f.Kind == 'P' {
								what = "another packet is selected"
							}
						}
					}
					ctx.Report(fmt.Sprintf("%s|a key absent from the match table does not make decoding fail: %s|%s", l, what, progClass(pc.Prog.Name)),
						fmt.Sprintf("program %s bytes %s\ndecoded %s\n%s", pc.Prog.Name, pc.UnmappedHex[k], core.Trunc(o.Raw, 400), core.Trunc(pc.Text, 600)), rep)
				} else if o.ErrKind != "error" && o.ErrKind != "unsupported" {
					ctx.Report(fmt.Sprintf("%s|a key absent from the match table crashes the decoder (%s)|%s", l, o.ErrKind, progClass(pc.Prog.Name)),
						fmt.Sprintf("program %s bytes %s: %s", pc.Prog.Name, pc.UnmappedHex[k], o.ErrText), rep)
				}
			}
		}
	}
}

func withPoints(progs []*dsl.Program, pts [][]dsl.OptDeviation) []*dsl.Program {
	var out []*dsl.Program
	for _, p := range progs {
		for _, d := range pts {
			out = append(out, dsl.WithOptions(p, d))
		}
	}
	return out
}

func filterProgs(progs []*dsl.Program, pred func(p *dsl.Program) bool) []*dsl.Program {
	var out []*dsl.Program
	for _, p := range progs {
		if pred(p) {
			out = append(out, p)
		}
	}
	return out
}

func hasKind(p *dsl.Program, k dsl.Kind) bool {
	found := false
	var walk func(fs []*dsl.Field)
	walk = func(fs []*dsl.Field) {
		for _, f := range fs {
			if f.Kind == k {
				found = true
			}
			walk(f.Sub)
		}
	}
	for _, pk := range p.Packets {
		walk(pk.Fields)
	}
	return found
}

var lePoint = [][]dsl.OptDeviation{nil, {{Name: "LittleEndian", Value: "true"}}}

// C04: length-of fields are computed from the bytes actually written.
func C04(ctx *core.Ctx) int {
	var base []*dsl.Program
	all := append(append(append(dsl.P1(), dsl.P4()...), dsl.P5()...), dsl.P6()...)
	base = filterProgs(all, func(p *dsl.Program) bool { return hasKind(p, dsl.LenOf) })
	base = append(base, lengthPrograms()...)
	pts := lePoint
	if ctx.Thorough() {
		pts = append(pts, []dsl.OptDeviation{{Name: "LittleEndian", Value: "true"}, {Name: "StringPrefixLenType", Value: "u32"}}, []dsl.OptDeviation{{Name: "ArrayPrefixLenType", Value: "u8"}})
	}
	return projection(ctx, withPoints(base, pts), wire.KLenOf,
		"root packets with a length-of field: each unsigned width x inline/prefixed spelling x match or object target x position (adjacent, separated, first) x byte orders; messages: every payload alternative (incl. the empty packet), payload sizes across the 255/256 boundary where the width allows, caller-supplied values {1, 0, max}; "+
			"oracle: the length field's bytes = size of the target's reference encoding in the declared width and order, bytes after it untouched, decoders return the wire value. distinct_nontrivial = distinct encodings")
}

// lengthPrograms adds position variants of the length field.
func lengthPrograms() []*dsl.Program {
	var out []*dsl.Program
	pay := func() []*dsl.Packet {
		return []*dsl.Packet{dsl.Pk("Alpha", dsl.Sc("u32", "A1"), dsl.Ds("A2")), dsl.Pk("Beta", dsl.Sc("u8", "B1")), dsl.Pk("Empty")}
	}
	for _, t := range dsl.UintTypes {
		// length field first, target last, other fields between
		p := &dsl.Program{Name: "L/first-" + t, Packets: append([]*dsl.Packet{dsl.Root("Msg", dsl.Lo(t, "Len", "Body"), dsl.Sc("u16", "Kind"), dsl.Ds("Note"), dsl.Mt("Kind", "Body", dsl.K("Alpha", "1"), dsl.K("Beta", "2"), dsl.K("Empty", "3")))}, pay()...)}
		p.Opts = dsl.TargetOpts("glfirst" + t)
		out = append(out, p)
		// length field directly before the target, fields after the target
		q := &dsl.Program{Name: "L/adjacent-trailer-" + t, Packets: append([]*dsl.Packet{dsl.Root("Msg", dsl.Sc("u16", "Kind"), dsl.Lo(t, "Len", "Body"), dsl.Mt("Kind", "Body", dsl.K("Alpha", "1"), dsl.K("Beta", "2"), dsl.K("Empty", "3")), dsl.Sc("u32", "Trailer"), dsl.Ds("Tail"))}, pay()...)}
		q.Opts = dsl.TargetOpts("gladj" + t)
		out = append(out, q)
		// narrow neighbour right after a narrow length field (a wide patch window would overrun it)
		r := &dsl.Program{Name: "L/narrow-neighbour-" + t, Packets: append([]*dsl.Packet{dsl.Root("Msg", dsl.Sc("u8", "Kind"), dsl.Lo(t, "Len", "Body"), dsl.Sc("u8", "Guard"), dsl.Mt("Kind", "Body", dsl.K("Beta", "1"), dsl.K("Empty", "2")))}, pay()...)}
		r.Opts = dsl.TargetOpts("glnarrow" + t)
		out = append(out, r)
		// the target is an inline object
		{
			lf := dsl.Lo(t, "Len", "Hdr")
			a := &dsl.Program{Name: "L/inline-target-" + t, Packets: []*dsl.Packet{dsl.Root("Msg", dsl.Sc("u8", "Kind"), lf, dsl.In("Hdr", dsl.Sc("u16", "Code"), dsl.Ds("Text"), dsl.Rep(dsl.Sc("u8", "Flags"))), dsl.Sc("u8", "After"))}}
			a.Opts = dsl.TargetOpts("glinline" + t)
			out = append(out, a)
		}
		// the target is an object whose members all have a fixed size - a size a generator could compute instead of
		// measure - of every fixed-size kind, nested; once without and once with one-byte `char` members
		if t == "u8" || t == "u32" {
			for _, withChar := range []bool{false, true} {
				members := func(pfx string) []*dsl.Field {
					fs := []*dsl.Field{dsl.Sc("u8", pfx+"A"), dsl.Sc("i16", pfx+"B"), dsl.Sc("f32", pfx+"C"), dsl.Sc("i64", pfx+"D"), dsl.Sc("f64", pfx+"E"), dsl.Fx(3, pfx+"F", nil), dsl.Zc(5, pfx+"G")}
					if withChar {
						fs = append([]*dsl.Field{dsl.Sc("char", pfx+"H")}, append(fs, dsl.Sc("char", pfx+"I"))...)
					}
					return fs
				}
				n := "nochar"
				if withChar {
					n = "char"
				}
				inner := dsl.Pk("Inner", members("N")...)
				hdr := dsl.Pk("Hdr", append(members("M"), dsl.Ob("Inner", "Nest"))...)
				a := &dsl.Program{Name: "L/fixed-size-object-target-" + n + "-" + t, Packets: []*dsl.Packet{dsl.Root("Msg", dsl.Sc("u8", "Kind"), dsl.Lo(t, "Len", "Head"), dsl.Ob("Hdr", "Head"), dsl.Sc("u8", "After")), hdr, inner}}
				a.Opts = dsl.TargetOpts("glfixobj" + n + t)
				out = append(out, a)
				b := &dsl.Program{Name: "L/fixed-size-inline-target-" + n + "-" + t, Packets: []*dsl.Packet{dsl.Root("Msg", dsl.Sc("u8", "Kind"), dsl.Lo(t, "Len", "Hdr"), dsl.In("Hdr", append(members("M"), dsl.In("Nest", members("N")...))...), dsl.Sc("u8", "After"))}}
				b.Opts = dsl.TargetOpts("glfixinl" + n + t)
				out = append(out, b)
			}
		}
		if t == "u16" {
			for _, late := range []bool{false, true} {
				lf := dsl.Lo(t, "Len", "Body")
				lf.Prefixed, lf.Tag, lf.TagLast = true, 7, late
				n := "L/tag-before-lengthof"
				if late {
					n = "L/tag-after-lengthof"
				}
				a := &dsl.Program{Name: n, Packets: append([]*dsl.Packet{dsl.Root("Msg", dsl.Sc("u16", "Kind"), lf, dsl.Mt("Kind", "Body", dsl.K("Alpha", "1"), dsl.K("Empty", "3")))}, pay()...)}
				a.Opts = dsl.TargetOpts("gltag" + fmt.Sprint(late))
				out = append(out, a)
			}
		}
		// the long type spelling on the length field, in both attribute placements
		for _, pre := range []bool{false, true} {
			lf := dsl.Lo(t, "Len", "Body")
			lf.Alias, lf.Prefixed = true, pre
			sp := "inline"
			if pre {
				sp = "prefixed"
			}
			a := &dsl.Program{Name: "L/alias-" + t + "-" + sp, Packets: append([]*dsl.Packet{dsl.Root("Msg", dsl.Sc("u16", "Kind"), lf, dsl.Mt("Kind", "Body", dsl.K("Alpha", "1"), dsl.K("Empty", "3")), dsl.Sc("u8", "After"))}, pay()...)}
			a.Opts = dsl.TargetOpts("glalias" + t + sp)
			out = append(out, a)
		}
	}
	// the same shapes written on ONE source line (a generator that decides anything from line numbers - which
	// field comes first, which alternatives belong together - gets ties)
	for _, p := range append([]*dsl.Program(nil), out...) {
		if strings.Contains(p.Name, "first-u16") || strings.Contains(p.Name, "adjacent-trailer-u16") || strings.Contains(p.Name, "inline-target-u16") || strings.Contains(p.Name, "alias-u32-prefixed") {
			q := p.Clone()
			q.OneLine = true
			q.Name = p.Name + " (one line)"
			q.Opts = dsl.TargetOpts("gl1" + strings.NewReplacer("L/", "", "-", "").Replace(p.Name))
			out = append(out, q)
		}
	}
	return out
}

// C05: match fields dispatch exactly as the table says.
func C05(ctx *core.Ctx) int {
	all := append(append(append(dsl.P1(), dsl.P3()...), dsl.P5()...), dsl.P6()...)
	base := filterProgs(all, func(p *dsl.Program) bool { return hasKind(p, dsl.Match) })
	base = append(base, matchPrograms()...)
	pts := [][]dsl.OptDeviation{nil}
	if ctx.Thorough() {
		pts = lePoint
	}
	return projection(ctx, withPoints(base, pts), wire.KMatch,
		"programs with match fields: 1..3 alternatives, integer keys of every width, string and char[n] keys, key lists (2 and 6 keys), several keys mapping to one packet, two match fields per packet / on one key, nested match; messages carry every key of every table; "+
			"plus, for the root's first match field, keys outside the table (0, max, neighbours of each table key, unmapped strings); oracle: payload bytes are the supplied payload, the decoded payload has the packet type the table maps the key to, an unmapped key fails with a reported error (not another packet, not a skipped payload, not a crash)")
}

func matchPrograms() []*dsl.Program {
	var out []*dsl.Program
	pay := func() []*dsl.Packet {
		return []*dsl.Packet{dsl.Pk("Alpha", dsl.Sc("u32", "A1"), dsl.Ds("A2")), dsl.Pk("Beta", dsl.Sc("u8", "B1")), dsl.Pk("Gamma", dsl.Rep(dsl.Sc("u16", "G1"))), dsl.Pk("Empty")}
	}
	mk := func(name string, root *dsl.Packet) {
		p := &dsl.Program{Name: "M/" + name, Packets: append([]*dsl.Packet{root}, pay()...)}
		p.Opts = dsl.TargetOpts("gm" + strings.ReplaceAll(name, "-", ""))
		out = append(out, p)
	}
	for _, t := range dsl.IntTypes {
		mk("list-and-singles-"+t, dsl.Root("Msg", dsl.Sc(t, "Kind"), dsl.Mt("Kind", "Body", dsl.K("Alpha", "1", "5", "9"), dsl.K("Beta", "2"), dsl.K("Gamma", "7"), dsl.K("Beta", "8"))))
	}
	mk("big-keys-u16", dsl.Root("Msg", dsl.Sc("u16", "Kind"), dsl.Mt("Kind", "Body", dsl.K("Alpha", "255"), dsl.K("Beta", "256"), dsl.K("Gamma", "65535"))))
	mk("big-keys-u8", dsl.Root("Msg", dsl.Sc("u8", "Kind"), dsl.Mt("Kind", "Body", dsl.K("Alpha", "127"), dsl.K("Beta", "128"), dsl.K("Gamma", "255"))))
	mk("big-keys-u32", dsl.Root("Msg", dsl.Sc("u32", "Kind"), dsl.Mt("Kind", "Body", dsl.K("Alpha", "2147483647"), dsl.K("Beta", "2147483648"), dsl.K("Gamma", "4294967295"))))
	mk("big-keys-u64", dsl.Root("Msg", dsl.Sc("u64", "Kind"), dsl.Mt("Kind", "Body", dsl.K("Alpha", "9223372036854775807"), dsl.K("Beta", "9223372036854775808"), dsl.K("Gamma", "18446744073709551615"))))
	mk("big-keys-i64", dsl.Root("Msg", dsl.Sc("i64", "Kind"), dsl.Mt("Kind", "Body", dsl.K("Alpha", "9223372036854775807"), dsl.K("Beta", "4294967296"), dsl.K("Gamma", "1"))))
	// one extreme key per table (several extreme keys in one table are covered above)
	mk("one-max-key-u64", dsl.Root("Msg", dsl.Sc("u64", "Kind"), dsl.Mt("Kind", "Body", dsl.K("Alpha", "1"), dsl.K("Beta", "2", "9223372036854775806"), dsl.K("Gamma", "18446744073709551615"))))
	mk("one-2p63-key-u64", dsl.Root("Msg", dsl.Sc("u64", "Kind"), dsl.Mt("Kind", "Body", dsl.K("Alpha", "1"), dsl.K("Beta", "9223372036854775808"), dsl.K("Gamma", "3"))))
	mk("one-max-key-i64", dsl.Root("Msg", dsl.Sc("i64", "Kind"), dsl.Mt("Kind", "Body", dsl.K("Alpha", "1"), dsl.K("Beta", "9223372036854775807"), dsl.K("Gamma", "3"))))
	mk("one-max-key-u32", dsl.Root("Msg", dsl.Sc("u32", "Kind"), dsl.Mt("Kind", "Body", dsl.K("Alpha", "1"), dsl.K("Beta", "4294967295"), dsl.K("Gamma", "3"))))
	mk("case-keys", dsl.Root("Msg", dsl.Ds("Kind"), dsl.Mt("Kind", "Body", dsl.K("Alpha", `"ab"`), dsl.K("Beta", `"AB"`), dsl.K("Gamma", `"Ab"`))))
	mk("decimal-keys-7-10-100", dsl.Root("Msg", dsl.Sc("u16", "Kind"), dsl.Mt("Kind", "Body", dsl.K("Alpha", "7"), dsl.K("Beta", "10"), dsl.K("Gamma", "100"))))
	// the FIRST alternative carries the extreme key (whatever takes "the first alternative" as its sample meets it)
	mk("extreme-first-key-u32", dsl.Root("Msg", dsl.Sc("u32", "Kind"), dsl.Mt("Kind", "Body", dsl.K("Alpha", "4294967295"), dsl.K("Beta", "2147483648"), dsl.K("Gamma", "1"))))
	mk("extreme-first-key-u64", dsl.Root("Msg", dsl.Sc("u64", "Kind"), dsl.Mt("Kind", "Body", dsl.K("Alpha", "18446744073709551615"), dsl.K("Beta", "1"))))
	mk("extreme-first-key-u16", dsl.Root("Msg", dsl.Sc("u16", "Kind"), dsl.Mt("Kind", "Body", dsl.K("Alpha", "65535"), dsl.K("Beta", "32768"), dsl.K("Gamma", "1"))))
	mk("extreme-first-key-u8", dsl.Root("Msg", dsl.Sc("u8", "Kind"), dsl.Mt("Kind", "Body", dsl.K("Alpha", "255"), dsl.K("Beta", "128"), dsl.K("Gamma", "1"))))
	// keys written with leading zeros are decimal numbers like any other (DIGITS)
	mk("leading-zero-keys", dsl.Root("Msg", dsl.Sc("u16", "Kind"), dsl.Mt("Kind", "Body", dsl.K("Alpha", "001"), dsl.K("Beta", "010"), dsl.K("Gamma", "8", "0100"))))
	// the first alternative is the empty packet (whatever picks "the first alternative" as its sample meets it)
	mk("empty-first", dsl.Root("Msg", dsl.Sc("u8", "Kind"), dsl.Mt("Kind", "Body", dsl.K("Empty", "0"), dsl.K("Alpha", "1"), dsl.K("Beta", "2"))))
	mk("empty-first-list", dsl.Root("Msg", dsl.Sc("u16", "Kind"), dsl.Mt("Kind", "Body", dsl.K("Empty", "3", "4"), dsl.K("Gamma", "5")), dsl.Sc("u8", "After")))
	mk("string-list-6", dsl.Root("Msg", dsl.Ds("Kind"), dsl.Mt("Kind", "Body", dsl.K("Alpha", `"A"`, `"B"`, `"C"`, `"D"`, `"E"`, `"F"`), dsl.K("Beta", `"G"`), dsl.K("Empty", `"H"`))))
	mk("zchar-key", dsl.Root("Msg", dsl.Zc(4, "Kind"), dsl.Mt("Kind", "Body", dsl.K("Alpha", `"AB"`), dsl.K("Beta", `"CDEF"`))))
	mk("payload-then-fields", dsl.Root("Msg", dsl.Sc("u8", "Kind"), dsl.Mt("Kind", "Body", dsl.K("Alpha", "1"), dsl.K("Empty", "2"), dsl.K("Gamma", "3")), dsl.Sc("u32", "After"), dsl.Rep(dsl.Ds("Notes"))))
	return out
}

// C06: checksum fields cover exactly the preceding bytes.
func C06(ctx *core.Ctx) int {
	regSequencesOn = true
	all := append(append(append(dsl.P1(), dsl.P4()...), dsl.P5()...), dsl.P6()...)
	base := filterProgs(all, func(p *dsl.Program) bool { return hasKind(p, dsl.Checksum) })
	base = append(base, checksumPrograms()...)
	return projection(ctx, withPoints(base, lePoint), wire.KChecksum,
		"packets with a calculated-from field: every integer width x inline/prefixed spelling x position (last, followed by fields, inside a nested packet that is not first in the buffer, after a back-patched length) x byte orders x algorithm registered / not registered x messages incl. caller values {1, 0, max}; "+
			"oracle: registered -> the field's bytes = the harness algorithm over exactly the bytes before the field in the output buffer, in declared width and configured order; unregistered -> the caller's value; decoders return the wire value")
}

func checksumPrograms() []*dsl.Program {
	var out []*dsl.Program
	mk := func(name string, pk ...*dsl.Packet) {
		p := &dsl.Program{Name: "K/" + name, Packets: pk}
		p.Opts = dsl.TargetOpts("gk" + strings.ReplaceAll(name, "-", ""))
		out = append(out, p)
	}
	for _, t := range dsl.IntTypes {
		up := strings.ToUpper(t)
		mk("unregistered-"+t, dsl.Root("Msg", dsl.Sc("u32", "Seq"), dsl.Ck(t, "Sum", "NOSUCH"+up)))
		mk("followed-"+t, dsl.Root("Msg", dsl.Ds("Text"), dsl.Ck(t, "Sum", "SUM"+up), dsl.Sc("u16", "After"), dsl.Ds("More")))
		mk("nested-"+t, dsl.Root("Msg", dsl.Sc("u32", "Seq"), dsl.Ds("Text"), dsl.Ob("Inner", "")), dsl.Pk("Inner", dsl.Sc("u8", "X"), dsl.Ck(t, "Sum", "SUM"+up), dsl.Sc("u8", "Y")))
	}
	mk("after-length", dsl.Root("Msg", dsl.Sc("u16", "Kind"), dsl.Lo("u16", "Len", "Body"), dsl.Mt("Kind", "Body", dsl.K("Alpha", "1"), dsl.K("Empty", "2")), dsl.Ck("u32", "Sum", "SUMU32")),
		dsl.Pk("Alpha", dsl.Sc("u32", "A1"), dsl.Ds("A2")), dsl.Pk("Empty"))
	mk("two-checksums", dsl.Root("Msg", dsl.Sc("u8", "A"), dsl.Ck("u16", "SumA", "SUMU16"), dsl.Sc("u8", "B"), dsl.Ck("u32", "SumB", "SUMU32")))
	mk("first-field", dsl.Root("Msg", dsl.Ck("u16", "Sum", "SUMU16"), dsl.Sc("u8", "B")))
	// the only calculated fields of the file sit inside inline objects (whatever a generator decides per file
	// by scanning the top-level packets does not see them)
	for _, t := range []string{"u8", "u16", "u32", "i64"} {
		mk("inline-only-"+t, dsl.Root("Msg", dsl.Sc("u32", "Seq"), dsl.Ds("Text"), dsl.In("Inner", dsl.Sc("u8", "X"), dsl.Ck(t, "Sum", "SUM"+strings.ToUpper(t)), dsl.Sc("u8", "Y"))))
	}
	mk("inline-in-inline-only", dsl.Root("Msg", dsl.Sc("u16", "Seq"), dsl.In("Outer", dsl.Ds("Text"), dsl.In("Inner", dsl.Sc("u8", "X"), dsl.Ck("u32", "Sum", "SUMU32")))))
	// the long type spellings on calculated fields, in both attribute placements
	for _, t := range []string{"u8", "u16", "u64", "i32"} {
		for _, pre := range []bool{false, true} {
			ck := dsl.Ck(t, "Sum", "SUM"+strings.ToUpper(t))
			ck.Alias, ck.Prefixed = true, pre
			sp := "inline"
			if pre {
				sp = "prefixed"
			}
			mk("alias-"+t+"-"+sp, dsl.Root("Msg", dsl.Sc("u32", "Seq"), dsl.Ds("Text"), ck, dsl.Sc("u8", "After")))
		}
	}
	// a second prefix attribute (@tag) before and after the calculated-from attribute
	for _, late := range []bool{false, true} {
		ck := dsl.Ck("u16", "Sum", "SUMU16")
		ck.Prefixed, ck.Tag, ck.TagLast = true, 10, late
		pd := dsl.Fx(4, "Sym", &dsl.Pad{Left: true, Char: "'0'"})
		pd.Tag, pd.TagLast = 11, late
		n := "tag-before-attribute"
		if late {
			n = "tag-after-attribute"
		}
		mk(n, dsl.Root("Msg", dsl.Sc("u32", "Seq"), pd, ck, dsl.Sc("u8", "After")))
	}
	// one algorithm name on fields of different widths (an attribute shared per name would give them one width)
	mk("shared-name-unregistered", dsl.Root("Msg", dsl.Ck("u32", "SumA", "NOSUCHX"), dsl.Sc("u8", "A"), dsl.Ck("u8", "SumB", "NOSUCHX"), dsl.Ck("u16", "SumC", "NOSUCHX"), dsl.Sc("u8", "B"), dsl.Ob("Other", "")),
		dsl.Pk("Other", dsl.Ck("u64", "SumD", "NOSUCHX")))
	mk("shared-name-two-packets", dsl.Root("Msg", dsl.Sc("u8", "A"), dsl.Ck("u32", "Sum", "CRC32"), dsl.Ob("Other", "")), dsl.Pk("Other", dsl.Sc("u16", "B"), dsl.Ck("u32", "Sum", "CRC32")))
	// algorithm names are data, matched as written: registered names in mixed and lower case, and names that
	// only become a registered name when their case is changed - in both attribute placements
	for _, c := range []struct{ n, t, alg string }{{"mixed-case-registered", "u32", "SumU32Mx"}, {"lower-case-registered", "u16", "sumu16lc"},
		{"lower-case-of-a-registered-name", "u32", "sumu32"}, {"mixed-case-of-a-registered-name", "u32", "Crc32"}, {"upper-case-of-a-registered-name", "u32", "SUMU32MX"}} {
		for _, pre := range []bool{false, true} {
			ck := dsl.Ck(c.t, "Sum", c.alg)
			ck.Prefixed = pre
			sp := "inline"
			if pre {
				sp = "prefixed"
			}
			mk(c.n+"-"+sp, dsl.Root("Msg", dsl.Sc("u32", "Seq"), dsl.Ds("Text"), ck, dsl.Sc("u8", "After"), dsl.In("Inner", dsl.Sc("u8", "X"), dsl.Ck(c.t, "Sum2", c.alg))))
		}
	}
	// a field with an explicit type whose NAME is also the name of a MetaData entry of another type (the entry is
	// what an untyped field of that name would take its type from): the declared type wins, in both placements -
	// for a calculated field, a length field and a plain scalar alike
	for _, pre := range []bool{false, true} {
		sp := "inline"
		if pre {
			sp = "prefixed"
		}
		ck := dsl.Ck("u32", "Sum", "SUMU32")
		ck.Prefixed = pre
		lf := dsl.Lo("u32", "Len", "Body")
		lf.Prefixed = pre
		p := &dsl.Program{Name: "K/fields-named-like-metadata-entries-" + sp,
			Meta: []*dsl.MetaBlock{{Name: "Dict", Entries: []*dsl.MetaEntry{{Name: "Sum", Kind: dsl.Scalar, Type: "u16", Doc: "a 16-bit sum used elsewhere"}, {Name: "Len", Kind: dsl.Scalar, Type: "u8", Doc: "a short length"}, {Name: "Px", Kind: dsl.Scalar, Type: "u64", Doc: "price"}}}},
			Packets: []*dsl.Packet{dsl.Root("Msg", dsl.Sc("u16", "Kind"), lf, dsl.Mt("Kind", "Body", dsl.K("Alpha", "1"), dsl.K("Other", "2")), dsl.Sc("u32", "Px"), ck, dsl.Sc("u8", "After")),
				dsl.Pk("Alpha", dsl.Sc("u32", "A1"), dsl.Ds("A2")), dsl.Pk("Other", dsl.Mr("Sum", ""), dsl.Mr("Len", ""), dsl.Mr("Px", ""))}}
		p.Opts = dsl.TargetOpts("gkmetanames" + sp)
		out = append(out, p)
	}
	mk("inline-only-unregistered", dsl.Root("Msg", dsl.Sc("u32", "Seq"), dsl.In("Inner", dsl.Sc("u8", "X"), dsl.Ck("u16", "Sum", "NOSUCHU16"))))
	return out
}
