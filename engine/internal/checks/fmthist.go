package checks

import (
	"bufio"
	"fmt"
	"os"
	"os/exec"
	"path/filepath"
	"regexp"
	"sort"
	"strings"
	"sync/atomic"
	"time"
	"unicode"

	api "github.com/xinchentechnote/fin-protoc/verifapi"
	"verif/engine/internal/core"
)

// Format histories (C09, C10; added after seeded change C10-A6: a memo of the last result keyed by a lossy
// normalisation of the input).  The formatter is also a library function called many times by one long-lived
// host (the C export, an editor plug-in).  Its answer for a text must not depend on the calls made before.
// The in-process corpus runs of C09 / C10 do make hundreds of thousands of calls in one process, but texts that
// are *almost* the same - the only ones a lossy cache key, a "changed since last time?" shortcut or a reused
// buffer confuses - are never adjacent there.  Here they are: for every base text, variants that differ from it
// in exactly one free-text region (a comment, a doc string, a string literal) or one literal, by the edits a
// lossy key typically ignores (lengths of blank runs, blanks vs tabs, letter case, same-length other content,
// a trailing blank), and every ordered pair (a, b) of {base} x variants and of variants of one region is
// formatted as the sequence a, b in a fresh process of its own.  Oracle: the answer for b equals the answer of
// a fresh process that formats b alone.

// FmtWorker is the subprocess entry point: --fmt-worker <file>... ; one line per file: "OK <hash>" | "ERR".
func FmtWorker(args []string) {
	out := bufio.NewWriter(core.Out)
	defer out.Flush()
	for _, f := range args {
		b, err := os.ReadFile(f)
		if err != nil {
			fmt.Fprintln(out, "ERR read")
			continue
		}
		r, err := api.Format(string(b))
		if err != nil {
			fmt.Fprintln(out, "ERR")
			continue
		}
		fmt.Fprintln(out, "OK "+core.Hash(r))
	}
}

func fmtRun(self string, files ...string) []string {
	cmd := exec.Command(self, append([]string{"--fmt-worker"}, files...)...)
	done := make(chan struct{})
	var b []byte
	var err error
	go func() { b, err = cmd.Output(); close(done) }()
	select {
	case <-done:
	case <-time.After(5 * time.Minute):
		cmd.Process.Kill()
		<-done
		return nil
	}
	if err != nil {
		return nil
	}
	return strings.Split(strings.TrimSpace(string(b)), "\n")
}

type fmtVariant struct {
	kind   string // which edit
	region string // which region ("" = the base itself)
	text   string
}

var (
	reComment = regexp.MustCompile(`//[^\n]*`)
	reDoc     = regexp.MustCompile("`[^`]*`")
	reString  = regexp.MustCompile(`"(?:\\.|[^"\\\n])*"`)
	reBlanks  = regexp.MustCompile(`[ \t]+`)
	reNumber  = regexp.MustCompile(`\b[0-9]+\b`)
)

// freeTextRegions returns [start,end) of up to two comments, two doc strings and two string literals (first and
// last of each), found on the text with the other kinds masked so that a `//` inside a doc string is no comment.
func freeTextRegions(raw string) map[string][2]int {
	out := map[string][2]int{}
	mask := []byte(raw)
	blank := func(loc []int) {
		for i := loc[0]; i < loc[1]; i++ {
			if mask[i] != '\n' {
				mask[i] = 'x'
			}
		}
	}
	docs := reDoc.FindAllStringIndex(string(mask), -1)
	for _, d := range docs {
		blank(d)
	}
	strs := reString.FindAllStringIndex(string(mask), -1)
	for _, s := range strs {
		blank(s)
	}
	coms := reComment.FindAllStringIndex(string(mask), -1)
	pick := func(name string, all [][]int, trim int) {
		if len(all) == 0 {
			return
		}
		for k, idx := range []int{0, len(all) - 1} {
			if k == 1 && len(all) == 1 {
				break
			}
			a, b := all[idx][0]+trim, all[idx][1]
			if name != "comment" {
				b--
			}
			if b > a {
				out[fmt.Sprintf("%s %d", name, k)] = [2]int{a, b}
			}
		}
	}
	pick("comment", coms, 2)
	pick("doc string", docs, 1)
	pick("string literal", strs, 1)
	return out
}

func fmtVariantsOf(raw string) []fmtVariant {
	vs := []fmtVariant{{"base", "", raw}}
	regs := freeTextRegions(raw)
	var names []string
	for n := range regs {
		names = append(names, n)
	}
	sort.Strings(names)
	for _, n := range names {
		r := regs[n]
		in := raw[r[0]:r[1]]
		put := func(kind, repl string) {
			if repl != in {
				vs = append(vs, fmtVariant{kind, n, raw[:r[0]] + repl + raw[r[1]:]})
			}
		}
		put("blank runs doubled", reBlanks.ReplaceAllStringFunc(in, func(s string) string { return s + s }))
		put("blanks become tabs", strings.ReplaceAll(in, " ", "\t"))
		put("letter case swapped", strings.Map(func(c rune) rune {
			if unicode.IsUpper(c) {
				return unicode.ToLower(c)
			}
			return unicode.ToUpper(c)
		}, in))
		put("same length, other letters", strings.Map(func(c rune) rune {
			if c >= 'a' && c < 'z' || c >= 'A' && c < 'Z' {
				return c + 1
			}
			return c
		}, in))
		put("a blank appended", in+" ")
	}
	if loc := reNumber.FindStringIndex(maskFree(raw)); loc != nil {
		vs = append(vs, fmtVariant{"a number changed", "number", raw[:loc[0]] + "7" + raw[loc[0]:loc[1]] + raw[loc[1]:]})
	}
	return vs
}

func maskFree(raw string) string {
	m := []byte(raw)
	for _, re := range []*regexp.Regexp{reDoc, reString, reComment} {
		for _, loc := range re.FindAllStringIndex(string(m), -1) {
			for i := loc[0]; i < loc[1]; i++ {
				if m[i] != '\n' {
					m[i] = 'x'
				}
			}
		}
	}
	return string(m)
}

// formatHistories explores the sequences; returns (sequences run, distinct answers seen).
func formatHistories(ctx *core.Ctx) (int64, int) {
	var bases []Text
	for _, t := range specialTexts() {
		if strings.Contains(t.Name, "long-line") {
			continue
		}
		if !ctx.Thorough() && strings.Contains(t.Name, "free-text/") && !strings.Contains(t.Name, "/blanks/") && !strings.Contains(t.Name, "/everywhere") {
			continue
		}
		bases = append(bases, t)
	}
	self, _ := os.Executable()
	var seqs int64
	answers := map[string]bool{}
	var amu = make(chan struct{}, 1)
	core.Parallel(len(bases), func(bi int) {
		b := bases[bi]
		vs := fmtVariantsOf(b.Raw)
		dir := ctx.TempPath(".fmth")
		os.MkdirAll(dir, 0o755)
		defer os.RemoveAll(dir)
		files := make([]string, len(vs))
		alone := make([]string, len(vs))
		for i, v := range vs {
			files[i] = filepath.Join(dir, fmt.Sprintf("v%d.dsl", i))
			os.WriteFile(files[i], []byte(v.text), 0o644)
			r := fmtRun(self, files[i])
			atomic.AddInt64(&seqs, 1)
			if len(r) == 1 {
				alone[i] = r[0]
				amu <- struct{}{}
				answers[r[0]] = true
				<-amu
			}
		}
		for i := range vs {
			for j := range vs {
				if i == j || !strings.HasPrefix(alone[i], "OK") || !strings.HasPrefix(alone[j], "OK") {
					continue
				}
				// base <-> variant, and variants of the same region with one another
				if i != 0 && j != 0 && vs[i].region != vs[j].region {
					continue
				}
				r := fmtRun(self, files[i], files[j])
				atomic.AddInt64(&seqs, 1)
				if len(r) != 2 {
					continue // a dead or hung process is C11's subject
				}
				if r[1] != alone[j] {
					edit := vs[j].kind + " in a " + strings.TrimRight(vs[j].region, " 01")
					if j == 0 {
						edit = "undoing: " + vs[i].kind + " in a " + strings.TrimRight(vs[i].region, " 01")
					}
					ctx.Report("history|the formatter's answer for a text depends on the text formatted before it in the same process|"+edit,
						fmt.Sprintf("base text %s\nfirst call:  variant %d (%s, %s)\nsecond call: variant %d (%s, %s)\nthe second call's answer differs from the answer of a process that makes only that call",
							b.Name, i, vs[i].kind, vs[i].region, j, vs[j].kind, vs[j].region),
						map[string]any{"name": b.Name, "first": vs[i].text, "second": vs[j].text})
				}
			}
		}
	})
	return seqs, len(answers)
}
