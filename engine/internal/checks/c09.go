package checks

import (
	"fmt"
	"os"
	"os/exec"
	"sort"
	"strings"
	"sync"
	"sync/atomic"
	"time"

	api "github.com/xinchentechnote/fin-protoc/verifapi"
	"verif/engine/internal/core"
	"verif/engine/internal/dsl"
)

func init() { Registry["C09"] = C09 }

// normTokens returns the default-channel tokens of a text minus the separators the formatter is
// free to add or drop (',' after a match pair, ';' after an option), and the comment texts.
func normTokens(text string) (toks []api.Token, comments []string, err error) {
	all, err := api.Lex(text)
	if err != nil {
		return nil, nil, err
	}
	var def []api.Token
	for _, t := range all {
		if t.Channel == 0 {
			def = append(def, t)
		} else if t.Name == "LINE_COMMENT" {
			comments = append(comments, strings.TrimRight(t.Text, " \t\r"))
		}
	}
	for i, t := range def {
		if t.Name == "SEMICOLON" {
			continue
		}
		if t.Name == "COMMA" && i >= 2 && def[i-1].Name == "IDENTIFIER" && def[i-2].Name == "COLON" {
			continue
		}
		toks = append(toks, t)
	}
	return toks, comments, nil
}

// commentPositions classifies every comment position of a token sequence by the structural
// situation it is in, so that a signature names a situation and not an input:
//
//	own[i]   (0..n): an own-line comment before token i
//	trail[i] (0..n-1): a trailing comment after token i on its line
//
// Situations: "<block>|decl-start", "<block>|between tokens of a declaration", "<block>|before closing brace",
// "<block>|after declaration", "<block>|after opening brace", "file start", "file end".
func commentPositions(toks []string) (own, trail []string) {
	n := len(toks)
	block := make([]string, n+1) // innermost block containing the gap before token i
	end := make([]bool, n)       // token i is the last token of a declaration
	var stack []string
	cur := func() string {
		if len(stack) == 0 {
			return "top"
		}
		return stack[len(stack)-1]
	}
	inList := 0
	for i, t := range toks {
		block[i] = cur()
		switch t {
		case "[":
			inList++
		case "]":
			if inList > 0 {
				inList--
			}
		case "{":
			k := "inline"
			switch {
			case i >= 1 && toks[i-1] == "options":
				k = "options"
			case i >= 2 && toks[i-2] == "MetaData":
				k = "metadata"
			case i >= 2 && toks[i-2] == "packet":
				k = "packet"
			case i >= 4 && toks[i-4] == "match":
				k = "match"
			}
			stack = append(stack, k)
		case "}":
			if len(stack) > 0 {
				stack = stack[:len(stack)-1]
			}
			block[i] = cur() + ">" // closing brace belongs to the block it closes; marked specially below
			if len(stack) == 0 {
				end[i] = true
			}
		case ",":
			if inList == 0 {
				end[i] = true
			}
		case ";":
			end[i] = true
		default:
			c := cur()
			if c == "options" && i+1 < n && i >= 1 && toks[i-1] != "{" && toks[i-1] != ";" {
				// last token of an option value without ';'
				if toks[i+1] == "}" || (i+2 < n && toks[i+2] == "=") {
					if i >= 2 && (toks[i-1] == "=" || toks[i] == "]") {
						end[i] = true
					}
				}
			}
			if c == "match" && i >= 1 && toks[i-1] == ":" && i+1 < n && toks[i+1] != "," {
				end[i] = true
			}
		}
	}
	block[n] = cur()
	// recompute containing block for positions: gap before token i is inside block[i] unless token i is '}' (then inside the closed block)
	stack = stack[:0]
	in := make([]string, n+1)
	for i, t := range toks {
		in[i] = cur()
		if t == "{" {
			k := "inline"
			switch {
			case i >= 1 && toks[i-1] == "options":
				k = "options"
			case i >= 2 && toks[i-2] == "MetaData":
				k = "metadata"
			case i >= 2 && toks[i-2] == "packet":
				k = "packet"
			case i >= 4 && toks[i-4] == "match":
				k = "match"
			}
			stack = append(stack, k)
		}
		if t == "}" && len(stack) > 0 {
			stack = stack[:len(stack)-1]
		}
	}
	in[n] = cur()
	own = make([]string, n+1)
	trail = make([]string, n)
	for i := 0; i <= n; i++ {
		switch {
		case n == 0:
			own[i] = "empty file"
		case i == 0:
			own[i] = "file start"
		case i == n:
			own[i] = "file end"
		case toks[i] == "}":
			own[i] = in[i] + "|before closing brace"
		case toks[i-1] == "{":
			own[i] = in[i] + "|before first declaration of block, which begins with " + headClass(toks[i])
		case end[i-1]:
			own[i] = in[i] + "|between declarations, the next begins with " + headClass(toks[i])
		default:
			own[i] = in[i] + "|between tokens of a declaration"
		}
	}
	for i := 0; i < n; i++ {
		switch {
		case toks[i] == "{":
			trail[i] = in[i+1] + "|after opening brace"
		case end[i] && i == n-1:
			trail[i] = "after last token of file"
		case end[i]:
			trail[i] = in[i+1] + "|after declaration"
		case toks[i] == "}":
			trail[i] = in[i+1] + "|after closing brace of nested block"
		default:
			trail[i] = in[i+1] + "|between tokens of a declaration"
		}
	}
	return own, trail
}

func headClass(t string) string {
	switch {
	case strings.HasPrefix(t, "@"):
		return "an attribute"
	case t == "MetaData" || t == "options" || t == "packet" || t == "root" || t == "match" || t == "repeat":
		return "'" + t + "'"
	}
	k := tokKindOf(t)
	if k == "TYPE" || k == "fixed[" || k == "dyn" {
		return "a type"
	}
	return k
}

func tokKindOf(t string) string {
	switch t {
	case "{", "}", "(", ")", "[", "]", ",", ";", ":", "=", "options", "MetaData", "packet", "root", "repeat", "match", "as",
		"@lengthOf(", "@calculatedFrom(", "@tag(", "@leftPad", "@rightPad", "char[", "zchar[", "string", "char[]", "true", "false":
		if t == "@leftPad" || t == "@rightPad" {
			return "@pad"
		}
		if t == "char[" || t == "zchar[" {
			return "fixed["
		}
		if t == "string" || t == "char[]" {
			return "dyn"
		}
		if t == "true" || t == "false" {
			return "bool"
		}
		return t
	}
	if strings.HasPrefix(t, "`") {
		return "DOC"
	}
	if strings.HasPrefix(t, `"`) {
		return "STRING"
	}
	if strings.HasPrefix(t, "'") {
		return "PADCHAR"
	}
	if t[0] >= '0' && t[0] <= '9' {
		return "DIGITS"
	}
	for _, s := range dsl.Scalars {
		if t == s {
			return "TYPE"
		}
	}
	switch t {
	case "uint8", "uint16", "uint32", "uint64", "int8", "int16", "int32", "int64", "float32", "float64":
		return "TYPE"
	}
	return "IDENT"
}

type c09Stats struct {
	evals, unobs, compiled, diagd int64
	distinct                      sync.Map
}

// C09: formatting changes layout only.
func C09(ctx *core.Ctx) int {
	budget := 2
	if ctx.Thorough() {
		budget = 3
	}
	texts := grammarTexts(budget, dsl.NamesUnique)
	texts = append(texts, repoSamples(ctx)...)
	texts = append(texts, programTexts(corpusPrograms(ctx))...)
	texts = append(texts, specialTexts()...)
	if ctx.Replay != "" {
		return replayText(ctx, func(c *core.Ctx, t Text) { c09Valid(c, t, &c09Stats{}, true) })
	}
	st := &c09Stats{}
	samples := &core.Sample{N: 6}
	core.Parallel(len(texts), func(i int) {
		full := ctx.Thorough() || !(strings.HasPrefix(texts[i].Name, "E1/P2") || strings.HasPrefix(texts[i].Name, "E1/P4"))
		c09Valid(ctx, texts[i], st, full)
		if i%1201 == 0 {
			samples.Add(map[string]any{"name": texts[i].Name, "text": core.Trunc(dsl.Render(texts[i].Toks, dsl.Pretty), 400)})
		}
	})
	// invalid texts
	inv := invalidTexts(texts, ctx.Thorough())
	var invEvals int64
	core.Parallel(len(inv), func(i int) {
		c09Invalid(ctx, inv[i])
		atomic.AddInt64(&invEvals, 1)
	})
	fileMode := c09FileMode(ctx, texts, inv)
	histSeqs, histAnswers := formatHistories(ctx)
	nd := 0
	st.distinct.Range(func(k, v any) bool { nd++; return true })
	cov := core.Coverage{
		"evaluations":         st.evals + invEvals,
		"distinct_nontrivial": nd,
		"rule": fmt.Sprintf("valid texts = grammar derivations within %d non-default choices per rule + E1 programs + repository samples; each under 2 layouts, with a trailing comment after every token, an own-line comment before every token, comments at start/end of file with and without final newline, and multi-line doc strings; "+
			"oracle: format succeeds, result re-parses, token sequence equal modulo optional separators, comment sequence equal, same compiled outputs (or same diagnostics). invalid texts = every token-granular truncation, deletion, duplication of the base texts + byte strings; oracle: error + input returned unchanged. distinct_nontrivial = distinct formatted outputs", budget),
		"samples":                         samples.List,
		"valid_texts":                     len(texts),
		"invalid_texts":                   len(inv),
		"unobservable_format_panicked":    st.unobs,
		"texts_that_compile":              st.compiled,
		"texts_with_diagnostics":          st.diagd,
		"file_mode_runs_with_real_binary": fileMode,
		"format_histories":                map[string]any{"sequences": histSeqs, "distinct_answers": histAnswers, "rule": "see C10: ordered pairs of near-identical texts formatted in one fresh process; the second answer = that of a process formatting it alone"},
		"exhaustive":                      true,
	}
	ctx.Assumes = append(ctx.Assumes,
		"a formatter panic is C11's subject; such texts are counted as unobservable here",
		"output trees are compared with the map-order/clock seam pinned (C13 owns that nondeterminism)",
		"'same relative order' is checked on the default-channel token sequence and on the comment sequence separately")
	return ctx.Finish("exploration", cov)
}

func compileAll(ctx *core.Ctx, text string) (trees map[string]string, diags []string, err error) {
	m, d, err := parseText(ctx, text)
	if err != nil {
		return nil, nil, err
	}
	if len(d) > 0 {
		for _, x := range d {
			diags = append(diags, x.Msg)
		}
		return nil, diags, nil
	}
	if api.Cyclic(m) {
		return nil, nil, fmt.Errorf("cyclic packet graph: generators are only run in C11's worker subprocesses")
	}
	trees = map[string]string{}
	for _, lang := range api.Langs {
		// fresh parse per target: generator interference is C14's subject
		mm, _, err := parseText(ctx, text)
		if err != nil {
			return nil, nil, err
		}
		files, err := api.Generate(mm, lang)
		if err != nil {
			trees[lang] = "ERROR: " + errClass(err)
			continue
		}
		trees[lang] = treeString(files)
	}
	return trees, nil, nil
}

func errClass(err error) string {
	if p, ok := err.(*api.Panic); ok {
		return "panic at " + p.TopFrame()
	}
	s := err.Error()
	if len(s) > 80 {
		s = s[:80]
	}
	return s
}

func treeString(files map[string][]byte) string {
	names := make([]string, 0, len(files))
	for n := range files {
		names = append(names, n)
	}
	sort.Strings(names)
	var b strings.Builder
	for _, n := range names {
		fmt.Fprintf(&b, "=== %s\n%s\n", n, files[n])
	}
	return b.String()
}

func c09Valid(ctx *core.Ctx, t Text, st *c09Stats, full bool) {
	toks := t.Toks
	ownPos, trailPos := commentPositions(toks)
	one := func(what string, x string, commentSig string, compile bool) {
		atomic.AddInt64(&st.evals, 1)
		y, err := api.Format(x)
		if err != nil {
			if _, isPanic := err.(*api.Panic); isPanic {
				atomic.AddInt64(&st.unobs, 1)
				return
			}
			ctx.Report("format-error on valid text|"+normErr(err.Error()), fmt.Sprintf("text %s (%s): %v\n%s", t.Name, what, err, core.Trunc(x, 500)),
				map[string]any{"name": t.Name, "what": what, "text": x, "toks": toks})
			return
		}
		st.distinct.Store(core.Hash(y), true)
		ok, err := api.SyntaxOK(y)
		if err != nil || !ok {
			ctx.Report("result does not re-parse|"+what0(what), fmt.Sprintf("text %s (%s)\n--- input\n%s\n--- formatted\n%s", t.Name, what, core.Trunc(x, 500), core.Trunc(y, 500)),
				map[string]any{"name": t.Name, "what": what, "text": x, "toks": toks})
			return
		}
		tx, cx, _ := normTokens(x)
		ty, cy, _ := normTokens(y)
		if d := tokenSeqDiff(tx, ty); d != "" {
			ctx.Report("tokens|"+d, fmt.Sprintf("text %s (%s)\n--- input\n%s\n--- formatted\n%s", t.Name, what, core.Trunc(x, 500), core.Trunc(y, 500)),
				map[string]any{"name": t.Name, "what": what, "text": x, "toks": toks})
		}
		if strings.Join(cx, "\n") != strings.Join(cy, "\n") {
			sig := commentSig
			if sig == "" {
				sig = "comments of a repository/E1 text"
			}
			ctx.Report("comment lost or changed|"+sig, fmt.Sprintf("text %s (%s)\ncomments in: %q\ncomments out: %q\n--- input\n%s\n--- formatted\n%s", t.Name, what, cx, cy, core.Trunc(x, 500), core.Trunc(y, 500)),
				map[string]any{"name": t.Name, "what": what, "text": x, "toks": toks})
		}
		if compile {
			trx, dx, ex := compileAll(ctx, x)
			try, dy, ey := compileAll(ctx, y)
			switch {
			case ex != nil || ey != nil:
				// parse failure / panic of the compiler on x: C11's subject; but y must behave like x
				if (ex == nil) != (ey == nil) {
					ctx.Report("compile outcome differs|error only on one side", fmt.Sprintf("text %s: x err=%v, format(x) err=%v", t.Name, ex, ey),
						map[string]any{"name": t.Name, "what": what, "text": x, "toks": toks})
				}
			case dx != nil || dy != nil:
				atomic.AddInt64(&st.diagd, 1)
				if strings.Join(dx, "\n") != strings.Join(dy, "\n") {
					ctx.Report("compile outcome differs|diagnostics", fmt.Sprintf("text %s (%s)\ndiagnostics of x: %q\ndiagnostics of format(x): %q\n--- x\n%s\n--- format(x)\n%s", t.Name, what, dx, dy, core.Trunc(x, 500), core.Trunc(y, 500)),
						map[string]any{"name": t.Name, "what": what, "text": x, "toks": toks})
				}
			default:
				atomic.AddInt64(&st.compiled, 1)
				for _, lang := range api.Langs {
					if trx[lang] != try[lang] {
						ctx.Report("compile outcome differs|output of "+lang, fmt.Sprintf("text %s (%s): %s output differs between x and format(x)\n--- x\n%s\n--- format(x)\n%s", t.Name, what, lang, core.Trunc(x, 500), core.Trunc(y, 500)),
							map[string]any{"name": t.Name, "what": what, "text": x, "toks": toks})
					}
				}
			}
		}
	}
	if t.Raw != "" {
		one("as written", t.Raw, "comments of a hand-written text with special characters / repeated comments", true)
	}
	one("pretty", dsl.Render(toks, dsl.Pretty), "", true)
	one("one-line", dsl.Render(toks, dsl.OneLine), "", false)
	n := len(toks)
	if !full {
		return
	}
	// multi-line doc strings
	hasDoc := false
	ml := make([]string, n)
	for i, tk := range toks {
		ml[i] = tk
		if strings.HasPrefix(tk, "`") {
			hasDoc = true
			ml[i] = "`first line\n  second line\n" + tk[1:]
		}
	}
	if hasDoc {
		one("multi-line doc strings", dsl.Render(ml, dsl.Pretty), "", true)
	}
	for i := 0; i < n; i++ {
		g := dsl.Gaps(toks, dsl.Pretty)
		g[i+1] = " // c" + fmt.Sprint(i) + "\n" + trimLeadingNewlines(g[i+1])
		one(fmt.Sprintf("trailing comment after token %d", i), dsl.Join(toks, g),
			"trailing|"+trailPos[i], false)
	}
	for i := 0; i <= n; i++ {
		g := dsl.Gaps(toks, dsl.Pretty)
		g[i] = g[i] + "\n// own " + fmt.Sprint(i) + "\n"
		one(fmt.Sprintf("own-line comment before token %d", i), dsl.Join(toks, g),
			"own-line|"+ownPos[i], false)
	}
	// the same comment text at two positions (a formatter that tracks comments by their text loses one)
	for _, pr := range [][2]int{{0, n - 1}, {1, n / 2}, {n / 3, 2 * n / 3}} {
		i, j := pr[0], pr[1]
		if i < 0 || j >= n || i >= j {
			continue
		}
		g := dsl.Gaps(toks, dsl.Pretty)
		g[i+1] = " // same text\n" + trimLeadingNewlines(g[i+1])
		g[j+1] = " // same text\n" + trimLeadingNewlines(g[j+1])
		x := dsl.Join(toks, g)
		// only meaningful where each of the two comments alone survives
		a := dsl.Gaps(toks, dsl.Pretty)
		a[i+1] = " // same text\n" + trimLeadingNewlines(a[i+1])
		b := dsl.Gaps(toks, dsl.Pretty)
		b[j+1] = " // same text\n" + trimLeadingNewlines(b[j+1])
		if keepsComments(dsl.Join(toks, a)) && keepsComments(dsl.Join(toks, b)) {
			one(fmt.Sprintf("identical trailing comments after tokens %d and %d", i, j), x, "two comments with identical text, each of which survives alone", false)
		}
		g2 := dsl.Gaps(toks, dsl.Pretty)
		g2[i] = g2[i] + "\n// same text\n"
		g2[j] = g2[j] + "\n// same text\n"
		a2 := dsl.Gaps(toks, dsl.Pretty)
		a2[i] = a2[i] + "\n// same text\n"
		b2 := dsl.Gaps(toks, dsl.Pretty)
		b2[j] = b2[j] + "\n// same text\n"
		if keepsComments(dsl.Join(toks, a2)) && keepsComments(dsl.Join(toks, b2)) {
			one(fmt.Sprintf("identical own-line comments before tokens %d and %d", i, j), dsl.Join(toks, g2), "two comments with identical text, each of which survives alone", false)
		}
	}
	if n > 0 {
		base := dsl.Render(toks, dsl.Pretty)
		one("comment at end of file without newline", strings.TrimRight(base, "\n")+"\n// eof", "own-line|at end of file without final newline", false)
		one("trailing comment at end of file without newline", strings.TrimRight(base, "\n")+" // eof", "trailing|at end of file without final newline", false)
		one("two comments at start", "// one\n// two\n"+base, "own-line|two at start of file", false)
	}
}

// keepsComments reports whether formatting x keeps its comment sequence.
func keepsComments(x string) bool {
	y, err := api.Format(x)
	if err != nil {
		return false
	}
	_, cx, _ := normTokens(x)
	_, cy, _ := normTokens(y)
	return strings.Join(cx, "\n") == strings.Join(cy, "\n")
}

func what0(w string) string {
	// strip numbers so that the signature names the situation, not the position
	var b strings.Builder
	for _, c := range w {
		if c >= '0' && c <= '9' {
			continue
		}
		b.WriteRune(c)
	}
	return strings.TrimSpace(b.String())
}

func normErr(s string) string {
	if i := strings.Index(s, ":"); i > 0 {
		s = s[:i]
	}
	return s
}

func tokenSeqDiff(a, b []api.Token) string {
	n := len(a)
	if len(b) < n {
		n = len(b)
	}
	for i := 0; i < n; i++ {
		if a[i].Type != b[i].Type || a[i].Text != b[i].Text {
			if a[i].Type == b[i].Type {
				return fmt.Sprintf("text of %s changed (after %s)", tokClass(a[i]), prevName(a, i))
			}
			// lost, inserted or reordered?
			if i+1 < len(a) && a[i+1].Type == b[i].Type && a[i+1].Text == b[i].Text {
				return fmt.Sprintf("%s dropped (after %s, before %s)", tokClass(a[i]), prevName(a, i), nextName(a, i))
			}
			if i+1 < len(b) && b[i+1].Type == a[i].Type && b[i+1].Text == a[i].Text {
				return fmt.Sprintf("%s inserted (after %s, before %s)", tokClass(b[i]), prevName(a, i), tokClass(a[i]))
			}
			return fmt.Sprintf("%s (after %s) replaced by %s", tokClass(a[i]), prevName(a, i), tokClass(b[i]))
		}
	}
	if len(a) > n {
		return fmt.Sprintf("%s dropped at end (after %s)", tokClass(a[n]), prevName(a, n))
	}
	if len(b) > n {
		return fmt.Sprintf("%s added at end", tokClass(b[n]))
	}
	return ""
}

// InvalidText is a syntactically invalid input.
type InvalidText struct {
	Name string
	Text string
}

// invalidTexts derives invalid inputs from the valid corpus: truncations, single-token deletions and
// duplications at token granularity (kept only if the real parser rejects them), plus byte strings.
func invalidTexts(valid []Text, thorough bool) []InvalidText {
	var out []InvalidText
	seen := map[string]bool{}
	add := func(name, text string) {
		if seen[text] {
			return
		}
		seen[text] = true
		ok, err := api.SyntaxOK(text)
		if err != nil || ok {
			return
		}
		out = append(out, InvalidText{name, text})
	}
	step := 1
	for ti, t := range valid {
		if strings.HasPrefix(t.Name, "E1/P2") || strings.HasPrefix(t.Name, "E1/P4") {
			continue
		}
		if !thorough && strings.HasPrefix(t.Name, "E2/") && ti%3 != 0 {
			continue
		}
		n := len(t.Toks)
		if n > 60 && !thorough {
			step = 5
		} else {
			step = 1
		}
		for i := 0; i < n; i += step {
			add(fmt.Sprintf("%s/trunc%d", t.Name, i), dsl.Render(t.Toks[:i], dsl.Pretty))
			del := append(append([]string{}, t.Toks[:i]...), t.Toks[i+1:]...)
			add(fmt.Sprintf("%s/del%d", t.Name, i), dsl.Render(del, dsl.Pretty))
			dup := append(append(append([]string{}, t.Toks[:i+1]...), t.Toks[i]), t.Toks[i+1:]...)
			add(fmt.Sprintf("%s/dup%d", t.Name, i), dsl.Render(dup, dsl.Pretty))
		}
	}
	base := "packet P {\n    u16 a,\n}\n"
	for b := 0; b < 256; b++ {
		add(fmt.Sprintf("byte%d", b), string([]byte{byte(b)}))
		add(fmt.Sprintf("byte%d-inserted", b), base[:10]+string([]byte{byte(b)})+base[10:])
	}
	add("unterminated-string", "packet P { match k as m { \"abc : Q } , }")
	add("unterminated-doc", "packet P { u16 a `doc , }")
	add("only-comment-then-garbage", "// c\n}")
	return out
}

func c09Invalid(ctx *core.Ctx, it InvalidText) {
	y, err := api.Format(it.Text)
	if err == nil {
		kind := "the parser reports an error"
		if _, pe, _ := api.SyntaxErrors(it.Text); pe == 0 {
			kind = "only the lexer reports an error (a character no token matches is silently dropped)"
		}
		ctx.Report("invalid text accepted by format|"+kind, fmt.Sprintf("text %s is rejected by the parser but Format returned no error\n%s", it.Name, core.Trunc(it.Text, 400)),
			map[string]any{"name": it.Name, "text": it.Text})
		return
	}
	if _, isPanic := err.(*api.Panic); isPanic {
		return // C11
	}
	if y != it.Text {
		ctx.Report("error path does not return the input unchanged", fmt.Sprintf("text %s: error %v but returned text differs from the input\n--- in\n%q\n--- out\n%q", it.Name, err, core.Trunc(it.Text, 300), core.Trunc(y, 300)),
			map[string]any{"name": it.Name, "text": it.Text})
	}
}

// c09FileMode runs the real binary `format -f` on files: valid ones must end up holding exactly
// Format(x); invalid ones must be untouched (bytes and mtime) with a non-zero exit status.
func c09FileMode(ctx *core.Ctx, valid []Text, inv []InvalidText) int {
	bin := ctx.BuildRepoBinary("pinned")
	runs := 0
	type job struct {
		name, text string
		valid      bool
	}
	var jobs []job
	for i, t := range valid {
		if strings.HasPrefix(t.Name, "special/") && t.Raw != "" {
			// the special texts as written (long lines, unusual characters): what reads the file must cope with them
			jobs = append(jobs, job{t.Name, t.Raw, true})
			continue
		}
		if i%97 == 0 || strings.HasPrefix(t.Name, "repo/") {
			jobs = append(jobs, job{t.Name, dsl.Render(t.Toks, dsl.Pretty), true})
			// a layout that is longer than its formatted text (the rewritten file shrinks)
			jobs = append(jobs, job{t.Name + " (ragged layout)", dsl.Render(t.Toks, dsl.Ragged), true})
		}
	}
	for i, t := range inv {
		if i%211 == 0 || !strings.Contains(t.Name, "/") {
			if strings.ContainsRune(t.Text, 0) {
				continue
			}
			jobs = append(jobs, job{t.Name, t.Text, false})
		}
	}
	var mu sync.Mutex
	core.Parallel(len(jobs), func(i int) {
		j := jobs[i]
		path := ctx.TempPath(".dsl")
		os.WriteFile(path, []byte(j.text), 0o644)
		old := time.Now().Add(-48 * time.Hour).Truncate(time.Second)
		os.Chtimes(path, old, old)
		cmd := exec.Command(bin, "format", "-f", path)
		out, err := cmd.CombinedOutput()
		mu.Lock()
		runs++
		mu.Unlock()
		exit := 0
		if err != nil {
			exit = 1
			if ee, ok := err.(*exec.ExitError); ok {
				exit = ee.ExitCode()
			}
		}
		after, _ := os.ReadFile(path)
		fi, _ := os.Stat(path)
		want, ferr := api.Format(j.text)
		if _, isPanic := ferr.(*api.Panic); isPanic {
			os.Remove(path)
			return
		}
		if j.valid && ferr == nil {
			if exit != 0 {
				ctx.Report("file mode|non-zero exit on valid file", fmt.Sprintf("%s: exit %d\n%s", j.name, exit, core.Trunc(string(out), 300)), map[string]any{"name": j.name, "text": j.text})
			} else if string(after) != want {
				ctx.Report("file mode|file content differs from the library result", fmt.Sprintf("%s\n--- file\n%s\n--- library\n%s", j.name, core.Trunc(string(after), 400), core.Trunc(want, 400)), map[string]any{"name": j.name, "text": j.text})
			}
		}
		if !j.valid {
			if exit == 0 {
				ctx.Report("file mode|exit status 0 on a syntax error", fmt.Sprintf("%s\n%s", j.name, core.Trunc(j.text, 300)), map[string]any{"name": j.name, "text": j.text})
			}
			if string(after) != j.text {
				ctx.Report("file mode|file modified on a syntax error", fmt.Sprintf("%s\n--- before\n%q\n--- after\n%q", j.name, core.Trunc(j.text, 300), core.Trunc(string(after), 300)), map[string]any{"name": j.name, "text": j.text})
			} else if fi != nil && !fi.ModTime().Equal(old) {
				ctx.Report("file mode|file rewritten (mtime changed) on a syntax error", j.name, map[string]any{"name": j.name, "text": j.text})
			}
		}
		os.Remove(path)
	})
	return runs
}
