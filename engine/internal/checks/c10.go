package checks

import (
	"fmt"
	"strings"
	"sync"
	"sync/atomic"

	api "github.com/xinchentechnote/fin-protoc/verifapi"
	"verif/engine/internal/core"
	"verif/engine/internal/dsl"
)

func init() { Registry["C10"] = C10 }

var altGaps = []string{" ", "\n", "\t", "\r\n", "  \n\n  "}

// commentVariants returns texts with one trailing comment after token i (i in [0,n)), under two
// layouts that keep the comment on that token's line, and own-line comment variants.
type layoutCase struct {
	what string
	text string
	// group: texts in the same group must format identically
	group string
}

// C10: format(format(x)) == format(x); format(relayout(x)) == format(x).
func C10(ctx *core.Ctx) int {
	budget := 2
	if ctx.Thorough() {
		budget = 3
	}
	texts := grammarTexts(budget, dsl.NamesUnique)
	texts = append(texts, repoSamples(ctx)...)
	texts = append(texts, programTexts(corpusPrograms(ctx))...)
	texts = append(texts, specialTexts()...)
	if ctx.Replay != "" {
		return replayText(ctx, func(c *core.Ctx, t Text) { c10One(c, t, nil, nil, nil) })
	}
	var evals, unobs, groups int64
	distinct := sync.Map{}
	samples := &core.Sample{N: 6}
	core.Parallel(len(texts), func(i int) {
		if !ctx.Thorough() && (strings.HasPrefix(texts[i].Name, "E1/P2") || strings.HasPrefix(texts[i].Name, "E1/P4")) {
			return // quick tier: pairs and identifier shapes add nothing to layout behaviour that singles do not have
		}
		c10One(ctx, texts[i], &evals, &unobs, &distinct)
		atomic.AddInt64(&groups, 1)
		if i%997 == 0 {
			samples.Add(map[string]any{"name": texts[i].Name, "text": core.Trunc(dsl.Render(texts[i].Toks, dsl.Pretty), 400)})
		}
	})
	nd := 0
	distinct.Range(func(k, v any) bool { nd++; return true })
	histSeqs, histAnswers := formatHistories(ctx)
	cov := core.Coverage{
		"format_histories": map[string]any{"sequences": histSeqs, "distinct_answers": histAnswers, "rule": "per base text with free text: variants differing in one comment / doc string / string literal / number by an edit a lossy key ignores (blank-run lengths, tabs, case, same-length content, trailing blank); every ordered pair (base, variant), (variant, base) and of two variants of one region formatted as a sequence in a fresh process; the second answer = the answer of a process formatting it alone"},
		"evaluations":         evals,
		"distinct_nontrivial": nd,
		"rule": fmt.Sprintf("texts = every derivation of each of the 18 grammar rules within %d non-default choices (in minimal context) + E1 programs + repository samples; "+
			"per text: 6 uniform layouts, every single-gap deviation from the canonical layout by each of %d gap strings, a trailing comment after every token under 2 layouts, an own-line comment before every token; "+
			"each formatted once and twice. distinct_nontrivial = number of distinct formatted outputs", budget, len(altGaps)),
		"samples":                    samples.List,
		"texts":                      len(texts),
		"unobservable_format_failed": unobs,
		"exhaustive":                 true,
		"grammar_budget":             budget,
		"formatter_calls":            evals,
		"layout_equivalence_classes": groups,
	}
	ctx.Assumes = append(ctx.Assumes,
		"texts on which Format returns an error or panics are not C10's subject (C09 / C11 report them); they are counted as unobservable",
		"identifier / literal spellings are fixed (unique names); layout behaviour is assumed not to depend on them beyond their length class")
	return ctx.Finish("exploration", cov)
}

func c10One(ctx *core.Ctx, t Text, evals, unobs *int64, distinct *sync.Map) {
	add := func(p *int64) {
		if p != nil {
			atomic.AddInt64(p, 1)
		}
	}
	toks := t.Toks
	base := dsl.Render(toks, dsl.Pretty)
	f0, err := api.Format(base)
	add(evals)
	if err != nil {
		add(unobs)
		return
	}
	if distinct != nil {
		distinct.Store(core.Hash(f0), true)
	}
	check := func(what, x string, mustEqual string) {
		fx, err := api.Format(x)
		add(evals)
		if err != nil {
			// the same tokens in another layout must still be accepted: report via relayout signature
			if mustEqual != "" {
				ctx.Report("relayout|format fails on a re-layout of an accepted text|"+what, fmt.Sprintf("text %s: %v", t.Name, err),
					map[string]any{"name": t.Name, "text": x})
			}
			return
		}
		if distinct != nil {
			distinct.Store(core.Hash(fx), true)
		}
		if mustEqual != "" && fx != mustEqual {
			ctx.Report("relayout|"+diffSig(mustEqual, fx), fmt.Sprintf("text %s (%s)\n--- format(canonical layout)\n%s\n--- format(re-layout)\n%s", t.Name, what, core.Trunc(mustEqual, 600), core.Trunc(fx, 600)),
				map[string]any{"name": t.Name, "what": what, "text": x, "canonical": base})
		}
		ffx, err := api.Format(fx)
		add(evals)
		if err != nil {
			ctx.Report("idempotence|format rejects its own output", fmt.Sprintf("text %s (%s): %v\n%s", t.Name, what, err, core.Trunc(fx, 600)),
				map[string]any{"name": t.Name, "what": what, "text": x})
			return
		}
		if ffx != fx {
			ctx.Report("idempotence|"+diffSig(fx, ffx), fmt.Sprintf("text %s (%s)\n--- format(x)\n%s\n--- format(format(x))\n%s", t.Name, what, core.Trunc(fx, 600), core.Trunc(ffx, 600)),
				map[string]any{"name": t.Name, "what": what, "text": x})
		}
	}
	check("canonical", base, f0)
	if t.Raw != "" {
		check("as written (special characters / repeated comments)", t.Raw, "")
	}
	for _, st := range []dsl.Style{dsl.OneLine, dsl.Newline, dsl.Tabs, dsl.CRLF, dsl.Ragged} {
		check(fmt.Sprintf("uniform layout %d", st), dsl.Render(toks, st), f0)
	}
	n := len(toks)
	if n == 0 {
		for _, x := range []string{"", " ", "\n", "\t\r\n"} {
			check("empty", x, f0)
		}
		return
	}
	gaps := dsl.Gaps(toks, dsl.Pretty)
	// every single-gap deviation
	for i := 0; i <= n; i++ {
		old := gaps[i]
		for _, ag := range altGaps {
			if ag == old {
				continue
			}
			gaps[i] = ag
			check(fmt.Sprintf("gap %d = %q", i, ag), dsl.Join(toks, gaps), f0)
		}
		gaps[i] = old
	}
	// a trailing comment after token i, under two layouts that keep it on that token's line
	for i := 0; i < n; i++ {
		var want string
		for li, st := range []dsl.Style{dsl.Pretty, dsl.Ragged} {
			g := dsl.Gaps(toks, st)
			g[i+1] = " // c" + fmt.Sprint(i) + "\n" + trimLeadingNewlines(g[i+1])
			x := dsl.Join(toks, g)
			if li == 0 {
				fx, err := api.Format(x)
				add(evals)
				if err != nil {
					break
				}
				want = fx
				check(fmt.Sprintf("trailing comment after token %d", i), x, "")
			} else {
				check(fmt.Sprintf("trailing comment after token %d, ragged layout", i), x, want)
			}
		}
	}
	// an own-line comment before token i (idempotence only)
	for i := 0; i <= n; i++ {
		g := dsl.Gaps(toks, dsl.Pretty)
		g[i] = g[i] + "\n// own " + fmt.Sprint(i) + "\n"
		check(fmt.Sprintf("own-line comment before token %d", i), dsl.Join(toks, g), "")
	}
}

func trimLeadingNewlines(s string) string {
	for len(s) > 0 && (s[0] == '\n' || s[0] == '\r') {
		s = s[1:]
	}
	return s
}
