package checks

import (
	"encoding/hex"
	"fmt"
	"strings"

	"verif/engine/internal/core"
	"verif/engine/internal/wire"
)

// Non-initial buffer states. A codec is rarely handed an empty buffer at position 0: messages are appended
// to a buffer that already holds a frame header or earlier messages, and decoded from the middle of a
// receive buffer. Emitted code that computes with absolute instead of relative positions (a back-patch
// offset, a length measured from the buffer start, a checksum window) is right at position 0 only.
//
//	PRE <hex>; ENC m    the encoder runs on an output buffer that already holds <hex>
//	SKIP n;  DEC ...    the decoder runs on an input buffer whose first n bytes have been read
//
// for every prefix in offPrefixes x the first offMsgs messages of every case. Oracle: the reference encoder
// on the same buffer (wire.EncodeAfter: the earlier bytes untouched, the message after them, a checksum over
// everything before its field); the decoder must return the same value as the reference and stop exactly
// len(prefix)+len(message) bytes into the buffer. A cell is judged on this axis only for messages it encodes /
// decodes correctly from the initial state, so a defect that does not depend on the position is not reported twice.

var offPrefixes = [][]byte{{0xa5}, {0x01, 0x02, 0x03, 0x04, 0x05, 0x06, 0x07}}

const offMsgs = 2

type offRun struct {
	id  string
	pre []byte
	i   int            // message index
	enc *wire.Encoding // reference: pre + message
}

func buildOffRuns(pc *ProgCase) {
	for k, pre := range offPrefixes {
		for i := 0; i < len(pc.Msgs) && i < offMsgs; i++ {
			pc.Off = append(pc.Off, offRun{id: fmt.Sprintf("o%d.%s", k, pc.Msgs[i].ID), pre: pre, i: i, enc: pc.R.EncodeAfter(pre, pc.Msgs[i])})
		}
	}
	// a stream of messages: the buffer already holds another message of the same program
	for i := 0; i < len(pc.Msgs) && i < offMsgs; i++ {
		pre := pc.Encs[(i+1)%len(pc.Msgs)].Bytes
		if len(pre) == 0 {
			continue
		}
		pc.Off = append(pc.Off, offRun{id: fmt.Sprintf("om.%s", pc.Msgs[i].ID), pre: pre, i: i, enc: pc.R.EncodeAfter(pre, pc.Msgs[i])})
	}
}

func offInput(pc *ProgCase) []string {
	var in []string
	for _, o := range pc.Off {
		in = append(in, fmt.Sprintf("PRE %s.p %s", o.id, hex.EncodeToString(o.pre)))
		in = append(in, fmt.Sprintf("ENC %s %s", o.id, pc.R.FormatValue(nil, pc.R.Root, pc.Msgs[o.i].Val)))
		in = append(in, fmt.Sprintf("SKIP %s.k %d", o.id, len(o.pre)))
		in = append(in, fmt.Sprintf("DEC %s %s %s", o.id, pc.R.Root.Name, hex.EncodeToString(o.pre)+hex.EncodeToString(pc.Encs[o.i].Bytes)))
	}
	// the same object encoded twice: the bytes are a function of the message, not of what an earlier encode left in the object
	for i := 0; i < len(pc.Msgs) && i < offMsgs; i++ {
		in = append(in, fmt.Sprintf("ENCX x.%s %s", pc.Msgs[i].ID, pc.R.FormatValue(nil, pc.R.Root, pc.Msgs[i].Val)))
	}
	return in
}

// twiceChecks: the second encoding of one object equals the first (C01).
func twiceChecks(ctx *core.Ctx, pc *ProgCase, cc *CodecCell, st *codecStats) {
	for i := 0; i < len(pc.Msgs) && i < offMsgs; i++ {
		if !plainEncOK(pc, cc, i) {
			continue
		}
		m := pc.Msgs[i]
		o := cc.T.Out["ENC:x."+m.ID]
		if o == nil || (o.Kind == "ERR" && (o.ErrKind == "unsupported" || wallClockAnswer(o.ErrText))) {
			if o != nil && strings.Contains(o.ErrText, "command") {
				st.offSkipped[cc.Lang]++
			}
			continue
		}
		st.offEvals++
		st.offByLang[baseLang(cc.Lang)]++
		rep := map[string]any{"name": pc.Prog.Name, "lang": cc.Lang, "message": m.ID, "text": pc.Text, "reference": hexOf(pc.Encs[i].Bytes)}
		if o.Kind == "ERR" {
			ctx.Report(fmt.Sprintf("%s|encoding the same object a second time fails|%s|%s", cc.Lang, errWord(o.ErrText), progClass(pc.Prog.Name)),
				fmt.Sprintf("program %s message %s: %s\n%s", pc.Prog.Name, m.ID, o.ErrText, core.Trunc(pc.Text, 600)), rep)
			continue
		}
		got, _ := hex.DecodeString(o.Hex)
		if d := wireDiff(pc.Encs[i], got); d != "" {
			rep["got"] = o.Hex
			ctx.Report(fmt.Sprintf("%s|the second encoding of the same object differs from the first: %s|%s", cc.Lang, d, optsFor(pc.Prog, d)),
				fmt.Sprintf("program %s message %s\nfirst  %s\nsecond %s\n%s", pc.Prog.Name, m.ID, core.Trunc(hexOf(pc.Encs[i].Bytes), 300), core.Trunc(o.Hex, 300), core.Trunc(pc.Text, 600)), rep)
		}
	}
}

// plainEncOK: the cell encodes message i exactly like the reference from the initial state.
func plainEncOK(pc *ProgCase, cc *CodecCell, i int) bool {
	o := cc.T.Out["ENC:"+pc.Msgs[i].ID]
	return o != nil && o.Kind == "ENC" && o.Hex == hex.EncodeToString(pc.Encs[i].Bytes)
}

// plainDecOK: the cell decodes the reference bytes of message i (alone) to the reference value and position.
func plainDecOK(pc *ProgCase, cc *CodecCell, i int) bool {
	o := cc.T.Out[fmt.Sprintf("DEC:%s.s0", pc.Msgs[i].ID)]
	if o == nil || o.Kind != "DEC" || o.Pos != len(pc.Encs[i].Bytes) {
		return false
	}
	return pc.R.Compare(pc.R.Root, pc.WireVals[i], o.Tree()) == nil
}

// offEncChecks judges the encodes into non-empty buffers. kind < 0: the whole layout (C01); otherwise only
// the fields of that kind (C04, C06).
func offEncChecks(ctx *core.Ctx, pc *ProgCase, cc *CodecCell, st *codecStats, kind int) {
	for _, run := range pc.Off {
		if !plainEncOK(pc, cc, run.i) {
			continue
		}
		o := cc.T.Out["ENC:"+run.id]
		if o == nil || (o.Kind == "ERR" && (o.ErrKind == "unsupported" || wallClockAnswer(o.ErrText))) {
			if o != nil && strings.Contains(o.ErrText, "command") {
				st.offSkipped[cc.Lang]++
			}
			continue
		}
		st.offEvals++
		st.offByLang[baseLang(cc.Lang)]++
		m := pc.Msgs[run.i]
		rep := map[string]any{"name": pc.Prog.Name, "lang": cc.Lang, "message": m.ID, "text": pc.Text, "buffer_before": hex.EncodeToString(run.pre), "reference": hexOf(run.enc.Bytes)}
		where := fmt.Sprintf("program %s message %s encoded into a buffer that already holds %s\nvalue     %s\nreference %s\n", pc.Prog.Name, m.ID, hex.EncodeToString(run.pre),
			core.Trunc(pc.R.FormatValue(nil, pc.R.Root, m.Val), 300), core.Trunc(hexOf(run.enc.Bytes), 300))
		if o.Kind == "ERR" {
			if kind < 0 {
				ctx.Report(fmt.Sprintf("%s|encoder fails when the output buffer is not empty|%s|%s", cc.Lang, errWord(o.ErrText), progClass(pc.Prog.Name)), where+o.ErrText+"\n"+core.Trunc(pc.Text, 600), rep)
			}
			continue
		}
		got, _ := hex.DecodeString(o.Hex)
		rep["got"] = o.Hex
		detail := where + fmt.Sprintf("%-9s %s\n%s", cc.Lang, core.Trunc(o.Hex, 300), core.Trunc(pc.Text, 600))
		n := len(run.pre)
		if len(got) < n || hex.EncodeToString(got[:n]) != hex.EncodeToString(run.pre) {
			if kind < 0 || kind == int(wire.KLenOf) {
				ctx.Report(fmt.Sprintf("%s|encoder alters or drops bytes that were in the buffer before the message|%s", cc.Lang, progClass(pc.Prog.Name)), detail, rep)
			}
			continue
		}
		var d string
		if kind < 0 {
			d = wireDiff(run.enc, got)
		} else {
			d = fieldDiff(run.enc, got, wire.FKind(kind))
		}
		if d != "" {
			ctx.Report(fmt.Sprintf("%s|only when the output buffer is not empty: %s|%s", cc.Lang, d, optsFor(pc.Prog, d)), detail, rep)
		}
	}
}

// offDecChecks judges the decodes from a position other than 0 (C02).
func offDecChecks(ctx *core.Ctx, pc *ProgCase, cc *CodecCell, st *codecStats) {
	for _, run := range pc.Off {
		if !plainDecOK(pc, cc, run.i) {
			continue
		}
		o := cc.T.Out["DEC:"+run.id]
		if o == nil || (o.Kind == "ERR" && (o.ErrKind == "unsupported" || wallClockAnswer(o.ErrText))) {
			if o != nil && strings.Contains(o.ErrText, "command") {
				st.offSkipped[cc.Lang]++
			}
			continue
		}
		st.offEvals++
		st.offByLang[baseLang(cc.Lang)]++
		m := pc.Msgs[run.i]
		ref := pc.Encs[run.i].Bytes
		rep := map[string]any{"name": pc.Prog.Name, "lang": cc.Lang, "message": m.ID, "text": pc.Text, "bytes_read_before": len(run.pre), "buffer": hex.EncodeToString(run.pre) + hexOf(ref)}
		where := fmt.Sprintf("program %s message %s decoded from position %d of the buffer %s%s\n", pc.Prog.Name, m.ID, len(run.pre), hex.EncodeToString(run.pre), core.Trunc(hexOf(ref), 300))
		if o.Kind == "ERR" {
			ctx.Report(fmt.Sprintf("%s|decoder fails when the message does not start at position 0|%s|%s", cc.Lang, errWord(o.ErrText), progClass(pc.Prog.Name)), where+o.ErrText+"\n"+core.Trunc(pc.Text, 600), rep)
			continue
		}
		if d := pc.R.Compare(pc.R.Root, pc.WireVals[run.i], o.Tree()); d != nil {
			ctx.Report(fmt.Sprintf("%s|only when the message does not start at position 0: decoded value differs: %s %s|%s", cc.Lang, d.Where(), d.Class, optsFor(pc.Prog, d.Where()+" "+d.Class)),
				where+d.String()+"\ndecoded "+core.Trunc(o.Raw, 400)+"\n"+core.Trunc(pc.Text, 600), rep)
			continue
		}
		if want := len(run.pre) + len(ref); o.Pos != want {
			ctx.Report(fmt.Sprintf("%s|only when the message does not start at position 0: decoder stops at the wrong position|%s", cc.Lang, progClass(pc.Prog.Name)),
				where+fmt.Sprintf("read position %d, expected %d\n%s", o.Pos, want, core.Trunc(pc.Text, 600)), rep)
		}
	}
}
