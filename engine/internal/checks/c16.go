package checks

import (
	"bytes"
	"fmt"
	"os"
	"os/exec"
	"path/filepath"
	"regexp"
	"sort"
	"strings"
	"sync"
	"sync/atomic"
	"time"

	api "github.com/xinchentechnote/fin-protoc/verifapi"
	"verif/engine/internal/core"
	"verif/engine/internal/dsl"
)

func init() { Registry["C16"] = C16 }

var langFlag = map[string]string{"lua": "-l", "rust": "-r", "go": "-g", "java": "-j", "python": "-p", "cpp": "-c"}

type cliResult struct {
	exit    int
	crashed bool
	stdout  string
	stderr  string
}

func runCLI(dir string, timeout time.Duration, bin string, args ...string) cliResult {
	cctx, cmd := cmdWithTimeout(timeout, bin, args...)
	var so, se bytes.Buffer
	cmd.Stdout = &limitedBuf{b: &so, max: 1 << 22}
	cmd.Stderr = &limitedBuf{b: &se, max: 1 << 16}
	cmd.Dir = dir
	err := cmd.Run()
	r := cliResult{stdout: so.String(), stderr: se.String()}
	if err != nil {
		r.exit = 1
		if ee, ok := err.(*exec.ExitError); ok {
			r.exit = ee.ExitCode()
		}
		r.crashed = crashed(err, r.stderr+r.stdout) || cctx.Err() != nil
	}
	return r
}

// C16: every entry point delivers exactly the library result.
func C16(ctx *core.Ctx) int {
	bin := ctx.BuildRepoBinary("pinned")
	so := ctx.BuildRepoBinary("so")
	host := buildCHost(ctx, so)
	budget := 1
	if ctx.Thorough() {
		budget = 2
	}
	var texts []c11Input
	for _, t := range grammarTexts(budget, dsl.NamesUnique) {
		texts = append(texts, c11Input{t.Name, dsl.Render(t.Toks, dsl.Pretty)})
	}
	progs := corpusPrograms(ctx)
	for i, p := range progs {
		if ctx.Thorough() || i%7 == 0 {
			texts = append(texts, c11Input{"E1/" + p.Name, p.Text()})
		}
	}
	var valid []Text
	for _, t := range grammarTexts(1, dsl.NamesUnique) {
		valid = append(valid, t)
	}
	for _, it := range invalidTexts(valid, false) {
		texts = append(texts, c11Input{"invalid/" + it.Name, it.Text})
	}
	for _, t := range repoSamples(ctx) {
		texts = append(texts, c11Input{t.Name, dsl.Render(t.Toks, dsl.Pretty)})
	}
	for _, t := range specialTexts() {
		texts = append(texts, c11Input{t.Name, t.Raw})
	}
	texts = append(texts, c11Input{"comment-only", "// c\n"}, c11Input{"with-comments", "// head\npacket P { // t\n    u16 a, // x\n}\n"},
		c11Input{"leading-dash", "-- not dsl"}, c11Input{"equals-sign", "options { A = 1 }"}, c11Input{"utf8", "packet P {\n    u16 a `消息`,\n}"},
		c11Input{"trailing-space", "packet P {\n}\n   \n"}, c11Input{"crlf", "packet P {\r\n    u16 a,\r\n}\r\n"})
	if ctx.Replay != "" {
		var r struct {
			Replay struct{ Name, Text string } `json:"replay"`
		}
		readReplay(ctx, &r)
		texts = []c11Input{{r.Replay.Name, r.Replay.Text}}
	}
	var evals int64
	distinct := sync.Map{}
	core.Parallel(len(texts), func(i int) {
		in := texts[i]
		if strings.ContainsRune(in.Text, 0) {
			return
		}
		want, ferr := api.Format(in.Text)
		if _, isPanic := ferr.(*api.Panic); isPanic {
			return // C11
		}
		distinct.Store(core.Hash(want, fmt.Sprint(ferr != nil)), true)
		rep := map[string]any{"name": in.Name, "text": in.Text}
		dir := ctx.TempPath(".d")
		os.MkdirAll(dir, 0o755)
		defer os.RemoveAll(dir)
		// format -d
		if in.Text != "" {
			r := runCLI(dir, 60*time.Second, bin, "format", "-d="+in.Text)
			atomic.AddInt64(&evals, 1)
			if !r.crashed {
				if ferr == nil {
					if r.exit != 0 {
						ctx.Report("format -d|non-zero exit on a valid text", fmt.Sprintf("%s: exit %d\n%s", in.Name, r.exit, core.Trunc(r.stdout, 300)), rep)
					} else if r.stdout != want+"\n" {
						ctx.Report("format -d|stdout is not exactly the library result + newline: "+stdoutDiff(r.stdout, want+"\n"), fmt.Sprintf("%s\n--- stdout\n%q\n--- library\n%q", in.Name, core.Trunc(r.stdout, 400), core.Trunc(want+"\n", 400)), rep)
					}
				} else if r.exit == 0 {
					ctx.Report("format -d|exit status 0 on a syntax error", fmt.Sprintf("%s\n%s", in.Name, core.Trunc(in.Text, 300)), rep)
				}
			}
		}
		// format -f
		{
			file := filepath.Join(dir, "f.dsl")
			os.WriteFile(file, []byte(in.Text), 0o644)
			old := time.Now().Add(-72 * time.Hour).Truncate(time.Second)
			os.Chtimes(file, old, old)
			r := runCLI(dir, 60*time.Second, bin, "format", "-f", file)
			atomic.AddInt64(&evals, 1)
			after, _ := os.ReadFile(file)
			fi, _ := os.Stat(file)
			if !r.crashed {
				if ferr == nil {
					if r.exit != 0 {
						ctx.Report("format -f|non-zero exit on a valid file", fmt.Sprintf("%s: exit %d %s", in.Name, r.exit, core.Trunc(r.stdout, 300)), rep)
					} else if string(after) != want {
						ctx.Report("format -f|file content is not exactly the library result: "+stdoutDiff(string(after), want), fmt.Sprintf("%s\n--- file\n%q\n--- library\n%q", in.Name, core.Trunc(string(after), 400), core.Trunc(want, 400)), rep)
					}
				} else {
					if r.exit == 0 {
						ctx.Report("format -f|exit status 0 on a syntax error", fmt.Sprintf("%s\n%s", in.Name, core.Trunc(in.Text, 300)), rep)
					}
					if string(after) != in.Text || (fi != nil && !fi.ModTime().Equal(old)) {
						ctx.Report("format -f|file touched on a syntax error", fmt.Sprintf("%s\n--- before\n%q\n--- after\n%q", in.Name, core.Trunc(in.Text, 300), core.Trunc(string(after), 300)), rep)
					}
				}
			}
		}
		// C export
		{
			file := filepath.Join(dir, "c.dsl")
			os.WriteFile(file, []byte(in.Text), 0o644)
			r := runCLI(dir, 60*time.Second, host, so, file)
			atomic.AddInt64(&evals, 1)
			if !r.crashed && r.exit == 0 {
				if ferr == nil {
					if r.stdout != want {
						ctx.Report("C export|returned text is not the library result: "+stdoutDiff(r.stdout, want), fmt.Sprintf("%s\n--- C\n%q\n--- library\n%q", in.Name, core.Trunc(r.stdout, 400), core.Trunc(want, 400)), rep)
					}
				} else if !strings.HasPrefix(r.stdout, "Error:") {
					ctx.Report("C export|no 'Error:' prefix on a syntax error", fmt.Sprintf("%s\n%q", in.Name, core.Trunc(r.stdout, 300)), rep)
				}
			} else if !r.crashed {
				ctx.Report("C export|host failed", fmt.Sprintf("%s: exit %d %s", in.Name, r.exit, r.stderr), rep)
			}
		}
	})
	// call sequences through the exported C function: it is called many times by one long-lived host (an editor
	// plug-in), and its answer for a text must not depend on the calls before. Alphabet: two valid texts (one
	// already formatted, one not), two invalid texts, the empty text; every sequence of 2 (thorough: 3) calls in
	// one process; oracle: the last call's answer = the answer of a process that makes only that call.
	seqCalls := c16CallSequences(ctx, host, so, valid)
	// several output flags naming one directory (shareddir.go)
	var sharedRuns int64
	core.Parallel(len(progs), func(i int) {
		fam := familyOf(progs[i].Name)
		if !(fam == "P5" || fam == "P6" || (fam == "P1" && (ctx.Thorough() || i%16 == 0))) {
			return
		}
		n := sharedDirRuns(ctx, bin, progs[i], func(what, detail string, rep map[string]any) {
			ctx.Report("compile|"+what, detail, rep)
		})
		atomic.AddInt64(&sharedRuns, int64(n))
	})
	// output directories whose names are words the command line knows (format, compile, help ...), in both forms
	failRuns := c16GeneratorFailures(ctx, bin)
	wordRuns := c16DirectoryWords(ctx, bin, progs)
	spellRuns := c16Spellings(ctx, bin, progs)
	compRuns, straced := c16Compile(ctx, bin, progs)
	nd := 0
	distinct.Range(func(k, v any) bool { nd++; return true })
	samples := []any{}
	for i := 0; i < len(texts) && len(samples) < 5; i += len(texts)/5 + 1 {
		samples = append(samples, map[string]any{"name": texts[i].Name, "text": core.Trunc(texts[i].Text, 300)})
	}
	cov := core.Coverage{
		"evaluations":         evals + int64(compRuns),
		"distinct_nontrivial": nd,
		"rule": "texts = grammar derivations + E1 programs + invalid texts + repository samples through `format -d`, `format -f` and FormatPacketDslExport (real binary, real .so from a C host), compared with the library formatter; " +
			"programs x all 64 subsets of output flags x {`compile ...`, bare flags} through the real binary, output trees compared byte for byte with the library generators applied in the same order to one model; strace of file-creating syscalls for 'nowhere else'. distinct_nontrivial = distinct library results",
		"samples":                             samples,
		"texts":                               len(texts),
		"compile_runs":                        compRuns,
		"shared_output_directory_runs":        sharedRuns,
		"library_call_sequences":              seqCalls,
		"directory_named_like_a_command_runs": wordRuns,
		"generator_failure_runs":              failRuns,
		"flag_and_path_spelling_runs":         spellRuns,
		"compile_runs_straced":                straced,
		"exhaustive":                          true,
	}
	ctx.Assumes = append(ctx.Assumes, "the binary is built with the map-order/clock seam pinned so that two compilations are comparable (C13 owns that nondeterminism); strace runs use the same binary",
		"texts containing NUL are not passed through argv / C strings")
	return ctx.Finish("exploration", cov)
}

func stdoutDiff(got, want string) string {
	switch {
	case strings.HasSuffix(got, want) && len(got) > len(want):
		extra := got[:len(got)-len(want)]
		return "extra leading output " + classifyExtra(extra)
	case strings.HasPrefix(got, want) && len(got) > len(want):
		return "extra trailing output " + classifyExtra(got[len(want):])
	case strings.HasPrefix(want, got):
		return "truncated"
	case strings.Contains(got, want):
		return "library result embedded in other output"
	}
	return "different text (" + diffSig(want, got) + ")"
}

var reNum = regexp.MustCompile(`\d+`)

func classifyExtra(s string) string {
	s = reNum.ReplaceAllString(s, "N")
	if len(s) > 40 {
		s = s[:40]
	}
	return fmt.Sprintf("%q", s)
}

// c16Compile: programs x 64 flag subsets x two spellings.
func c16Compile(ctx *core.Ctx, bin string, progs []*dsl.Program) (int, int) {
	var sel []*dsl.Program
	for i, p := range progs {
		fam := familyOf(p.Name)
		if fam == "P5" || fam == "P6" || (fam == "P1" && (ctx.Thorough() || i%16 == 0)) {
			sel = append(sel, p)
		}
	}
	// degenerate but legal texts: no packet at all (a generator's file set may then hold files of zero length - which
	// are members of the set like any other), a root packet without fields
	{
		meta := func() []*dsl.MetaBlock {
			return []*dsl.MetaBlock{{Name: "Dict", Entries: []*dsl.MetaEntry{{Name: "Price", Kind: dsl.Scalar, Type: "u64", Doc: "price"}, {Name: "Sym", Kind: dsl.FixStr, Type: "char", N: 4, Doc: "symbol"}}}}
		}
		d1 := &dsl.Program{Name: "D/options-only", Opts: dsl.TargetOpts("gdoptionsonly")}
		d2 := &dsl.Program{Name: "D/metadata-only", Opts: dsl.TargetOpts("gdmetadataonly"), Meta: meta()}
		d3 := &dsl.Program{Name: "D/empty-root-packet", Opts: dsl.TargetOpts("gdemptyroot"), Packets: []*dsl.Packet{dsl.Root("Msg")}}
		d4 := &dsl.Program{Name: "D/nothing", NoOpts: true}
		sel = append(sel, d1, d2, d3, d4)
	}
	var runs, straced int64
	var jobs []struct {
		p    *dsl.Program
		mask int
		bare bool
	}
	for _, p := range sel {
		// only programs the compiler accepts and generates without crashing are observable
		for mask := 0; mask < 64; mask++ {
			for _, bare := range []bool{false, true} {
				jobs = append(jobs, struct {
					p    *dsl.Program
					mask int
					bare bool
				}{p, mask, bare})
			}
		}
	}
	core.Parallel(len(jobs), func(k int) {
		j := jobs[k]
		text := j.p.Text()
		// library result: generators applied in CLI order to one model
		m, diags, err := parseText(ctx, text)
		if err != nil || len(diags) > 0 || api.Cyclic(m) {
			return
		}
		want := map[string]string{}
		failed := false
		var subset []string
		for i, lang := range api.Langs {
			if j.mask&(1<<i) == 0 {
				continue
			}
			subset = append(subset, lang)
			files, err := api.Generate(m, lang)
			if err != nil {
				failed = true
				break
			}
			for n, b := range files {
				want[filepath.Join("out_"+lang, n)] = string(b)
			}
		}
		if failed {
			return
		}
		dir := ctx.TempPath(".cc")
		os.MkdirAll(dir, 0o755)
		defer os.RemoveAll(dir)
		file := filepath.Join(dir, "in.dsl")
		os.WriteFile(file, []byte(text), 0o644)
		// regenerating into directories that already hold (longer) files of the same names must leave exactly the new bytes
		prefill := j.mask == 63 || j.mask == 21
		if prefill {
			for n, w := range want {
				p := filepath.Join(dir, n)
				os.MkdirAll(filepath.Dir(p), 0o755)
				os.WriteFile(p, []byte(w+"\n// stale tail of an earlier, longer generation\n"+strings.Repeat("x", 300)), 0o644)
			}
		}
		args := []string{}
		if !j.bare {
			args = append(args, "compile")
		}
		args = append(args, "-f", file)
		for _, lang := range subset {
			args = append(args, langFlag[lang], "out_"+lang)
		}
		rep := map[string]any{"name": j.p.Name, "text": text, "args": args}
		useStrace := j.mask == 63 || j.mask == 1 || j.mask == 42
		var r cliResult
		traceFile := filepath.Join(dir, "trace.log")
		if useStrace {
			sargs := append([]string{"-f", "-qq", "-e", "trace=%file", "-o", traceFile, bin}, args...)
			r = runCLI(dir, 120*time.Second, "strace", sargs...)
			atomic.AddInt64(&straced, 1)
		} else {
			r = runCLI(dir, 120*time.Second, bin, args...)
		}
		atomic.AddInt64(&runs, 1)
		sp := "compile"
		if j.bare {
			sp = "bare flags"
		}
		if r.crashed {
			return // C11
		}
		if r.exit != 0 {
			ctx.Report(sp+"|non-zero exit for an accepted program", fmt.Sprintf("%s %v: exit %d\n%s", j.p.Name, args, r.exit, core.Trunc(r.stdout, 400)), rep)
			return
		}
		got := map[string]string{}
		filepath.WalkDir(dir, func(p string, d os.DirEntry, err error) error {
			if err == nil && !d.IsDir() {
				rel, _ := filepath.Rel(dir, p)
				if rel == "in.dsl" || rel == "trace.log" {
					return nil
				}
				b, _ := os.ReadFile(p)
				got[rel] = string(b)
			}
			return nil
		})
		var names []string
		for n := range want {
			names = append(names, n)
		}
		for n := range got {
			if _, ok := want[n]; !ok {
				names = append(names, n)
			}
		}
		sort.Strings(names)
		for _, n := range names {
			w, okw := want[n]
			g, okg := got[n]
			lang := strings.TrimPrefix(strings.SplitN(n, string(filepath.Separator), 2)[0], "out_")
			switch {
			case !okg:
				ctx.Report(sp+"|file of the generators' set not written ("+lang+")", fmt.Sprintf("%s %v: missing %s", j.p.Name, args, n), rep)
			case !okw:
				ctx.Report(sp+"|file written that the generators did not produce", fmt.Sprintf("%s %v: extra %s", j.p.Name, args, n), rep)
			case w != g:
				how := ""
				if prefill && strings.HasPrefix(g, w) {
					how = ": an existing longer file is not truncated"
				}
				ctx.Report(sp+"|file content differs from the generator's bytes ("+lang+")"+how, fmt.Sprintf("%s %v: %s differs", j.p.Name, args, n), rep)
			}
		}
		if useStrace {
			if b, err := os.ReadFile(traceFile); err == nil {
				for _, w := range writesOutside(string(b), dir, subset) {
					ctx.Report(sp+"|writes outside the requested directories", fmt.Sprintf("%s %v: %s", j.p.Name, args, w), rep)
				}
			}
		}
	})
	return int(runs), int(straced)
}

var reOpen = regexp.MustCompile(`(?m)^\d+\s+(openat|open|creat|mkdir|mkdirat|rename|renameat|renameat2|unlink|unlinkat|symlink|symlinkat|link|linkat|truncate|chmod|fchmodat)\((.*)\)\s+=\s+(-?\d+)`)
var rePath = regexp.MustCompile(`"((?:[^"\\]|\\.)*)"`)

// writesOutside extracts file-creating / modifying syscalls whose path is not under a requested dir.
func writesOutside(trace, dir string, subset []string) []string {
	var out []string
	allowed := []string{}
	for _, l := range subset {
		allowed = append(allowed, filepath.Join(dir, "out_"+l))
	}
	for _, m := range reOpen.FindAllStringSubmatch(trace, -1) {
		call, args, ret := m[1], m[2], m[3]
		if strings.HasPrefix(ret, "-") {
			continue
		}
		if (call == "openat" || call == "open") && !(strings.Contains(args, "O_CREAT") || strings.Contains(args, "O_WRONLY") || strings.Contains(args, "O_RDWR") || strings.Contains(args, "O_TRUNC") || strings.Contains(args, "O_APPEND")) {
			continue
		}
		pm := rePath.FindStringSubmatch(args)
		if pm == nil {
			continue
		}
		p := pm[1]
		if !filepath.IsAbs(p) {
			p = filepath.Join(dir, p)
		}
		p = filepath.Clean(p)
		if p == "/dev/null" || strings.HasPrefix(p, "/proc/") || strings.HasPrefix(p, "/dev/") {
			continue
		}
		ok := false
		for _, a := range allowed {
			if p == a || strings.HasPrefix(p, a+string(filepath.Separator)) {
				ok = true
			}
		}
		if !ok {
			out = append(out, call+" "+p)
		}
	}
	return out
}

// c16CallSequences explores call sequences of FormatPacketDslExport inside one host process (see C16).
func c16CallSequences(ctx *core.Ctx, host, so string, valid []Text) map[string]any {
	var alphabet []c11Input
	pretty := dsl.Render(dsl.Universal().Tokens(), dsl.Pretty)
	if f, err := api.Format(pretty); err == nil {
		alphabet = append(alphabet, c11Input{"valid, already formatted", f})
	}
	alphabet = append(alphabet, c11Input{"valid, one line", dsl.Render(dsl.Universal().Tokens(), dsl.OneLine)})
	inv := invalidTexts(valid, false)
	for i := 0; i < len(inv) && len(alphabet) < 4; i++ {
		if !strings.Contains(inv[i].Text, "\x00") && strings.TrimSpace(inv[i].Text) != "" {
			alphabet = append(alphabet, c11Input{"invalid: " + inv[i].Name, inv[i].Text})
		}
	}
	alphabet = append(alphabet, c11Input{"empty text", ""})
	depth := 2
	if ctx.Thorough() {
		depth = 3
	}
	dir := ctx.TempPath(".seq")
	os.MkdirAll(dir, 0o755)
	defer os.RemoveAll(dir)
	files := make([]string, len(alphabet))
	single := make([]cliResult, len(alphabet))
	for i, a := range alphabet {
		files[i] = filepath.Join(dir, fmt.Sprintf("t%d.dsl", i))
		os.WriteFile(files[i], []byte(a.Text), 0o644)
		single[i] = runCLI(dir, 60*time.Second, host, so, files[i])
	}
	var seqs [][]int
	var rec func(cur []int)
	rec = func(cur []int) {
		if len(cur) >= 2 {
			seqs = append(seqs, append([]int(nil), cur...))
		}
		if len(cur) == depth {
			return
		}
		for i := range alphabet {
			rec(append(cur, i))
		}
	}
	rec(nil)
	var evals int64
	core.Parallel(len(seqs), func(k int) {
		s := seqs[k]
		last := s[len(s)-1]
		if single[last].crashed {
			return // C11
		}
		args := []string{so}
		var names []string
		for _, i := range s {
			args = append(args, files[i])
			names = append(names, alphabet[i].Name)
		}
		r := runCLI(dir, 60*time.Second, host, args...)
		atomic.AddInt64(&evals, 1)
		if r.crashed {
			ctx.Report("C export|the host dies on a sequence of calls each of which is answered alone", strings.Join(names, " ; "), map[string]any{"sequence": names})
			return
		}
		if r.stdout != single[last].stdout || r.exit != single[last].exit {
			ctx.Report("C export|the answer for a text depends on the calls made before in the same process",
				fmt.Sprintf("calls: %s\nanswer of the last call  %q\nanswer when called alone %q", strings.Join(names, " ; "), core.Trunc(r.stdout, 300), core.Trunc(single[last].stdout, 300)),
				map[string]any{"sequence": names, "last_text": alphabet[last].Text})
		}
	})
	return map[string]any{"alphabet": len(alphabet), "depth": depth, "sequences": len(seqs), "evaluations": evals}
}

// c16DirectoryWords: an output directory is a free name; the ones that coincide with words of the command line
// (sub-commands, help) must be treated as directories in both the `compile ...` form and the bare-flags form.
func c16DirectoryWords(ctx *core.Ctx, bin string, progs []*dsl.Program) int64 {
	var sel []*dsl.Program
	for _, p := range progs {
		if familyOf(p.Name) == "P6" || p.Name == "P5/two-match" {
			sel = append(sel, p)
		}
	}
	words := []string{"format", "compile", "help", "completion", "version"}
	type job struct {
		p    *dsl.Program
		lang string
		word string
		bare bool
	}
	var jobs []job
	for _, p := range sel {
		for li, l := range api.Langs {
			for wi, w := range words {
				if (li+wi)%2 == 0 || ctx.Thorough() {
					jobs = append(jobs, job{p, l, w, false}, job{p, l, w, true})
				}
			}
		}
	}
	var runs int64
	core.Parallel(len(jobs), func(k int) {
		j := jobs[k]
		text := j.p.Text()
		m, diags, err := parseText(ctx, text)
		if err != nil || len(diags) > 0 || api.Cyclic(m) {
			return
		}
		files, err := api.Generate(m, j.lang)
		if err != nil {
			return
		}
		dir := ctx.TempPath(".dw")
		os.MkdirAll(dir, 0o755)
		defer os.RemoveAll(dir)
		file := filepath.Join(dir, "in.dsl")
		os.WriteFile(file, []byte(text), 0o644)
		var args []string
		if !j.bare {
			args = append(args, "compile")
		}
		args = append(args, "-f", file, langFlag[j.lang], j.word)
		r := runCLI(dir, 120*time.Second, bin, args...)
		atomic.AddInt64(&runs, 1)
		if r.crashed {
			return
		}
		form := "compile"
		if j.bare {
			form = "bare flags"
		}
		rep := map[string]any{"name": j.p.Name, "text": text, "args": args}
		got := dirFiles(filepath.Join(dir, j.word))
		if r.exit != 0 || len(got) == 0 {
			ctx.Report(form+"|an output directory named like a word of the command line is not written", fmt.Sprintf("%s %v: exit %d, %d files under %q\n%s", j.p.Name, args[len(args)-2:], r.exit, len(got), j.word, core.Trunc(r.stdout+r.stderr, 300)), rep)
			return
		}
		for n, b := range files {
			if got[n] != string(b) {
				ctx.Report(form+"|files under a directory named like a word of the command line differ from the generator's", fmt.Sprintf("%s %v: %s", j.p.Name, args[len(args)-2:], n), rep)
				return
			}
		}
	})
	return runs
}

// c16Spellings: the same compilation asked for in every spelling the command line offers - short and long flag
// names, values attached (-fx, --file=x) or separate, the output directory given as ".", "./", "sub/..", a nested
// directory that does not exist yet, a path with a trailing slash, an absolute path, a path relative to a
// different working directory - in both command forms. Oracle: exit 0 and exactly the generator's files under
// the directory the spelling denotes.
func c16Spellings(ctx *core.Ctx, bin string, progs []*dsl.Program) int64 {
	var p *dsl.Program
	for _, q := range progs {
		if q.Name == "P5/two-match" {
			p = q
		}
	}
	if p == nil {
		return 0
	}
	text := p.Text()
	m, diags, err := parseText(ctx, text)
	if err != nil || len(diags) > 0 {
		return 0
	}
	long := map[string]string{"go": "--go_output", "rust": "--rs_output", "java": "--java_output", "python": "--py_output", "cpp": "--cpp_output", "lua": "--lua_output"}
	type dirSpell struct {
		name   string
		arg    string // as written on the command line (relative to the working directory "work")
		lands  string // where the files must be, relative to the scratch root
		mkdirs []string
	}
	dirs := []dirSpell{
		{"current directory .", ".", "work", nil},
		{"current directory ./", "./", "work", nil},
		{"sub/..", "sub/..", "work", []string{"work/sub"}},
		{"nested, not existing yet", "a/b/c", "work/a/b/c", nil},
		{"trailing slash", "out/", "work/out", nil},
		{"parent-relative", "../sibling", "sibling", nil},
		{"absolute", "", "abs/out", nil}, // arg filled in per run
	}
	type fileSpell struct{ name string }
	fileSpells := []string{"-f x", "-fx", "--file x", "--file=x"}
	var runs int64
	type job struct {
		lang        string
		d           dirSpell
		fs          string
		bare        bool
		attachedOut bool
	}
	var jobs []job
	for li, l := range api.Langs {
		for di, d := range dirs {
			for fi, fs := range fileSpells {
				for _, bare := range []bool{false, true} {
					if !ctx.Thorough() && (li+di+fi)%3 != 0 {
						continue
					}
					jobs = append(jobs, job{l, d, fs, bare, (li+di+fi)%2 == 1})
				}
			}
		}
	}
	core.Parallel(len(jobs), func(k int) {
		j := jobs[k]
		files, err := func() (map[string][]byte, error) {
			mm, _, e := parseText(ctx, text)
			if e != nil {
				return nil, e
			}
			return api.Generate(mm, j.lang)
		}()
		if err != nil {
			return
		}
		root := ctx.TempPath(".sp")
		work := filepath.Join(root, "work")
		os.MkdirAll(work, 0o755)
		defer os.RemoveAll(root)
		for _, d := range j.d.mkdirs {
			os.MkdirAll(filepath.Join(root, d), 0o755)
		}
		dsl := filepath.Join(work, "in.dsl")
		os.WriteFile(dsl, []byte(text), 0o644)
		outArg := j.d.arg
		if j.d.name == "absolute" {
			outArg = filepath.Join(root, "abs", "out")
		}
		var args []string
		if !j.bare {
			args = append(args, "compile")
		}
		switch j.fs {
		case "-f x":
			args = append(args, "-f", "in.dsl")
		case "-fx":
			args = append(args, "-fin.dsl")
		case "--file x":
			args = append(args, "--file", "in.dsl")
		case "--file=x":
			args = append(args, "--file=in.dsl")
		}
		if j.attachedOut {
			args = append(args, long[j.lang]+"="+outArg)
		} else {
			args = append(args, langFlag[j.lang], outArg)
		}
		r := runCLI(work, 120*time.Second, bin, args...)
		atomic.AddInt64(&runs, 1)
		if r.crashed {
			return
		}
		form := "compile"
		if j.bare {
			form = "bare flags"
		}
		rep := map[string]any{"name": p.Name, "text": text, "args": args, "lang": j.lang}
		sig := fmt.Sprintf("%s|input file as %s|output directory as %s", form, strings.Replace(j.fs, "x", "<path>", 1), j.d.name)
		if j.attachedOut {
			sig += " (--<lang>_output=<dir>)"
		}
		if r.exit != 0 {
			ctx.Report(sig+"|rejected", fmt.Sprintf("%v: exit %d\n%s", args, r.exit, core.Trunc(r.stdout+r.stderr, 300)), rep)
			return
		}
		got := dirFiles(filepath.Join(root, j.d.lands))
		for n, b := range files {
			if got[n] != string(b) {
				ctx.Report(sig+"|the generator's files are not where the path says", fmt.Sprintf("%v: %s missing or different under %s", args, n, j.d.lands), rep)
				return
			}
		}
	})
	_ = m
	return runs
}

// c16GeneratorFailures: when a requested generator reports an error (a program without a root packet for the
// targets that need one; an output path below a regular file), the command must not claim success: exit status
// != 0, in both command forms, for every subset of targets that contains a failing one. (Which of the other
// targets' files are then on disk is not judged.)
func c16GeneratorFailures(ctx *core.Ctx, bin string) int64 {
	p := &dsl.Program{Name: "no-root", Packets: []*dsl.Packet{dsl.Pk("Msg", dsl.Sc("u16", "Kind"), dsl.Ds("Text")), dsl.Pk("Other", dsl.Sc("u8", "X"))}}
	p.Opts = dsl.TargetOpts("gnoroot")
	text := p.Text()
	fails := map[string]bool{}
	for _, l := range api.Langs {
		m, diags, err := parseText(ctx, text)
		if err != nil || len(diags) > 0 {
			return 0 // not accepted at all: C12's subject
		}
		if _, err := api.Generate(m, l); err != nil {
			if _, isPanic := err.(*api.Panic); !isPanic {
				fails[l] = true
			}
		}
	}
	var runs int64
	var masks []int
	for mask := 1; mask < 64; mask++ {
		masks = append(masks, mask)
	}
	core.Parallel(len(masks)*2, func(k int) {
		mask, bare := masks[k/2], k%2 == 1
		var subset []string
		anyFail := false
		for i, l := range api.Langs {
			if mask&(1<<i) != 0 {
				subset = append(subset, l)
				anyFail = anyFail || fails[l]
			}
		}
		if !anyFail {
			return
		}
		dir := ctx.TempPath(".gf")
		os.MkdirAll(dir, 0o755)
		defer os.RemoveAll(dir)
		file := filepath.Join(dir, "in.dsl")
		os.WriteFile(file, []byte(text), 0o644)
		var args []string
		if !bare {
			args = append(args, "compile")
		}
		args = append(args, "-f", file)
		for _, l := range subset {
			args = append(args, langFlag[l], "out_"+l)
		}
		r := runCLI(dir, 120*time.Second, bin, args...)
		atomic.AddInt64(&runs, 1)
		if r.crashed {
			return
		}
		if r.exit == 0 {
			form := "compile"
			if bare {
				form = "bare flags"
			}
			ctx.Report(form+"|exit status 0 although a requested generator reports an error", fmt.Sprintf("program without a root packet, targets %v (the generators of %v report an error)\n%s", subset, keysOf(fails), core.Trunc(r.stdout, 300)),
				map[string]any{"name": p.Name, "text": text, "args": args})
		}
	})
	// an output path that cannot be created (below a regular file)
	{
		q := dsl.P5()[0]
		dir := ctx.TempPath(".gf")
		os.MkdirAll(dir, 0o755)
		defer os.RemoveAll(dir)
		file := filepath.Join(dir, "in.dsl")
		os.WriteFile(file, []byte(q.Text()), 0o644)
		os.WriteFile(filepath.Join(dir, "blocker"), []byte("a regular file"), 0o644)
		for _, l := range api.Langs {
			r := runCLI(dir, 120*time.Second, bin, "compile", "-f", file, langFlag[l], "blocker/out")
			atomic.AddInt64(&runs, 1)
			if !r.crashed && r.exit == 0 {
				ctx.Report("compile|exit status 0 although the output directory cannot be created", fmt.Sprintf("%s below a regular file\n%s", l, core.Trunc(r.stdout, 300)), map[string]any{"name": q.Name, "text": q.Text(), "lang": l})
			}
		}
	}
	return runs
}

func keysOf(m map[string]bool) []string {
	var out []string
	for k := range m {
		out = append(out, k)
	}
	sort.Strings(out)
	return out
}
