// Package dsl is the harness's own, independent representation of PacketDSL programs: an AST that
// says what a program *means*, printers that spell it in every way the grammar allows, and the
// enumerators of the program space (families P1..P6) used by the checks.
package dsl

import (
	"fmt"
	"strings"
)

// Kind of a field.
type Kind int

const (
	Scalar   Kind = iota // one of the 11 basic types
	FixStr               // char[n] / zchar[n]
	DynStr               // string / char[]
	Obj                  // reference to a packet by type name
	Inline               // inline object
	Match                // match field
	LenOf                // integer whose value is the byte size of Target
	Checksum             // integer computed by a named algorithm
	MetaRef              // field typed by a MetaData entry
)

func (k Kind) String() string {
	return [...]string{"scalar", "fixstr", "dynstr", "obj", "inline", "match", "lenof", "checksum", "metaref"}[k]
}

// Pad is a padding attribute. Char is the literal as written in the DSL ('0', ' ', '\x00') or "" for
// the empty form `@leftPad()`.
type Pad struct {
	Left bool
	Char string
}

// Pair is one line of a match table.
type Pair struct {
	Keys   []string // literals as written: 1, "A"
	List   bool     // written as a [..] list (always true when len(Keys) > 1)
	Packet string
}

// Field is one field of a packet or inline object.
type Field struct {
	Kind    Kind
	Name    string // field name ("" for Obj/MetaRef means: same as Ref)
	Type    string // Scalar/LenOf/Checksum: canonical basic type (u16…); FixStr: "char"|"zchar"; DynStr: "string"|"char[]"
	N       int    // FixStr length
	Pad     *Pad   // FixStr padding attribute (nil = none)
	Repeat  bool
	Ref     string   // Obj: packet name; MetaRef: MetaData entry name; Inline: object name
	Sub     []*Field // Inline members
	Key     string   // Match: key field name
	Pairs   []Pair   // Match table
	Target  string   // LenOf target field name
	Algo    string   // Checksum algorithm literal including quotes
	Doc     string   // doc string without back quotes ("" = absent)
	Tag     int      // @tag(n) when > 0
	TagLast bool     // write @tag(n) after the field's other prefix attributes instead of before them

	// spelling choices (do not change meaning)
	Alias      bool // spell the basic type with its long alias (uint16 for u16)
	Prefixed   bool // LenOf/Checksum: attribute written before the field instead of inline
	NoType     bool // LenOf/Checksum inline without a type (type taken from a MetaData entry of the same name)
	PairCommas int  // 0: comma after every pair; 1: none; 2: alternate
}

// FieldName is the name the model gives the field.
func (f *Field) FieldName() string {
	if f.Name != "" {
		return f.Name
	}
	return f.Ref
}

// MetaEntry is one declaration inside a MetaData block.
type MetaEntry struct {
	Name  string
	Kind  Kind   // Scalar, FixStr, DynStr, or MetaRef (refers to another entry)
	Type  string // as in Field
	N     int
	Ref   string
	Doc   string // "" = absent (the grammar allows it)
	Alias bool
}

// MetaBlock is a MetaData definition.
type MetaBlock struct {
	Name    string
	Entries []*MetaEntry
}

// Opt is one option declaration; Value is the literal as written (true, u8, '0', "pkg").
type Opt struct {
	Name, Value string
	Semi        bool
}

// Packet is a packet definition.
type Packet struct {
	Name   string
	Root   bool
	Fields []*Field
}

// Program is a whole DSL text.
type Program struct {
	Name     string // identifier of the program inside the harness (family/index)
	Opts     []Opt
	NoOpts   bool // do not print an options block even if empty (default: print only when len(Opts)>0)
	MetaLast bool // print the MetaData blocks after the packets (declaration order is free in the grammar)
	OptsLast bool // print the options block last
	OneLine  bool // Text() renders the whole program on one source line
	Meta     []*MetaBlock
	Packets  []*Packet
	// Order in which top-level blocks are printed: default options, metadata, packets.
	Notes []string
}

// Clone deep-copies a program.
func (p *Program) Clone() *Program {
	q := *p
	q.Opts = append([]Opt(nil), p.Opts...)
	q.Meta = nil
	for _, mb := range p.Meta {
		nb := &MetaBlock{Name: mb.Name}
		for _, e := range mb.Entries {
			ne := *e
			nb.Entries = append(nb.Entries, &ne)
		}
		q.Meta = append(q.Meta, nb)
	}
	q.Packets = nil
	for _, pk := range p.Packets {
		np := &Packet{Name: pk.Name, Root: pk.Root}
		np.Fields = cloneFields(pk.Fields)
		q.Packets = append(q.Packets, np)
	}
	q.Notes = append([]string(nil), p.Notes...)
	return &q
}

func cloneFields(fs []*Field) []*Field {
	var out []*Field
	for _, f := range fs {
		nf := *f
		if f.Pad != nil {
			pd := *f.Pad
			nf.Pad = &pd
		}
		nf.Sub = cloneFields(f.Sub)
		nf.Pairs = nil
		for _, pr := range f.Pairs {
			np := pr
			np.Keys = append([]string(nil), pr.Keys...)
			nf.Pairs = append(nf.Pairs, np)
		}
		out = append(out, &nf)
	}
	return out
}

// PacketByName finds a top-level packet.
func (p *Program) PacketByName(n string) *Packet {
	for _, pk := range p.Packets {
		if pk.Name == n {
			return pk
		}
	}
	return nil
}

// RootPacket returns the root packet (nil if none).
func (p *Program) RootPacket() *Packet {
	for _, pk := range p.Packets {
		if pk.Root {
			return pk
		}
	}
	return nil
}

// MetaEntryByName finds a MetaData entry across blocks.
func (p *Program) MetaEntryByName(n string) *MetaEntry {
	for _, mb := range p.Meta {
		for _, e := range mb.Entries {
			if e.Name == n {
				return e
			}
		}
	}
	return nil
}

// OptValue returns the literal value of an option and whether it is set.
func (p *Program) OptValue(name string) (string, bool) {
	for _, o := range p.Opts {
		if o.Name == name {
			return o.Value, true
		}
	}
	return "", false
}

// SetOpt sets or replaces an option.
func (p *Program) SetOpt(name, value string) {
	for i := range p.Opts {
		if p.Opts[i].Name == name {
			p.Opts[i].Value = value
			return
		}
	}
	p.Opts = append(p.Opts, Opt{Name: name, Value: value, Semi: true})
}

var aliasOf = map[string]string{
	"u8": "uint8", "u16": "uint16", "u32": "uint32", "u64": "uint64",
	"i8": "int8", "i16": "int16", "i32": "int32", "i64": "int64",
	"f32": "float32", "f64": "float64", "char": "char",
}

// Scalars lists the 11 basic types in canonical spelling.
var Scalars = []string{"char", "u8", "u16", "u32", "u64", "i8", "i16", "i32", "i64", "f32", "f64"}

// IntTypes are the integer basic types.
var IntTypes = []string{"u8", "u16", "u32", "u64", "i8", "i16", "i32", "i64"}

// UintTypes are the unsigned integer basic types.
var UintTypes = []string{"u8", "u16", "u32", "u64"}

// Width returns the byte width of a basic type.
func Width(t string) int {
	switch t {
	case "char", "u8", "i8":
		return 1
	case "u16", "i16":
		return 2
	case "u32", "i32", "f32":
		return 4
	case "u64", "i64", "f64":
		return 8
	}
	panic("dsl.Width: " + t)
}

func spellBasic(t string, alias bool) string {
	if alias {
		if a, ok := aliasOf[t]; ok {
			return a
		}
	}
	return t
}

func typeToks(kind Kind, typ string, n int, alias bool) []string {
	switch kind {
	case Scalar, LenOf, Checksum:
		return []string{spellBasic(typ, alias)}
	case FixStr:
		return []string{typ + "[", fmt.Sprint(n), "]"}
	case DynStr:
		return []string{typ}
	}
	panic("typeToks: " + kind.String())
}

// SpanKey identifies a declaration in a printed program.
type SpanKey struct {
	Node any // *Packet, *Field, *MetaEntry, *MetaBlock
	Sub  int // -1 for the node itself; for *Field of kind Match: pair index; for nil Node: option index
}

// Spans maps declarations to [first,last] token indices of the printed program.
type Spans map[SpanKey][2]int

// Tokens prints the program as a token sequence (texts only); Render lays it out.
func (p *Program) Tokens() []string {
	t, _ := p.TokensSpans()
	return t
}

// TokensSpans prints the program and records where every declaration went.
func (p *Program) TokensSpans() ([]string, Spans) {
	sp := Spans{}
	var t []string
	emitOpts := func() {
		if len(p.Opts) > 0 {
			t = append(t, "options", "{")
			for i, o := range p.Opts {
				st := len(t)
				t = append(t, o.Name, "=")
				t = append(t, optValueToks(o.Value)...)
				if o.Semi {
					t = append(t, ";")
				}
				sp[SpanKey{nil, i}] = [2]int{st, len(t) - 1}
			}
			t = append(t, "}")
		}
	}
	emitMeta := func() {
		for _, mb := range p.Meta {
			bst := len(t)
			t = append(t, "MetaData", mb.Name, "{")
			for _, e := range mb.Entries {
				st := len(t)
				if e.Kind == MetaRef {
					t = append(t, e.Ref, e.Name)
				} else {
					t = append(t, typeToks(e.Kind, e.Type, e.N, e.Alias)...)
					t = append(t, e.Name)
				}
				if e.Doc != "" {
					t = append(t, "`"+e.Doc+"`")
				}
				t = append(t, ",")
				sp[SpanKey{e, -1}] = [2]int{st, len(t) - 1}
			}
			t = append(t, "}")
			sp[SpanKey{mb, -1}] = [2]int{bst, len(t) - 1}
		}
	}
	emitPackets := func() {
		for _, pk := range p.Packets {
			st := len(t)
			if pk.Root {
				t = append(t, "root")
			}
			t = append(t, "packet", pk.Name, "{")
			for _, f := range pk.Fields {
				t = fieldToks(t, f, sp)
			}
			t = append(t, "}")
			sp[SpanKey{pk, -1}] = [2]int{st, len(t) - 1}
		}
	}
	if !p.OptsLast {
		emitOpts()
	}
	if !p.MetaLast {
		emitMeta()
	}
	emitPackets()
	if p.MetaLast {
		emitMeta()
	}
	if p.OptsLast {
		emitOpts()
	}
	return t, sp
}

func optValueToks(v string) []string {
	// char[4] style values are three tokens; everything else one
	if (strings.HasPrefix(v, "char[") || strings.HasPrefix(v, "zchar[")) && strings.HasSuffix(v, "]") && !strings.HasSuffix(v, "[]") {
		i := strings.Index(v, "[")
		return []string{v[:i+1], v[i+1 : len(v)-1], "]"}
	}
	return []string{v}
}

func fieldToks(t []string, f *Field, sp Spans) []string {
	start := len(t)
	hasOtherPrefixAttr := (f.Kind == FixStr && f.Pad != nil) || ((f.Kind == LenOf || f.Kind == Checksum) && f.Prefixed)
	if f.Tag > 0 && !(f.TagLast && hasOtherPrefixAttr) {
		t = append(t, "@tag(", fmt.Sprint(f.Tag), ")")
	}
	tagLate := func() {
		if f.Tag > 0 && f.TagLast && hasOtherPrefixAttr {
			t = append(t, "@tag(", fmt.Sprint(f.Tag), ")")
		}
	}
	doc := func() {
		if f.Doc != "" {
			t = append(t, "`"+f.Doc+"`")
		}
	}
	rep := func() {
		if f.Repeat {
			t = append(t, "repeat")
		}
	}
	pad := func() {
		if f.Pad != nil {
			if f.Pad.Left {
				t = append(t, "@leftPad")
			} else {
				t = append(t, "@rightPad")
			}
			t = append(t, "(")
			if f.Pad.Char != "" {
				t = append(t, f.Pad.Char)
			}
			t = append(t, ")")
			tagLate()
		}
	}
	switch f.Kind {
	case Scalar, DynStr:
		rep()
		t = append(t, typeToks(f.Kind, f.Type, f.N, f.Alias)...)
		t = append(t, f.Name)
		doc()
		t = append(t, ",")
	case FixStr:
		pad()
		rep()
		t = append(t, typeToks(f.Kind, f.Type, f.N, f.Alias)...)
		t = append(t, f.Name)
		doc()
		t = append(t, ",")
	case Obj, MetaRef:
		pad()
		rep()
		t = append(t, f.Ref)
		if f.Name != "" {
			t = append(t, f.Name)
		}
		doc()
		t = append(t, ",")
	case Inline:
		rep()
		t = append(t, f.Ref, "{")
		for _, s := range f.Sub {
			t = fieldToks(t, s, sp)
		}
		t = append(t, "}", ",")
	case Match:
		t = append(t, "match", f.Key, "as", f.Name, "{")
		for i, pr := range f.Pairs {
			pst := len(t)
			if pr.List || len(pr.Keys) > 1 {
				t = append(t, "[")
				for j, k := range pr.Keys {
					if j > 0 {
						t = append(t, ",")
					}
					t = append(t, k)
				}
				t = append(t, "]")
			} else {
				t = append(t, pr.Keys[0])
			}
			t = append(t, ":", pr.Packet)
			switch f.PairCommas {
			case 0:
				t = append(t, ",")
			case 2:
				if i%2 == 0 {
					t = append(t, ",")
				}
			}
			if sp != nil {
				sp[SpanKey{f, i}] = [2]int{pst, len(t) - 1}
			}
		}
		t = append(t, "}", ",")
	case LenOf, Checksum:
		attr := []string{"@lengthOf(", f.Target, ")"}
		if f.Kind == Checksum {
			attr = []string{"@calculatedFrom(", f.Algo, ")"}
		}
		if f.Prefixed {
			t = append(t, attr...)
			tagLate()
			t = append(t, spellBasic(f.Type, f.Alias), f.Name)
		} else {
			if !f.NoType {
				t = append(t, spellBasic(f.Type, f.Alias))
			}
			t = append(t, f.Name)
			t = append(t, attr...)
		}
		doc()
		t = append(t, ",")
	}
	if sp != nil {
		sp[SpanKey{f, -1}] = [2]int{start, len(t) - 1}
	}
	return t
}

// Style is a layout: how tokens are separated.
type Style int

const (
	Pretty  Style = iota // one declaration per line, 4-space indent (close to the formatter's own output)
	OneLine              // single spaces everywhere
	Newline              // every token on its own line
	Tabs                 // tabs between tokens
	CRLF                 // "\r\n" between tokens
	Ragged               // "  \n\n  " between tokens
)

// Gaps returns the whitespace before each token (len(toks)+1 entries; the last is the trailer).
func Gaps(toks []string, st Style) []string {
	g := make([]string, len(toks)+1)
	sep := ""
	switch st {
	case OneLine:
		sep = " "
	case Newline:
		sep = "\n"
	case Tabs:
		sep = "\t"
	case CRLF:
		sep = "\r\n"
	case Ragged:
		sep = "  \n\n  "
	}
	if st != Pretty {
		for i := 1; i < len(toks); i++ {
			g[i] = sep
		}
		return g
	}
	depth := 0
	bol := true
	inList := 0
	first := true
	for i, tk := range toks {
		if tk == "}" {
			depth--
		}
		switch {
		case first:
			g[i] = ""
		case bol:
			g[i] = "\n" + strings.Repeat("    ", max0(depth))
		default:
			g[i] = " "
		}
		first = false
		bol = false
		switch tk {
		case "}":
			if depth <= 0 {
				bol = true
			}
		case "[":
			inList++
		case "]":
			if inList > 0 {
				inList--
			}
		case "{":
			depth++
			bol = true
		case ";":
			bol = true
		case ")":
			if i+1 < len(toks) && depth > 0 && inList == 0 {
				nx := toks[i+1]
				if nx != "," && !strings.HasPrefix(nx, "`") {
					bol = true
				}
			}
		case ",":
			if inList == 0 {
				bol = true
			}
		}
		if i+1 < len(toks) && toks[i+1] == "}" {
			bol = true
		}
		if depth == 1 && i+2 < len(toks) && toks[i+2] == "=" {
			bol = true
		}
	}
	g[len(toks)] = "\n"
	return g
}

// Join interleaves gaps and tokens.
func Join(toks, gaps []string) string {
	var b strings.Builder
	for i, t := range toks {
		b.WriteString(gaps[i])
		b.WriteString(t)
	}
	b.WriteString(gaps[len(toks)])
	return b.String()
}

// Render lays a token sequence out.
func Render(toks []string, st Style) string { return Join(toks, Gaps(toks, st)) }

func max0(n int) int {
	if n < 0 {
		return 0
	}
	return n
}

// Text is Render(Tokens(), Pretty).
func (p *Program) Text() string {
	if p.OneLine {
		return Render(p.Tokens(), OneLine)
	}
	return Render(p.Tokens(), Pretty)
}

// TokenLines returns, for the layout given by gaps, the (first,last) 1-based line of every token.
func TokenLines(toks, gaps []string) [][2]int {
	out := make([][2]int, len(toks))
	line := 1
	for i, t := range toks {
		line += strings.Count(gaps[i], "\n")
		first := line
		line += strings.Count(t, "\n")
		out[i] = [2]int{first, line}
	}
	return out
}
