package dsl

import (
	"fmt"
	"strings"
)

// ---- constructors -------------------------------------------------------------------------

func Sc(t, name string) *Field { return &Field{Kind: Scalar, Type: t, Name: name} }
func Fx(n int, name string, pad *Pad) *Field {
	return &Field{Kind: FixStr, Type: "char", N: n, Name: name, Pad: pad}
}
func Zc(n int, name string) *Field { return &Field{Kind: FixStr, Type: "zchar", N: n, Name: name} }
func Ds(name string) *Field        { return &Field{Kind: DynStr, Type: "string", Name: name} }
func Ds2(name string) *Field       { return &Field{Kind: DynStr, Type: "char[]", Name: name} }
func Ob(ref, name string) *Field   { return &Field{Kind: Obj, Ref: ref, Name: name} }
func Mr(ref, name string) *Field   { return &Field{Kind: MetaRef, Ref: ref, Name: name} }
func In(name string, sub ...*Field) *Field {
	return &Field{Kind: Inline, Ref: name, Sub: sub}
}
func Mt(key, name string, pairs ...Pair) *Field {
	return &Field{Kind: Match, Key: key, Name: name, Pairs: pairs}
}
func Lo(t, name, target string) *Field {
	return &Field{Kind: LenOf, Type: t, Name: name, Target: target}
}
func Ck(t, name, algo string) *Field {
	return &Field{Kind: Checksum, Type: t, Name: name, Algo: `"` + algo + `"`}
}
func Rep(f *Field) *Field { f.Repeat = true; return f }
func K(packet string, keys ...string) Pair {
	return Pair{Keys: keys, Packet: packet, List: len(keys) > 1}
}
func KL(packet string, keys ...string) Pair { return Pair{Keys: keys, Packet: packet, List: true} }
func Pk(name string, fields ...*Field) *Packet {
	return &Packet{Name: name, Fields: fields}
}
func Root(name string, fields ...*Field) *Packet {
	return &Packet{Name: name, Root: true, Fields: fields}
}

// TargetOpts are the options the Go and Java targets need; they are always supplied.
func TargetOpts(pkg string) []Opt {
	return []Opt{
		{Name: "GoPackage", Value: `"` + pkg + `"`, Semi: true},
		{Name: "GoModule", Value: `"verifgen/` + pkg + `"`, Semi: true},
		{Name: "JavaPackage", Value: `"vg.` + pkg + `"`, Semi: true},
	}
}

func prog(name string, packets ...*Packet) *Program {
	return &Program{Name: name, Packets: packets}
}

// PadForms are the padding attribute forms (nil = none).
func PadForms() []*Pad {
	out := []*Pad{nil}
	for _, left := range []bool{true, false} {
		for _, c := range []string{"'0'", "' '", `'\x00'`, ""} {
			out = append(out, &Pad{Left: left, Char: c})
		}
	}
	return out
}

func padName(p *Pad) string {
	if p == nil {
		return "nopad"
	}
	s := "right"
	if p.Left {
		s = "left"
	}
	switch p.Char {
	case "'0'":
		return s + "0"
	case "' '":
		return s + "sp"
	case `'\x00'`:
		return s + "nul"
	}
	return s + "empty"
}

// ---- P1 singles ----------------------------------------------------------------------------

// P1 returns the singles family: a root packet whose only field is one kind (plus required context).
func P1() []*Program {
	var out []*Program
	add := func(name string, p *Program) {
		p.Name = "P1/" + name
		out = append(out, p)
	}
	for _, rep := range []bool{false, true} {
		r := ""
		if rep {
			r = "-rep"
		}
		mk := func(f *Field) *Field {
			f.Repeat = rep
			return f
		}
		for _, t := range Scalars {
			add("scalar-"+t+r, prog("", Root("Msg", mk(Sc(t, "Val")))))
		}
		for _, n := range []int{1, 4} {
			for _, pd := range PadForms() {
				add(fmt.Sprintf("char%d-%s%s", n, padName(pd), r), prog("", Root("Msg", mk(Fx(n, "Val", pd)))))
			}
			add(fmt.Sprintf("zchar%d%s", n, r), prog("", Root("Msg", mk(Zc(n, "Val")))))
		}
		add("string"+r, prog("", Root("Msg", mk(Ds("Val")))))
		add("chararr"+r, prog("", Root("Msg", mk(Ds2("Val")))))
		add("obj-bytype"+r, prog("", Root("Msg", mk(Ob("Detail", ""))), Pk("Detail", Sc("u16", "Code"), Ds("Text"))))
		add("obj-named"+r, prog("", Root("Msg", mk(Ob("Detail", "Info"))), Pk("Detail", Sc("u16", "Code"), Ds("Text"))))
		add("inline"+r, prog("", Root("Msg", mk(In("Sub", Sc("u16", "Code"), Ds("Text"))))))
		// MetaData-typed
		meta := func() []*MetaBlock {
			return []*MetaBlock{{Name: "Dict", Entries: []*MetaEntry{
				{Name: "Price", Kind: Scalar, Type: "u64", Doc: "price"},
				{Name: "Symbol", Kind: FixStr, Type: "char", N: 4, Doc: "symbol"},
				{Name: "ZSym", Kind: FixStr, Type: "zchar", N: 4, Doc: "zsymbol"},
				{Name: "Memo", Kind: DynStr, Type: "string", Doc: "memo"},
				{Name: "LastPx", Kind: MetaRef, Ref: "Price", Doc: "refers to Price"},
			}}}
		}
		for _, e := range []string{"Price", "Symbol", "ZSym", "Memo", "LastPx"} {
			p := prog("", Root("Msg", mk(Mr(e, ""))))
			p.Meta = meta()
			add("meta-"+e+r, p)
			p2 := prog("", Root("Msg", mk(Mr(e, "Renamed"))))
			p2.Meta = meta()
			add("meta-"+e+"-named"+r, p2)
		}
	}
	// the long spelling of every scalar type (uint16 for u16, float64 for f64, ...)
	for _, t := range Scalars {
		if t == "char" {
			continue
		}
		f := Sc(t, "Val")
		f.Alias = true
		g := Rep(Sc(t, "Vals"))
		g.Alias = true
		add("alias-"+t, prog("", Root("Msg", f, g)))
	}
	// match
	pay := func() []*Packet {
		return []*Packet{Pk("Alpha", Sc("u32", "A1"), Ds("A2")), Pk("Beta", Sc("u8", "B1")), Pk("Empty")}
	}
	for _, t := range IntTypes {
		p := prog("", append([]*Packet{Root("Msg", Sc(t, "Kind"), Mt("Kind", "Body", K("Alpha", "1"), K("Beta", "2")))}, pay()...)...)
		add("match-"+t, p)
	}
	add("match-1alt", prog("", append([]*Packet{Root("Msg", Sc("u16", "Kind"), Mt("Kind", "Body", K("Alpha", "7")))}, pay()...)...))
	add("match-3alt-empty", prog("", append([]*Packet{Root("Msg", Sc("u16", "Kind"), Mt("Kind", "Body", K("Alpha", "1"), K("Beta", "2"), K("Empty", "3")))}, pay()...)...))
	add("match-string", prog("", append([]*Packet{Root("Msg", Ds("Kind"), Mt("Kind", "Body", K("Alpha", `"A"`), K("Beta", `"BB"`)))}, pay()...)...))
	add("match-fixstr", prog("", append([]*Packet{Root("Msg", Fx(2, "Kind", nil), Mt("Kind", "Body", K("Alpha", `"AA"`), K("Beta", `"BB"`)))}, pay()...)...))
	add("match-list2", prog("", append([]*Packet{Root("Msg", Sc("u16", "Kind"), Mt("Kind", "Body", K("Alpha", "1", "2"), K("Beta", "3")))}, pay()...)...))
	add("match-list6", prog("", append([]*Packet{Root("Msg", Sc("u16", "Kind"), Mt("Kind", "Body", K("Alpha", "1", "2", "3", "4", "5", "6"), K("Beta", "9")))}, pay()...)...))
	for _, n := range []int{5, 10, 11, 15} {
		var keys []string
		for k := 1; k <= n; k++ {
			keys = append(keys, fmt.Sprint(k))
		}
		add(fmt.Sprintf("match-list%d", n), prog("", append([]*Packet{Root("Msg", Sc("u16", "Kind"), Mt("Kind", "Body", K("Alpha", keys...), K("Beta", "99")))}, pay()...)...))
	}
	add("match-strlist10", prog("", append([]*Packet{Root("Msg", Ds("Kind"), Mt("Kind", "Body", K("Alpha", `"A"`, `"B"`, `"C"`, `"D"`, `"E"`, `"F"`, `"G"`, `"H"`, `"I"`, `"J"`), K("Beta", `"Z"`)))}, pay()...)...))
	add("match-dup-then-other", prog("", append([]*Packet{Root("Msg", Sc("u16", "Kind"), Mt("Kind", "Body", K("Alpha", "1"), K("Alpha", "2"), K("Beta", "3"), K("Empty", "4")))}, pay()...)...))
	add("match-strlist", prog("", append([]*Packet{Root("Msg", Ds("Kind"), Mt("Kind", "Body", K("Alpha", `"A"`, `"B"`), K("Beta", `"C"`)))}, pay()...)...))
	add("match-samepacket", prog("", append([]*Packet{Root("Msg", Sc("u16", "Kind"), Mt("Kind", "Body", K("Alpha", "1"), K("Beta", "2"), K("Alpha", "3")))}, pay()...)...))
	add("match-list1", prog("", append([]*Packet{Root("Msg", Sc("u16", "Kind"), Mt("Kind", "Body", KL("Alpha", "1"), K("Beta", "2")))}, pay()...)...))
	add("match-keyafter", prog("", append([]*Packet{Root("Msg", Sc("u16", "Kind"), Sc("u32", "Seq"), Mt("Kind", "Body", K("Alpha", "1"), K("Beta", "2")), Sc("u8", "Tail"))}, pay()...)...))
	// length-of
	for _, t := range UintTypes {
		for _, pre := range []bool{false, true} {
			s := "inline"
			if pre {
				s = "prefixed"
			}
			lf := Lo(t, "BodyLen", "Body")
			lf.Prefixed = pre
			add("lenof-match-"+t+"-"+s, prog("", append([]*Packet{Root("Msg", Sc("u16", "Kind"), lf, Mt("Kind", "Body", K("Alpha", "1"), K("Beta", "2"), K("Empty", "3")))}, pay()...)...))
			lf2 := Lo(t, "BodyLen", "Body")
			lf2.Prefixed = pre
			add("lenof-obj-"+t+"-"+s, prog("", Root("Msg", lf2, Ob("Detail", "Body"), Sc("u8", "Tail")), Pk("Detail", Sc("u16", "Code"), Ds("Text"))))
		}
	}
	{
		lf := Lo("u16", "BodyLen", "Body")
		add("lenof-separated", prog("", append([]*Packet{Root("Msg", lf, Sc("u16", "Kind"), Sc("u32", "Seq"), Mt("Kind", "Body", K("Alpha", "1"), K("Beta", "2")), Sc("u8", "Tail"))}, pay()...)...))
	}
	// checksum
	for _, t := range IntTypes {
		for _, pre := range []bool{false, true} {
			s := "inline"
			if pre {
				s = "prefixed"
			}
			cf := Ck(t, "Sum", "SUM"+strings.ToUpper(t))
			cf.Prefixed = pre
			add("checksum-"+t+"-"+s, prog("", Root("Msg", Sc("u32", "Seq"), Ds("Text"), cf)))
		}
	}
	{
		cf := Ck("u32", "Sum", "SUMU32")
		add("checksum-middle", prog("", Root("Msg", Sc("u32", "Seq"), cf, Sc("u16", "Tail"))))
		cf2 := Ck("u16", "Sum", "SUMU16")
		add("checksum-nested", prog("", Root("Msg", Sc("u32", "Seq"), Ob("Inner", "")), Pk("Inner", Sc("u8", "X"), cf2)))
		cf3 := Ck("u32", "Sum", "NOSUCH")
		add("checksum-unregistered", prog("", Root("Msg", Sc("u32", "Seq"), cf3)))
	}
	for _, p := range out {
		p.Opts = TargetOpts(pkgName(p.Name))
	}
	return out
}

func pkgName(n string) string {
	s := strings.ToLower(n)
	var b strings.Builder
	for _, c := range s {
		if (c >= 'a' && c <= 'z') || (c >= '0' && c <= '9') {
			b.WriteRune(c)
		}
	}
	return "g" + b.String()
}

// ---- P2 pairs ------------------------------------------------------------------------------

type kindGen struct {
	name string
	mk   func(fieldName string) (*Field, []*Field) // field + fields that must precede it (match key)
}

func pairKinds() []kindGen {
	return []kindGen{
		{"u8", func(n string) (*Field, []*Field) { return Sc("u8", n), nil }},
		{"i32", func(n string) (*Field, []*Field) { return Sc("i32", n), nil }},
		{"f64", func(n string) (*Field, []*Field) { return Sc("f64", n), nil }},
		{"u16rep", func(n string) (*Field, []*Field) { return Rep(Sc("u16", n)), nil }},
		{"char4", func(n string) (*Field, []*Field) { return Fx(4, n, nil), nil }},
		{"char4left0", func(n string) (*Field, []*Field) { return Fx(4, n, &Pad{Left: true, Char: "'0'"}), nil }},
		{"zchar3rep", func(n string) (*Field, []*Field) { return Rep(Zc(3, n)), nil }},
		{"string", func(n string) (*Field, []*Field) { return Ds(n), nil }},
		{"stringrep", func(n string) (*Field, []*Field) { return Rep(Ds(n)), nil }},
		{"obj", func(n string) (*Field, []*Field) { return Ob("Detail", n), nil }},
		{"objrep", func(n string) (*Field, []*Field) { return Rep(Ob("Detail", n)), nil }},
		{"inline", func(n string) (*Field, []*Field) {
			return In(n+"Sub", Sc("u16", "Code"), Ds("Text")), nil
		}},
		{"inlinerep", func(n string) (*Field, []*Field) {
			return Rep(In(n+"Sub", Sc("u16", "Code"), Ds("Text"))), nil
		}},
		{"match", func(n string) (*Field, []*Field) {
			return Mt(n+"Kind", n, K("Alpha", "1"), K("Beta", "2")), []*Field{Sc("u16", n+"Kind")}
		}},
	}
}

// P2 returns every ordered pair of 14 representative kinds in one packet.
func P2() []*Program {
	var out []*Program
	ks := pairKinds()
	for _, a := range ks {
		for _, b := range ks {
			fa, pa := a.mk("First")
			fb, pb := b.mk("Second")
			var fs []*Field
			fs = append(fs, pa...)
			fs = append(fs, fa)
			fs = append(fs, pb...)
			fs = append(fs, fb)
			p := prog("P2/"+a.name+"+"+b.name,
				Root("Msg", fs...),
				Pk("Detail", Sc("u16", "Code"), Ds("Text")),
				Pk("Alpha", Sc("u32", "A1"), Ds("A2")), Pk("Beta", Sc("u8", "B1")))
			p.Opts = TargetOpts(pkgName(p.Name))
			out = append(out, p)
		}
	}
	return out
}

// ---- P3 nesting ----------------------------------------------------------------------------

// P3 returns chains of depth <= 3 over {ref object, inline object, repeated object, match payload}.
func P3() []*Program {
	var out []*Program
	leaves := []struct {
		name string
		mk   func() []*Field
	}{
		{"scalar", func() []*Field { return []*Field{Sc("u32", "Leaf")} }},
		{"string", func() []*Field { return []*Field{Ds("Leaf")} }},
		{"strrep", func() []*Field { return []*Field{Rep(Ds("Leaf"))} }},
	}
	steps := []string{"ref", "inline", "reprepeat", "match"}
	var chains [][]string
	for _, a := range steps {
		chains = append(chains, []string{a})
		for _, b := range steps {
			chains = append(chains, []string{a, b})
		}
	}
	// depth 3: a subset that ends in each step once
	for _, a := range steps {
		chains = append(chains, []string{a, steps[(indexOf(steps, a)+1)%4], steps[(indexOf(steps, a)+2)%4]})
	}
	// inline objects nested in inline objects below a payload / referenced packet (where the enclosing
	// dissector / codec is itself a sub-routine), plain and repeated
	chains = append(chains, []string{"match", "inline", "inline"}, []string{"match", "repinline", "repinline"}, []string{"match", "repinline", "inline"},
		[]string{"ref", "inline", "inline"}, []string{"ref", "repinline", "repinline"}, []string{"repinline"}, []string{"repinline", "repinline"}, []string{"match", "repinline"},
		// a packet reference / a match two inline levels down (name resolution has to descend through both)
		[]string{"inline", "inline", "ref"}, []string{"inline", "repinline", "reprepeat"}, []string{"inline", "inline", "match"})
	for _, ch := range chains {
		for _, lf := range leaves {
			var packets []*Packet
			// build from the leaf upwards
			inner := lf.mk()
			for lvl := len(ch) - 1; lvl >= 0; lvl-- {
				name := fmt.Sprintf("Lvl%d", lvl+1)
				var fields []*Field
				switch ch[lvl] {
				case "ref":
					packets = append(packets, Pk(name, inner...))
					fields = []*Field{Sc("u8", fmt.Sprintf("Pre%d", lvl)), Ob(name, fmt.Sprintf("Child%d", lvl))}
				case "reprepeat":
					packets = append(packets, Pk(name, inner...))
					fields = []*Field{Rep(Ob(name, fmt.Sprintf("Child%d", lvl))), Sc("u8", fmt.Sprintf("Post%d", lvl))}
				case "inline":
					fields = []*Field{In(name, inner...), Sc("u8", fmt.Sprintf("Post%d", lvl))}
				case "repinline":
					fields = []*Field{Sc("u8", fmt.Sprintf("Pre%d", lvl)), Rep(In(name, inner...))}
				case "match":
					packets = append(packets, Pk(name, inner...))
					other := fmt.Sprintf("Other%d", lvl+1)
					packets = append(packets, Pk(other, Sc("u16", "Z")))
					fields = []*Field{Sc("u8", fmt.Sprintf("Sel%d", lvl)), Mt(fmt.Sprintf("Sel%d", lvl), fmt.Sprintf("Child%d", lvl), K(name, "1"), K(other, "2"))}
				}
				inner = fields
			}
			// inline objects cannot hold match fields' payload packets etc.; grammar allows everything inside
			all := append([]*Packet{Root("Msg", inner...)}, packets...)
			p := prog("P3/"+strings.Join(ch, ">")+">"+lf.name, all...)
			p.Opts = TargetOpts(pkgName(p.Name))
			out = append(out, p)
		}
	}
	// recursive tree type through repeat
	rec := prog("P3/recursive-repeat", Root("Msg", Sc("u8", "Depth"), Rep(Ob("Node", "Kids"))), Pk("Node", Sc("u16", "Val"), Rep(Ob("Node", "Kids"))))
	rec.Opts = TargetOpts(pkgName(rec.Name))
	out = append(out, rec)
	return out
}

func indexOf(s []string, x string) int {
	for i, v := range s {
		if v == x {
			return i
		}
	}
	return -1
}

// ---- P4 identifier shapes --------------------------------------------------------------------

// P4 exercises the case conversions of the generators.
func P4() []*Program {
	shapes := []struct{ name, id string }{
		{"lower", "order"}, {"upper", "ORDER"}, {"lowercamel", "orderQty"}, {"uppercamel", "OrderQty"},
		{"snake", "order_qty"}, {"digits", "Order2Qty"}, {"underscore", "_order"}, {"acronym", "OrderID"},
		// a name that is, as a whole, a common initialism (naming libraries keep tables of those)
		{"initialism", "ID"},
		// a name that contains a word of the language
		{"typeword", "zcharLegacy"},
		// a name without a single letter or digit (case conversions reduce it to nothing)
		{"underscores", "__"},
		// names longer than any file-name stem, identifier or line length a tool might think of capping (64, 128)
		{"long70", "NewOrderSingleWithAllocationsAndUnderlyingInstrumentLegsRequestAckMsgs"},
		{"long130", "ExecutionReportForMultilegOrderWithNestedPartiesUnderlyingInstrumentsAndRegulatoryTradeIdentifiersPendingCancelReplaceAcknowledgementsV"},
	}
	var out []*Program
	for _, s := range shapes {
		id := s.id
		// as packet name (referenced object + match alternative)
		p := prog("P4/packet-"+s.name, Root("Msg", Sc("u16", "Kind"), Ob(id, "Obj"), Mt("Kind", "Body", K(id, "1"), K("Other", "2"))), Pk(id, Sc("u16", "Code")), Pk("Other", Sc("u8", "X")))
		out = append(out, p)
		// as root packet name
		out = append(out, prog("P4/root-"+s.name, Root(id, Sc("u16", "Code"), Ds("Text"))))
		// as field name (scalar, string, repeated)
		out = append(out, prog("P4/field-"+s.name, Root("Msg", Sc("u16", id), Ds(id+"2"), Rep(Sc("u32", id+"3")))))
		// as object field whose name differs from its type
		out = append(out, prog("P4/objfield-"+s.name, Root("Msg", Ob("Detail", id), Rep(Ob("Detail", id+"s"))), Pk("Detail", Sc("u16", "Code"))))
		// as match name and key name
		out = append(out, prog("P4/match-"+s.name, Root("Msg", Sc("u16", id+"Key"), Mt(id+"Key", id, K("Alpha", "1"), K("Beta", "2"))), Pk("Alpha", Sc("u32", "A1")), Pk("Beta", Sc("u8", "B1"))))
		// as inline object name
		out = append(out, prog("P4/inline-"+s.name, Root("Msg", In(id, Sc("u16", "Code")), Rep(In(id+"2", Sc("u8", "X"))))))
		// as length / checksum field names
		out = append(out, prog("P4/lenck-"+s.name, Root("Msg", Sc("u16", "Kind"), Lo("u16", id+"Len", "Body"), Mt("Kind", "Body", K("Alpha", "1")), Ck("u32", id+"Sum", "SUMU32")), Pk("Alpha", Sc("u32", "A1"))))
	}
	// two packets whose names collide after case folding
	out = append(out, prog("P4/collide-snake", Root("Msg", Ob("OrderQty", "A"), Ob("Order_qty", "B")), Pk("OrderQty", Sc("u16", "X")), Pk("Order_qty", Sc("u32", "Y"))))
	// two fields whose names collide after case folding
	out = append(out, prog("P4/collide-fields", Root("Msg", Sc("u16", "OrderQty"), Sc("u32", "order_qty"))))
	for _, p := range out {
		p.Opts = TargetOpts(pkgName(p.Name))
	}
	return out
}

// ---- P5 graphs ------------------------------------------------------------------------------

// P5 returns multi-packet programs with several match fields and cross references.
func P5() []*Program {
	var out []*Program
	common := func() []*Packet {
		return []*Packet{
			Pk("Alpha", Sc("u32", "A1"), Ds("A2")), Pk("Beta", Sc("u8", "B1")), Pk("Gamma", Rep(Sc("u16", "G1"))),
			Pk("Detail", Sc("u16", "Code"), Ds("Text")), Pk("Empty"),
		}
	}
	out = append(out, prog("P5/two-match", append([]*Packet{Root("Msg", Sc("u16", "KindA"), Sc("u8", "KindB"),
		Mt("KindA", "BodyA", K("Alpha", "1"), K("Beta", "2")), Mt("KindB", "BodyB", K("Gamma", "1"), K("Empty", "2"), K("Alpha", "3")))}, common()...)...))
	out = append(out, prog("P5/two-match-same-key", append([]*Packet{Root("Msg", Sc("u16", "Kind"),
		Mt("Kind", "BodyA", K("Alpha", "1"), K("Beta", "2")), Mt("Kind", "BodyB", K("Gamma", "1"), K("Empty", "2")))}, common()...)...))
	out = append(out, prog("P5/diamond", append([]*Packet{Root("Msg", Ob("Left", ""), Ob("Right", "")),
		Pk("Left", Sc("u8", "L"), Ob("Detail", "")), Pk("Right", Rep(Ob("Detail", "Items")), Sc("u8", "R"))}, common()...)...))
	out = append(out, prog("P5/nested-match", append([]*Packet{Root("Msg", Sc("u16", "Kind"), Lo("u32", "BodyLen", "Body"),
		Mt("Kind", "Body", K("Wrap", "1"), K("Alpha", "2", "3")), Ck("u32", "Sum", "SUMU32")),
		Pk("Wrap", Sc("u8", "Sub"), Mt("Sub", "Inner", K("Beta", "1"), K("Gamma", "2")), Ob("Detail", "Trailer"))}, common()...)...))
	out = append(out, prog("P5/many-refs", append([]*Packet{Root("Msg", Ob("Detail", "D1"), Ob("Detail", "D2"), Rep(Ob("Alpha", "As")), Rep(Ob("Beta", "Bs")), Ob("Gamma", ""))}, common()...)...))
	out = append(out, prog("P5/match-in-sub", append([]*Packet{Root("Msg", Sc("u8", "Ver"), Ob("Frame", "")),
		Pk("Frame", Ds("Kind"), Mt("Kind", "Body", K("Alpha", `"A"`), K("Beta", `"B"`, `"C"`)))}, common()...)...))
	// a match table inside a payload packet that is declared BEFORE its own alternatives (top-down order), and
	// whose match field has the same name as the root's (whatever is named after the field, or needs the
	// alternatives defined first, meets both)
	out = append(out, prog("P5/nested-table-top-down", Root("Msg", Sc("u8", "Kind"), Mt("Kind", "Body", K("Admin", "1"), K("Data", "2")), Sc("u8", "Tail")),
		Pk("Admin", Sc("u8", "Sub"), Mt("Sub", "Body", K("Reset", "1"), K("Logout", "2", "5"))), Pk("Data", Sc("u16", "X")),
		Pk("Reset", Sc("u8", "R")), Pk("Logout", Ds("Why"))))
	out = append(out, prog("P5/same-match-name-in-object", Root("Msg", Sc("u8", "Kind"), Ob("Inner", "First"), Mt("Kind", "Body", K("Alpha", "1"), K("Beta", "2"))),
		Pk("Inner", Sc("u16", "Sel"), Mt("Sel", "Body", K("Beta", "7"), K("Gamma", "8"))),
		Pk("Alpha", Sc("u32", "A1"), Ds("A2")), Pk("Beta", Sc("u8", "B1")), Pk("Gamma", Rep(Sc("u16", "G1")))))
	// two inline objects of one name with different layouts, reachable from the root without leaving it
	out = append(out, prog("P5/same-inline-name-in-root", Root("Msg",
		In("Buy", Sc("u8", "Side"), Rep(In("Leg", Sc("u16", "Qty"), Ds("Note")))),
		In("Sell", Sc("u16", "Venue"), Rep(In("Leg", Sc("u32", "Px"), Sc("u8", "Flag"), Sc("u16", "Qty")))), Sc("u8", "Tail"))))
	out = append(out, prog("P5/same-inline-name", Root("Msg", Ob("Buy", ""), Ob("Sell", "")),
		Pk("Buy", Sc("u8", "B"), In("Leg", Sc("u16", "Px"), Ds("Sym"))), Pk("Sell", In("Leg", Sc("u32", "Qty")), Sc("u8", "S"))))
	out = append(out, prog("P5/three-match-keys", append([]*Packet{Root("Msg", Sc("u16", "KindA"), Sc("u8", "KindB"), Ds("KindC"),
		Mt("KindA", "BodyA", K("Alpha", "1"), K("Beta", "2")), Mt("KindB", "BodyB", K("Gamma", "1"), K("Empty", "2")), Mt("KindC", "BodyC", K("Beta", `"x"`), K("Alpha", `"y"`)))}, common()...)...))
	out = append(out, prog("P5/forward-refs", Root("Msg", Ob("Zed", ""), Sc("u16", "Kind"), Mt("Kind", "Body", K("Yod", "1"), K("Zed", "2"))),
		Pk("Zed", Ob("Yod", "")), Pk("Yod", Sc("u8", "Y"))))
	for _, p := range out {
		p.Opts = TargetOpts(pkgName(p.Name))
	}
	return out
}

// Universal returns one packet holding one field of every given kind (used for option sweeps).
func Universal() *Program {
	var fs []*Field
	for _, t := range Scalars {
		if t == "char" {
			continue
		}
		fs = append(fs, Sc(t, "S"+strings.ToUpper(t[:1])+t[1:]))
		fs = append(fs, Rep(Sc(t, "R"+strings.ToUpper(t[:1])+t[1:])))
	}
	fs = append(fs, Fx(4, "FixA", nil), Rep(Fx(3, "FixB", nil)), Fx(4, "FixC", &Pad{Left: true, Char: "'0'"}), Zc(4, "FixD"), Rep(Zc(2, "FixE")))
	fs = append(fs, Ds("StrA"), Rep(Ds("StrB")), Ds2("StrC"))
	fs = append(fs, Ob("Detail", "ObjA"), Rep(Ob("Detail", "ObjB")), In("SubA", Sc("u16", "Code"), Ds("Text")), Rep(In("SubB", Sc("u8", "X"), Rep(Ds("Ys")))))
	fs = append(fs, Sc("u16", "Kind"), Mt("Kind", "Body", K("Alpha", "1"), K("Beta", "2")))
	p := prog("U/universal", Root("Msg", fs...), Pk("Detail", Sc("u16", "Code"), Ds("Text")), Pk("Alpha", Sc("u32", "A1"), Ds("A2"), Rep(Sc("i16", "A3"))), Pk("Beta", Sc("u8", "B1")))
	p.Opts = TargetOpts(pkgName(p.Name))
	return p
}

// ---- options ---------------------------------------------------------------------------------

// OptDeviation is one option set to a non-default (or explicitly default) value.
type OptDeviation struct{ Name, Value string }

// OptionValues lists, per wire-relevant option, the documented values (the first is the default).
var OptionValues = map[string][]string{
	"LittleEndian":           {"false", "true"},
	"StringPrefixLenType":    {"u16", "u8", "u32", "u64"},
	"ArrayPrefixLenType":     {"u16", "u8", "u32", "u64"},
	"FixedStringPadFromLeft": {"false", "true"},
	"FixedStringPadChar":     {"' '", "'0'", `'\x00'`},
}

// OptionNames in a fixed order.
var OptionNames = []string{"LittleEndian", "StringPrefixLenType", "ArrayPrefixLenType", "FixedStringPadFromLeft", "FixedStringPadChar"}

// OptionPoints returns all option configurations with at most k options at a non-default value.
func OptionPoints(k int) [][]OptDeviation {
	var out [][]OptDeviation
	var rec func(i int, cur []OptDeviation)
	rec = func(i int, cur []OptDeviation) {
		if i == len(OptionNames) {
			out = append(out, append([]OptDeviation(nil), cur...))
			return
		}
		rec(i+1, cur)
		if len(cur) < k {
			for _, v := range OptionValues[OptionNames[i]][1:] {
				rec(i+1, append(cur, OptDeviation{OptionNames[i], v}))
			}
		}
	}
	rec(0, nil)
	return out
}

// WithOptions returns a copy of p with the deviations applied.
func WithOptions(p *Program, devs []OptDeviation) *Program {
	q := p.Clone()
	var tag []string
	for _, d := range devs {
		q.SetOpt(d.Name, d.Value)
		tag = append(tag, d.Name+"="+d.Value)
	}
	if len(tag) > 0 {
		q.Name = p.Name + "{" + strings.Join(tag, ",") + "}"
	}
	return q
}

// P6 returns the repository's own protocols: chat/proto/chat.dsl as shipped, and
// internal/parser/testdata/sample_binary.dsl with `root` added to its first packet (as shipped it
// declares no root and the tool rejects it: its @lengthOf sits in a non-root packet).
func P6() []*Program {
	d := func(f *Field, doc string) *Field { f.Doc = doc; return f }
	al := func(f *Field) *Field { f.Alias = true; return f }
	chat := prog("P6/chat", Root("SimpleMessage", d(al(Sc("u16", "MsgType")), "消息类型"), d(Ds("JsonBody"), "Json字符串消息体")))
	chat.Opts = TargetOpts("gp6chat")
	ck := d(Ck("u32", "Ckecksum", "CRC32"), "校验和")
	ck.Prefixed = true
	sample := prog("P6/sample_binary",
		Root("SampleBinary",
			d(al(Sc("u16", "MsgType")), "消息类型"),
			d(Lo("u16", "BodyLenght", "Body"), "消息体长度"),
			Mt("MsgType", "Body", K("Logon", "1"), K("Logout", "2"), K("Heartbeat", "3"), K("RiskControlRequest", "4"), K("RiskControlResponse", "5")),
			ck),
		Pk("Logon", d(Fx(10, "UserName", &Pad{Left: true, Char: "'0'"}), "用户名"), d(Ds("Password"), "密码"), d(al(Sc("u64", "ClientId")), "客户端ID"), d(Sc("u16", "HeartbeatInterval"), "心跳间隔")),
		Pk("Logout", d(Fx(10, "UserName", &Pad{Left: false, Char: "'0'"}), "用户名"), d(al(Sc("u64", "ClientId")), "客户端ID")),
		Pk("Heartbeat"),
		Pk("RiskControlRequest",
			d(Ds("UniqueOrderId"), "唯一订单号"), d(Fx(16, "ClOrdID", nil), "客户订单号"), d(Fx(3, "MarketID", nil), "市场id"), d(Fx(12, "SecurityID", nil), "证券代码"),
			d(Sc("char", "Side"), "买卖方向"), d(Sc("char", "OrderType"), "订单类型"), d(Sc("u64", "Price"), "价格"), d(Sc("u32", "Qty"), "数量"),
			d(Rep(Ds("ExtraInfo")), "附加信息"),
			Rep(In("SubOrder", d(Fx(16, "ClOrdID", nil), "子订单号"), d(Sc("u64", "Price"), "子订单价格"), d(Sc("u32", "Qty"), "子订单数量")))),
		Pk("RiskControlResponse", d(Ds("UniqueOrderId"), "唯一订单号"), d(Sc("i32", "Status"), "状态"), d(Ds("Msg"), "结果信息"), Rep(Ob("Detail", ""))),
		Pk("Detail", d(Ds("RuleName"), "规则名称"), d(Sc("u16", "Code"), "原因代码")))
	sample.Opts = append([]Opt{{Name: "StringPrefixLenType", Value: "u16", Semi: true}, {Name: "ArrayPrefixLenType", Value: "u16", Semi: true}}, TargetOpts("gp6sample")...)
	return []*Program{chat, sample}
}
