package dsl

import (
	"fmt"
	"strings"
)

// E2: a derivation enumerator over grammar/PacketDsl.g4 as transcribed below. Every derivation
// whose *cost* (number of non-default choices: optional elements present, extra repetitions,
// expensive alternatives) is within a budget is produced exactly once. Terminals with free text
// (identifiers, digits, strings, doc strings) are placeholders that Instantiate fills in.

const (
	phIdent = "§I"
	phDigit = "§D"
	phStr   = "§S"
	phDoc   = "§L"
)

type deriv struct {
	toks []string
	cost int
}

type node interface {
	gen(budget int) []deriv
}

type tokN struct{ s string }

func (t tokN) gen(b int) []deriv { return []deriv{{[]string{t.s}, 0}} }

type seqN struct{ parts []node }

func (s seqN) gen(b int) []deriv {
	acc := []deriv{{nil, 0}}
	for _, p := range s.parts {
		var next []deriv
		for _, a := range acc {
			for _, d := range p.gen(b - a.cost) {
				if a.cost+d.cost > b {
					continue
				}
				nt := make([]string, 0, len(a.toks)+len(d.toks))
				nt = append(nt, a.toks...)
				nt = append(nt, d.toks...)
				next = append(next, deriv{nt, a.cost + d.cost})
			}
		}
		acc = next
	}
	return acc
}

// altN: alternatives with individual costs.
type altN struct {
	alts  []node
	costs []int
}

func (a altN) gen(b int) []deriv {
	var out []deriv
	for i, n := range a.alts {
		c := a.costs[i]
		if c > b {
			continue
		}
		for _, d := range n.gen(b - c) {
			out = append(out, deriv{d.toks, d.cost + c})
		}
	}
	return out
}

type optN struct{ n node }

func (o optN) gen(b int) []deriv {
	out := []deriv{{nil, 0}}
	if b >= 1 {
		for _, d := range o.n.gen(b - 1) {
			out = append(out, deriv{d.toks, d.cost + 1})
		}
	}
	return out
}

// repN: min..max repetitions; each repetition beyond min costs 1.
type repN struct {
	n        node
	min, max int
}

func (r repN) gen(b int) []deriv {
	var out []deriv
	cur := []deriv{{nil, 0}}
	for k := 0; k <= r.max; k++ {
		if k >= r.min {
			out = append(out, cur...)
		}
		if k == r.max {
			break
		}
		extra := 0
		if k >= r.min {
			extra = 1
		}
		var next []deriv
		for _, a := range cur {
			if a.cost+extra > b {
				continue
			}
			for _, d := range r.n.gen(b - a.cost - extra) {
				if a.cost+extra+d.cost > b {
					continue
				}
				nt := make([]string, 0, len(a.toks)+len(d.toks))
				nt = append(nt, a.toks...)
				nt = append(nt, d.toks...)
				next = append(next, deriv{nt, a.cost + extra + d.cost})
			}
		}
		cur = next
		if len(cur) == 0 {
			break
		}
	}
	return out
}

// lazyN allows recursion.
type lazyN struct{ f func() node }

func (l lazyN) gen(b int) []deriv {
	if b < 0 {
		return nil
	}
	return l.f().gen(b)
}

func tk(s string) node { return tokN{s} }
func seq(p ...node) node {
	return seqN{p}
}
func free(p ...node) node {
	return altN{p, make([]int, len(p))}
}
func firstFree(p ...node) node {
	c := make([]int, len(p))
	for i := 1; i < len(c); i++ {
		c[i] = 1
	}
	return altN{p, c}
}
func opt(n node) node           { return optN{n} }
func star(n node, max int) node { return repN{n, 0, max} }
func plus(n node, max int) node { return repN{n, 1, max} }

// Grammar is the transcription of grammar/PacketDsl.g4.
type Grammar struct {
	Rules map[string]node
}

// NewGrammar builds the transcription. maxRep bounds * and + repetitions.
func NewGrammar(maxRep int) *Grammar {
	g := &Grammar{Rules: map[string]node{}}
	I, D, S, L := tk(phIdent), tk(phDigit), tk(phStr), tk(phDoc)
	var basics []node
	basics = append(basics, tk("u16"))
	for _, t := range Scalars {
		if t != "u16" {
			basics = append(basics, tk(t))
		}
		if a := aliasOf[t]; a != t {
			basics = append(basics, tk(a))
		}
	}
	basic := firstFree(basics...)
	fixed := firstFree(seq(tk("char["), D, tk("]")), seq(tk("zchar["), D, tk("]")))
	dyn := firstFree(tk("string"), tk("char[]"))
	typ := free(basic, fixed, dyn)
	padc := free(tk("'0'"), tk("' '"), tk(`'\x00'`))
	value := free(typ, S, D, padc, tk("true"), tk("false"))
	optDecl := seq(I, tk("="), value, opt(tk(";")))
	optDef := seq(tk("options"), tk("{"), star(optDecl, maxRep), tk("}"))
	lenAttr := seq(tk("@lengthOf("), I, tk(")"))
	csAttr := seq(tk("@calculatedFrom("), S, tk(")"))
	tagAttr := seq(tk("@tag("), D, tk(")"))
	padAttr := seq(free(tk("@leftPad"), tk("@rightPad")), tk("("), opt(padc), tk(")"))
	fieldAttr := free(lenAttr, csAttr, tagAttr, padAttr)
	metaDecl := seq(typ, I, opt(L), tk(","))
	refMetaDecl := seq(I, I, opt(L), tk(","))
	lenField := seq(opt(typ), I, lenAttr, opt(L), tk(","))
	csField := seq(opt(typ), I, csAttr, opt(L), tk(","))
	ds := free(D, S)
	list := seq(tk("["), ds, star(seq(tk(","), ds), 6), tk("]"))
	matchPair := seq(free(D, S, list), tk(":"), I, opt(tk(",")))
	matchDecl := seq(tk("match"), I, tk("as"), I, tk("{"), plus(matchPair, maxRep), tk("}"))
	var fieldDef node
	inerObj := seq(I, tk("{"), plus(lazyN{func() node { return fieldDef }}, maxRep), tk("}"))
	fieldDef = altN{[]node{
		seq(opt(tk("repeat")), metaDecl),
		seq(opt(tk("repeat")), I, opt(I), opt(L), tk(",")),
		lenField,
		csField,
		seq(matchDecl, tk(",")),
		seq(opt(tk("repeat")), inerObj, tk(",")),
	}, []int{0, 0, 0, 0, 0, 1}}
	fieldWithAttr := seq(star(fieldAttr, 2), fieldDef)
	packetDef := seq(opt(tk("root")), tk("packet"), I, tk("{"), star(fieldWithAttr, maxRep), tk("}"))
	metaDef := seq(tk("MetaData"), I, tk("{"), star(free(metaDecl, refMetaDecl), maxRep), tk("}"))
	g.Rules["type"] = typ
	g.Rules["value"] = value
	g.Rules["optionDeclaration"] = optDecl
	g.Rules["optionDefinition"] = optDef
	g.Rules["fieldAttribute"] = fieldAttr
	g.Rules["metaDataDeclaration"] = metaDecl
	g.Rules["refMetaDataDeclaration"] = refMetaDecl
	g.Rules["lengthFieldDeclaration"] = lenField
	g.Rules["checkSumFieldDeclaration"] = csField
	g.Rules["list"] = list
	g.Rules["matchPair"] = matchPair
	g.Rules["matchFieldDeclaration"] = matchDecl
	g.Rules["inerObjectDeclaration"] = inerObj
	g.Rules["fieldDefinition"] = fieldDef
	g.Rules["fieldDefinitionWithAttribute"] = fieldWithAttr
	g.Rules["packetDefinition"] = packetDef
	g.Rules["metaDataDefinition"] = metaDef
	g.Rules["packet"] = star(free(packetDef, metaDef, optDef), 3)
	return g
}

// context wraps a derivation of a rule into a complete text (minimal surroundings).
var ruleContext = map[string][2][]string{
	"type":                         {{"packet", "P", "{"}, {"f", ",", "}"}},
	"value":                        {{"options", "{", "O", "="}, {"}"}},
	"optionDeclaration":            {{"options", "{"}, {"}"}},
	"optionDefinition":             {{}, {}},
	"fieldAttribute":               {{"packet", "P", "{"}, {"char[", "4", "]", "f", ",", "}"}},
	"metaDataDeclaration":          {{"MetaData", "M", "{"}, {"}"}},
	"refMetaDataDeclaration":       {{"MetaData", "M", "{"}, {"}"}},
	"lengthFieldDeclaration":       {{"root", "packet", "P", "{"}, {"}"}},
	"checkSumFieldDeclaration":     {{"packet", "P", "{"}, {"}"}},
	"list":                         {{"packet", "P", "{", "match", "k", "as", "m", "{"}, {":", "Q", "}", ",", "}"}},
	"matchPair":                    {{"packet", "P", "{", "match", "k", "as", "m", "{"}, {"}", ",", "}"}},
	"matchFieldDeclaration":        {{"packet", "P", "{"}, {",", "}"}},
	"inerObjectDeclaration":        {{"packet", "P", "{"}, {",", "}"}},
	"fieldDefinition":              {{"packet", "P", "{"}, {"}"}},
	"fieldDefinitionWithAttribute": {{"packet", "P", "{"}, {"}"}},
	"packetDefinition":             {{}, {}},
	"metaDataDefinition":           {{}, {}},
	"packet":                       {{}, {}},
}

// RuleNames in a fixed order.
var RuleNames = []string{"type", "value", "optionDeclaration", "optionDefinition", "fieldAttribute", "metaDataDeclaration",
	"refMetaDataDeclaration", "lengthFieldDeclaration", "checkSumFieldDeclaration", "list", "matchPair",
	"matchFieldDeclaration", "inerObjectDeclaration", "fieldDefinition", "fieldDefinitionWithAttribute",
	"packetDefinition", "metaDataDefinition", "packet"}

// Derive enumerates all complete texts (as token sequences with placeholders) in which `rule` is
// derived with cost <= budget inside its minimal context.
func (g *Grammar) Derive(rule string, budget int) [][]string {
	ctx := ruleContext[rule]
	var out [][]string
	for _, d := range g.Rules[rule].gen(budget) {
		t := make([]string, 0, len(ctx[0])+len(d.toks)+len(ctx[1]))
		t = append(t, ctx[0]...)
		t = append(t, d.toks...)
		t = append(t, ctx[1]...)
		out = append(out, t)
	}
	return out
}

// Naming policies for placeholders.
const (
	NamesUnique = iota // every identifier / digit / string distinct
	NamesSame          // every identifier the same, every digit the same (maximal clashes)
)

// Instantiate replaces placeholders.
func Instantiate(toks []string, policy int) []string {
	out := make([]string, len(toks))
	ni, nd, ns, nl := 0, 0, 0, 0
	for i, t := range toks {
		switch t {
		case phIdent:
			ni++
			if policy == NamesSame {
				out[i] = "A"
			} else {
				out[i] = fmt.Sprintf("Id%d", ni)
			}
		case phDigit:
			nd++
			if policy == NamesSame {
				out[i] = "1"
			} else {
				out[i] = fmt.Sprint(nd)
			}
		case phStr:
			ns++
			if policy == NamesSame {
				out[i] = `"s"`
			} else {
				out[i] = fmt.Sprintf(`"s%d"`, ns)
			}
		case phDoc:
			nl++
			out[i] = fmt.Sprintf("`doc %d`", nl)
		default:
			out[i] = t
		}
	}
	return out
}

// Key returns a canonical key of a token sequence.
func Key(toks []string) string { return strings.Join(toks, "\x1f") }
