package wire

import (
	"encoding/hex"
	"fmt"
	"math"
	"strconv"
	"strings"
)

// The driver line protocol (one record per line, tokens separated by single spaces):
//
//	harness -> driver
//	  ENC <id> <value>                 build the value, encode it        -> "ENC <id> <hex>" | "ERR <id> <kind> <text>"
//	  DEC <id> <packet> <hex>          decode one message from the bytes -> "DEC <id> <pos> <value>" then "REENC <id> <hex>"
//	                                                                        | "ERR <id> <kind> <text>"
//	  END
//	value := i:<type>:<bits hex>                      integer (bit pattern at the type's width)
//	       | f:<type>:<bits hex>                      float (IEEE bits at the type's width)
//	       | c:<byte decimal>                         char
//	       | s:<hex of UTF-8 bytes>                   string (s: alone = empty)
//	       | [ value* ]                               list
//	       | P:<Packet> { (name = value)* }           object of a concrete packet type (also match payloads)
//	       | nil
//	driver -> harness values use the same grammar, except that integers are printed as
//	  i:<signed or unsigned decimal> and floats as f:<bits of the value widened to 64 bits, hex>
//	  (a driver need not know the declared width; the harness normalises with the declared type).
//	ERR kinds: error (returned error / None / exception on the decode or encode path), unsupported (driver cannot build the value)

// FormatValue renders a value for the driver. f describes the field the value belongs to (nil for a root object).
func (r *RProgram) FormatValue(f *RField, pk *RPacket, v *Value) string {
	var b strings.Builder
	r.fmtValue(&b, f, pk, v, false)
	return b.String()
}

func (r *RProgram) fmtValue(b *strings.Builder, f *RField, pk *RPacket, v *Value, elem bool) {
	if f != nil && f.Repeat && !elem {
		b.WriteString("[")
		for _, e := range v.List {
			b.WriteString(" ")
			r.fmtValue(b, f, pk, e, true)
		}
		b.WriteString(" ]")
		return
	}
	kind := KObj
	if f != nil {
		kind = f.Kind
	}
	switch kind {
	case KInt, KLenOf, KChecksum:
		fmt.Fprintf(b, "i:%s:%x", f.Type, v.Bits)
	case KFloat:
		fmt.Fprintf(b, "f:%s:%x", f.Type, v.Bits)
	case KChar:
		fmt.Fprintf(b, "c:%d", v.Bits)
	case KFixStr, KDynStr:
		b.WriteString("s:" + hex.EncodeToString([]byte(v.Str)))
	case KObj, KMatch:
		tp := pk
		if f != nil && f.Kind == KObj {
			tp = f.Packet
		}
		if f != nil && f.Kind == KMatch {
			tp = r.Packets[v.Packet]
		}
		if tp == nil {
			b.WriteString("nil")
			return
		}
		fmt.Fprintf(b, "P:%s {", tp.Name)
		for i, sf := range tp.Fields {
			if i < len(v.Fields) {
				fmt.Fprintf(b, " %s = ", sf.Name)
				r.fmtValue(b, sf, nil, v.Fields[i], false)
			}
		}
		b.WriteString(" }")
	}
}

// Tree is a parsed driver value.
type Tree struct {
	Kind   byte // 'i','f','c','s','[','P','n'
	Int    string
	Bits   uint64
	Str    string
	List   []*Tree
	Packet string
	Names  []string
	Fields []*Tree
}

// ParseTree parses a value printed by a driver.
func ParseTree(s string) (*Tree, error) {
	toks := strings.Fields(s)
	t, rest, err := parseTree(toks)
	if err != nil {
		return nil, err
	}
	if len(rest) != 0 {
		return nil, fmt.Errorf("trailing tokens %v", rest)
	}
	return t, nil
}

func parseTree(toks []string) (*Tree, []string, error) {
	if len(toks) == 0 {
		return nil, nil, fmt.Errorf("unexpected end")
	}
	t := toks[0]
	switch {
	case t == "nil":
		return &Tree{Kind: 'n'}, toks[1:], nil
	case t == "[":
		tr := &Tree{Kind: '['}
		rest := toks[1:]
		for {
			if len(rest) == 0 {
				return nil, nil, fmt.Errorf("unterminated list")
			}
			if rest[0] == "]" {
				return tr, rest[1:], nil
			}
			e, r2, err := parseTree(rest)
			if err != nil {
				return nil, nil, err
			}
			tr.List = append(tr.List, e)
			rest = r2
		}
	case strings.HasPrefix(t, "P:"):
		tr := &Tree{Kind: 'P', Packet: t[2:]}
		if len(toks) < 2 || toks[1] != "{" {
			return nil, nil, fmt.Errorf("expected { after %s", t)
		}
		rest := toks[2:]
		for {
			if len(rest) == 0 {
				return nil, nil, fmt.Errorf("unterminated object")
			}
			if rest[0] == "}" {
				return tr, rest[1:], nil
			}
			if len(rest) < 3 || rest[1] != "=" {
				return nil, nil, fmt.Errorf("expected name = value near %v", rest[:min(3, len(rest))])
			}
			e, r2, err := parseTree(rest[2:])
			if err != nil {
				return nil, nil, err
			}
			tr.Names = append(tr.Names, rest[0])
			tr.Fields = append(tr.Fields, e)
			rest = r2
		}
	case strings.HasPrefix(t, "i:"):
		return &Tree{Kind: 'i', Int: t[2:]}, toks[1:], nil
	case strings.HasPrefix(t, "f:"):
		n, err := strconv.ParseUint(t[2:], 16, 64)
		if err != nil {
			return nil, nil, fmt.Errorf("bad float %s", t)
		}
		return &Tree{Kind: 'f', Bits: n}, toks[1:], nil
	case strings.HasPrefix(t, "c:"):
		n, err := strconv.ParseInt(t[2:], 10, 64)
		if err != nil {
			return nil, nil, fmt.Errorf("bad char %s", t)
		}
		return &Tree{Kind: 'c', Bits: uint64(n)}, toks[1:], nil
	case strings.HasPrefix(t, "s:"):
		b, err := hex.DecodeString(t[2:])
		if err != nil {
			return nil, nil, fmt.Errorf("bad string %s", t)
		}
		return &Tree{Kind: 's', Str: string(b)}, toks[1:], nil
	}
	return nil, nil, fmt.Errorf("unexpected token %q", t)
}

func min(a, b int) int {
	if a < b {
		return a
	}
	return b
}

// Diff is the first difference between a decoded tree and the expected value.
type Diff struct {
	Path   string
	Field  *RField // nil when the difference is about the object itself
	Class  string  // stable class of the difference (part of signatures)
	Detail string
}

func (d *Diff) String() string {
	if d == nil {
		return ""
	}
	return d.Path + ": " + d.Detail
}

// Where describes the field kind for a signature.
func (d *Diff) Where() string {
	if d.Field == nil {
		return "object"
	}
	k := d.Field.Kind.String()
	if d.Field.Kind == KLenOf || d.Field.Kind == KChecksum {
		k += " " + d.Field.Type
	}
	if d.Field.Repeat {
		k = "repeated " + k
	}
	return k
}

// Compare checks a decoded tree against the expected value of packet pk; it returns nil or the first
// difference. Names are matched convention-insensitively; a missing / nil / empty string or list are
// the same logical value (the wire cannot tell them apart).
func (r *RProgram) Compare(pk *RPacket, want *Value, got *Tree) *Diff {
	return r.cmpObj(pk.Name, nil, pk, want, got)
}

func (r *RProgram) cmpObj(path string, f *RField, pk *RPacket, want *Value, got *Tree) *Diff {
	if got == nil || got.Kind != 'P' {
		if got == nil || got.Kind == 'n' {
			return &Diff{path, f, "object missing (nil)", "object missing (nil)"}
		}
		return &Diff{path, f, "not an object", "not an object"}
	}
	if Norm(got.Packet) != Norm(pk.Name) && !(pk.Inline && strings.HasSuffix(Norm(got.Packet), Norm(pk.Name))) {
		return &Diff{path, f, "decoded as another packet type", fmt.Sprintf("decoded as packet %s, expected %s", got.Packet, pk.Name)}
	}
	idx := map[string]*Tree{}
	for i, n := range got.Names {
		idx[Norm(n)] = got.Fields[i]
	}
	for i, sf := range pk.Fields {
		g := idx[Norm(sf.Name)]
		if d := r.cmpField(path+"."+sf.Name, sf, want.Fields[i], g, false); d != nil {
			return d
		}
	}
	return nil
}

func (r *RProgram) cmpField(path string, f *RField, want *Value, got *Tree, elem bool) *Diff {
	if f.Repeat && !elem {
		var gl []*Tree
		if got != nil && got.Kind == '[' {
			gl = got.List
		} else if got != nil && got.Kind != 'n' {
			return &Diff{path, f, "not a list", "not a list"}
		}
		if len(gl) != len(want.List) {
			cls := "element count"
			switch {
			case len(gl) == 0:
				cls = "element count (no element decoded)"
			case f.Kind == KDynStr || f.Kind == KFixStr:
				// are exactly the empty elements missing?
				var nonEmpty []string
				for _, w := range want.List {
					if w.Str != "" {
						nonEmpty = append(nonEmpty, w.Str)
					}
				}
				same := len(nonEmpty) == len(gl)
				for i := 0; same && i < len(gl); i++ {
					if gl[i] == nil || gl[i].Kind != 's' || gl[i].Str != nonEmpty[i] {
						same = false
					}
				}
				if same {
					cls = "element count (empty elements dropped)"
				}
			}
			return &Diff{path, f, cls, fmt.Sprintf("%d elements, expected %d", len(gl), len(want.List))}
		}
		for i := range gl {
			if d := r.cmpField(fmt.Sprintf("%s[%d]", path, i), f, want.List[i], gl[i], true); d != nil {
				return d
			}
		}
		return nil
	}
	switch f.Kind {
	case KInt, KLenOf, KChecksum, KChar:
		if got == nil {
			return &Diff{path, f, "member missing", "member missing from the decoded object"}
		}
		var gb uint64
		switch got.Kind {
		case 'i':
			if strings.HasPrefix(got.Int, "-") {
				n, err := strconv.ParseInt(got.Int, 10, 64)
				if err != nil {
					return &Diff{path, f, "bad dump", "bad integer " + got.Int}
				}
				gb = uint64(n)
			} else {
				n, err := strconv.ParseUint(got.Int, 10, 64)
				if err != nil {
					return &Diff{path, f, "bad dump", "bad integer " + got.Int}
				}
				gb = n
			}
		case 'c':
			gb = got.Bits
		case 's':
			// a char member carried as a one-character string
			if f.Kind == KChar && len(got.Str) == 1 {
				gb = uint64(got.Str[0])
			} else {
				return &Diff{path, f, "wrong type", "a string where an integer is expected"}
			}
		default:
			return &Diff{path, f, "wrong type", fmt.Sprintf("not an integer (%c)", got.Kind)}
		}
		w := uint(8 * widthOf(f.Type))
		if w < 64 {
			gb &= (uint64(1) << w) - 1
		}
		if gb != want.Bits {
			return &Diff{path, f, "value", fmt.Sprintf("value %#x, expected %#x", gb, want.Bits)}
		}
	case KFloat:
		if got == nil || got.Kind != 'f' {
			return &Diff{path, f, "wrong type", "not a float"}
		}
		var wf float64
		if f.Type == "f32" {
			wf = float64(math.Float32frombits(uint32(want.Bits)))
		} else {
			wf = math.Float64frombits(want.Bits)
		}
		gf := math.Float64frombits(got.Bits)
		if math.IsNaN(wf) && math.IsNaN(gf) {
			return nil
		}
		if math.Float64bits(wf) != got.Bits {
			return &Diff{path, f, "value", fmt.Sprintf("float %v, expected %v", gf, wf)}
		}
	case KFixStr, KDynStr:
		gs := ""
		if got != nil && got.Kind == 's' {
			gs = got.Str
		} else if got != nil && got.Kind != 'n' {
			return &Diff{path, f, "wrong type", "not a string"}
		}
		if gs != want.Str {
			cls := "value"
			if f.Kind == KFixStr && strings.TrimSpace(strings.Trim(gs, "\x00 0")) == strings.TrimSpace(strings.Trim(want.Str, "\x00 0")) {
				cls = "padding not trimmed as declared"
			}
			return &Diff{path, f, cls, fmt.Sprintf("string %q, expected %q", gs, want.Str)}
		}
	case KObj:
		return r.cmpObj(path, f, f.Packet, want, got)
	case KMatch:
		tp := r.Packets[want.Packet]
		if tp == nil {
			return nil
		}
		return r.cmpObj(path, f, tp, want, got)
	}
	return nil
}
