package wire

import (
	"fmt"
	"math"
	"strconv"
	"strings"
)

// Value is a logical message value.
type Value struct {
	Kind   FKind
	Bits   uint64   // KInt / KChar / KLenOf / KChecksum: value as bit pattern of the field's width; KFloat: IEEE bits at the field's width
	Str    string   // KFixStr / KDynStr
	List   []*Value // repeated field: elements (Kind = element kind, IsList = true)
	IsList bool
	Packet string   // KObj / KMatch: name of the concrete packet
	Fields []*Value // KObj / KMatch: member values in declaration order
	Names  []string // member names (parallel to Fields)
}

// Message is a value of a packet with an id.
type Message struct {
	ID     string
	Packet string
	Val    *Value // Kind KObj
	Note   string // which deviation from the baseline this message is
}

func intDomain(t string) []uint64 {
	w := uint(8 * widthOf(t))
	mask := uint64(math.MaxUint64)
	if w < 64 {
		mask = (uint64(1) << w) - 1
	}
	distinct := uint64(0x0102030405060708) & mask
	if w == 8 {
		distinct = 0x5a
	}
	if Signed(t) {
		min := uint64(1) << (w - 1)
		return []uint64{1, 0, min - 1, min, mask, distinct}
	}
	return []uint64{1, 0, mask, (uint64(1) << (w - 1)), distinct} // includes a value above the signed maximum
}

func widthOf(t string) int {
	switch t {
	case "char", "u8", "i8":
		return 1
	case "u16", "i16":
		return 2
	case "u32", "i32", "f32":
		return 4
	}
	return 8
}

func floatDomain(t string) []uint64 {
	if t == "f32" {
		f := func(x float32) uint64 { return uint64(math.Float32bits(x)) }
		return []uint64{f(1.5), f(0), uint64(0x80000000), f(math.MaxFloat32), 1, f(-2.25)}
	}
	f := math.Float64bits
	return []uint64{f(1.5), f(0), uint64(0x8000000000000000), f(math.MaxFloat64), 1, f(-2.25)}
}

var charDomain = []uint64{'A', '0', 0x7f}

func dynStrDomain() []string {
	// (white space only, leading/trailing blanks: a dynamic string is its bytes, nothing is trimmed or "blank")
	return []string{"hello", "", "a", "é€😀", strings.Repeat("x", 255), strings.Repeat("y", 256), " ", "\t ", " a "}
}

// fixStrDomain: values that fit in n bytes and neither start nor end with the pad character on the
// padded side (so that the trimmed value is well defined).
func fixStrDomain(n int, pad byte, left bool) []string {
	cands := []string{strings.Repeat("x", n), "", "ab", "a", "é", "Zq9"}
	if n >= 2 {
		cands = append(cands, strings.Repeat("k", n-1))
	}
	var out []string
	seen := map[string]bool{}
	for _, c := range cands {
		if len(c) > n || seen[c] {
			continue
		}
		if len(c) > 0 {
			if left && c[0] == pad {
				continue
			}
			if !left && c[len(c)-1] == pad {
				continue
			}
			if strings.IndexByte(c, 0) >= 0 {
				continue
			}
		}
		seen[c] = true
		out = append(out, c)
	}
	return out
}

// scalarDomain returns the element domain of a non-composite field (first element = baseline).
func (r *RProgram) scalarDomain(f *RField) []*Value {
	var out []*Value
	switch f.Kind {
	case KInt, KLenOf, KChecksum:
		for _, b := range intDomain(f.Type) {
			out = append(out, &Value{Kind: f.Kind, Bits: b})
		}
		if f.Kind != KInt {
			out = out[:3] // caller-supplied values {1, 0, max}
		}
	case KFloat:
		for _, b := range floatDomain(f.Type) {
			out = append(out, &Value{Kind: KFloat, Bits: b})
		}
	case KChar:
		for _, b := range charDomain {
			out = append(out, &Value{Kind: KChar, Bits: b})
		}
	case KDynStr:
		max := 1 << 62
		if r.Cfg.StrPrefix == "u8" {
			max = 255
		}
		for _, s := range dynStrDomain() {
			if len(s) <= max {
				out = append(out, &Value{Kind: KDynStr, Str: s})
			}
		}
	case KFixStr:
		for _, s := range fixStrDomain(f.N, f.PadChar, f.PadLeft) {
			out = append(out, &Value{Kind: KFixStr, Str: s})
		}
	}
	return out
}

// keyValue turns a match-table key literal into a value of the key field.
func keyValue(key *RField, lit string) *Value {
	if strings.HasPrefix(lit, `"`) {
		return &Value{Kind: key.Kind, Str: strings.Trim(lit, `"`)}
	}
	return &Value{Kind: key.Kind, Bits: decimalKey(lit)}
}

// decimalKey reads an integer match key: DIGITS is a decimal number, leading zeros included (never octal).
func decimalKey(lit string) uint64 {
	n, err := strconv.ParseUint(lit, 10, 64)
	if err != nil {
		panic("wirespec: match key " + lit + " is not a decimal number below 2^64")
	}
	return n
}

// variants returns the alternative values of field f (index 0 = baseline). depth bounds recursion.
func (r *RProgram) variants(pk *RPacket, f *RField, depth int, listLens []int) []*Value {
	elem := func() []*Value {
		switch f.Kind {
		case KObj:
			var out []*Value
			for _, m := range r.packetVariants(f.Packet, depth+1, 1) {
				out = append(out, m)
			}
			return out
		default:
			return r.scalarDomain(f)
		}
	}
	if f.Kind == KMatch {
		return nil // handled together with its key by packetVariants
	}
	if f.Kind == KObj && f.Repeat && depth >= 3 {
		// recursion through repeat (tree types) is cut with an empty list
		return []*Value{{Kind: KObj, IsList: true}}
	}
	if depth > 8 {
		panic("wire: object nesting deeper than 8 (recursion without repeat?)")
	}
	ev := elem()
	if len(ev) == 0 {
		return nil
	}
	if !f.Repeat {
		return ev
	}
	var out []*Value
	mk := func(n int, pick func(i int) *Value) *Value {
		l := &Value{Kind: f.Kind, IsList: true}
		for i := 0; i < n; i++ {
			l.List = append(l.List, pick(i))
		}
		return l
	}
	// baseline: two elements (first two of the element domain)
	out = append(out, mk(2, func(i int) *Value { return ev[i%len(ev)] }))
	out = append(out, mk(0, nil))
	out = append(out, mk(1, func(i int) *Value { return ev[len(ev)-1] }))
	for _, n := range listLens {
		out = append(out, mk(n, func(i int) *Value { return ev[i%len(ev)] }))
	}
	if r.Cfg.ArrPrefix == "u8" && depth == 0 && f.Kind == KInt {
		// the element count crosses the signed boundary of a one-byte prefix
		out = append(out, mk(128, func(i int) *Value { return ev[i%len(ev)] }), mk(255, func(i int) *Value { return ev[i%len(ev)] }))
	}
	if len(ev) > 2 {
		out = append(out, mk(len(ev), func(i int) *Value { return ev[i] }))
	}
	return out
}

// packetVariants enumerates values of a packet with at most maxDev members off their baseline
// (plus, at depth 0, all-last and the match alternatives).
func (r *RProgram) packetVariants(pk *RPacket, depth int, maxDev int) []*Value {
	if depth > 4 {
		maxDev = 0
	}
	type choice struct {
		vals []*Value
	}
	n := len(pk.Fields)
	per := make([][]*Value, n)
	isKey := map[string]*RField{}
	for _, f := range pk.Fields {
		if f.Kind == KMatch {
			isKey[f.KeyName] = f
		}
	}
	var listLens []int
	if depth == 0 {
		listLens = []int{3}
	}
	for i, f := range pk.Fields {
		if f.Kind == KMatch {
			continue
		}
		per[i] = r.variants(pk, f, depth, listLens)
		if depth > 0 && len(per[i]) > 3 {
			per[i] = per[i][:3]
		}
	}
	// match fields: one variant per table row (key field value + payload), baseline = first row
	type matchVar struct {
		key     *Value
		payload *Value
	}
	matchVars := map[int][]matchVar{}
	for i, f := range pk.Fields {
		if f.Kind != KMatch {
			continue
		}
		key := pk.FieldByName(f.KeyName)
		if key == nil {
			continue
		}
		for ri, row := range f.Table {
			tp := r.Packets[row.Packet]
			if tp == nil {
				continue
			}
			pays := r.packetVariants(tp, depth+1, 1)
			for pi, pay := range pays {
				if ri > 0 && pi > 0 {
					break // non-first rows: baseline payload only
				}
				if pi > 2 {
					break
				}
				pv := *pay
				pv.Kind = KMatch
				matchVars[i] = append(matchVars[i], matchVar{keyValue(key, row.Key), &pv})
			}
		}
	}
	build := func(sel []int) *Value {
		v := &Value{Kind: KObj, Packet: pk.Name}
		vals := make([]*Value, n)
		keyChosen := map[string]*Value{}
		for i, f := range pk.Fields {
			if f.Kind == KMatch {
				mv := matchVars[i]
				if len(mv) == 0 {
					vals[i] = &Value{Kind: KMatch}
					continue
				}
				m := mv[sel[i]%len(mv)]
				if kc, ok := keyChosen[f.KeyName]; ok {
					// another match field on the same key already fixed the key's value: take the row it selects
					found := false
					for _, cand := range mv {
						if cand.key.Bits == kc.Bits && cand.key.Str == kc.Str {
							m = cand
							found = true
							break
						}
					}
					if !found {
						return nil // no consistent message for this combination
					}
				}
				keyChosen[f.KeyName] = m.key
				vals[i] = m.payload
				for j, g := range pk.Fields {
					if g.Name == f.KeyName {
						vals[j] = m.key
					}
				}
			}
		}
		for i, f := range pk.Fields {
			if vals[i] != nil {
				continue
			}
			if len(per[i]) == 0 {
				vals[i] = &Value{Kind: f.Kind}
				continue
			}
			vals[i] = per[i][sel[i]%len(per[i])]
		}
		for i, f := range pk.Fields {
			v.Names = append(v.Names, f.Name)
			v.Fields = append(v.Fields, vals[i])
		}
		return v
	}
	count := func(i int) int {
		if pk.Fields[i].Kind == KMatch {
			return len(matchVars[i])
		}
		if _, ok := isKey[pk.Fields[i].Name]; ok {
			return 1 // a match key's value is dictated by the chosen table row
		}
		return len(per[i])
	}
	var out []*Value
	add := func(v *Value) {
		if v != nil {
			out = append(out, v)
		}
	}
	base := make([]int, n)
	add(build(base))
	if maxDev >= 1 {
		for i := 0; i < n; i++ {
			for a := 1; a < count(i); a++ {
				s := append([]int(nil), base...)
				s[i] = a
				add(build(s))
			}
		}
	}
	if maxDev >= 2 {
		for i := 0; i < n; i++ {
			for j := i + 1; j < n; j++ {
				for a := 1; a < count(i) && a < 3; a++ {
					for b := 1; b < count(j) && b < 3; b++ {
						s := append([]int(nil), base...)
						s[i], s[j] = a, b
						add(build(s))
					}
				}
			}
		}
	}
	if depth == 0 && n > 1 {
		s := make([]int, n)
		for i := range s {
			if c := count(i); c > 0 {
				s[i] = c - 1
			}
		}
		add(build(s))
	}
	return out
}

// Messages enumerates the bounded message domain of the root packet: every message with at most
// maxDev members off the baseline, plus all-last.
func (r *RProgram) Messages(maxDev int) []*Message {
	if r.Root == nil {
		return nil
	}
	if len(r.Root.Fields) > 12 && maxDev > 1 {
		// wide packets (the universal packet): pairs of deviations would give thousands of long messages per
		// configuration; they are explored with single deviations under *more* configurations instead
		maxDev = 1
	}
	var out []*Message
	for i, v := range r.packetVariants(r.Root, 0, maxDev) {
		out = append(out, &Message{ID: fmt.Sprintf("m%d", i), Packet: r.Root.Name, Val: v})
	}
	return out
}

// UnmappedKeys returns, for the first match field of the root packet, key values outside its table.
func (r *RProgram) UnmappedKeys() (matchField *RField, key *RField, vals []*Value) {
	if r.Root == nil {
		return nil, nil, nil
	}
	for _, f := range r.Root.Fields {
		if f.Kind != KMatch {
			continue
		}
		key := r.Root.FieldByName(f.KeyName)
		if key == nil {
			continue
		}
		in := map[string]bool{}
		for _, row := range f.Table {
			if row.IsString {
				in[strings.Trim(row.Key, `"`)] = true
			} else {
				in[fmt.Sprint(decimalKey(row.Key))] = true
			}
		}
		if key.Kind == KInt {
			w := uint(8 * widthOf(key.Type))
			mask := uint64(math.MaxUint64)
			if w < 64 {
				mask = (uint64(1) << w) - 1
			}
			cands := []uint64{0, mask}
			for _, row := range f.Table {
				n := decimalKey(row.Key)
				cands = append(cands, (n+1)&mask, (n-1)&mask)
			}
			seen := map[uint64]bool{}
			for _, c := range cands {
				if in[fmt.Sprint(c)] || seen[c] {
					continue
				}
				seen[c] = true
				vals = append(vals, &Value{Kind: KInt, Bits: c})
			}
		} else {
			for _, s := range []string{"", "ZZ", "a"} {
				if !in[s] && (key.Kind != KFixStr || len(s) <= key.N) {
					vals = append(vals, &Value{Kind: key.Kind, Str: s})
				}
			}
		}
		return f, key, vals
	}
	return nil, nil, nil
}

// Clone returns a deep copy of a value.
func (v *Value) Clone() *Value {
	if v == nil {
		return nil
	}
	c := *v
	c.Names = append([]string(nil), v.Names...)
	c.List = nil
	for _, e := range v.List {
		c.List = append(c.List, e.Clone())
	}
	c.Fields = nil
	for _, f := range v.Fields {
		c.Fields = append(c.Fields, f.Clone())
	}
	return &c
}

// firstDynStr finds the first dynamic-string leaf below v that is not a list element.
func firstDynStr(v *Value) *Value {
	if v == nil || v.IsList {
		return nil
	}
	if v.Kind == KDynStr {
		return v
	}
	for _, f := range v.Fields {
		if s := firstDynStr(f); s != nil {
			return s
		}
	}
	return nil
}

// BoundaryLengthMessages returns, for every length-of field of the root packet that is at most two bytes wide,
// messages (derived from every given message whose target holds a dynamic string) in which the target's encoding
// occupies exactly the largest number of bytes the length field can express, and one byte less: the values
// at which a "does it fit" comparison written with the wrong operator changes its answer.
func (r *RProgram) BoundaryLengthMessages(base []*Message) []*Message {
	var out []*Message
	seen := map[string]bool{}
	for _, lf := range r.Root.Fields {
		if lf.Kind != KLenOf || widthOf(lf.Type) > 2 {
			continue
		}
		limit := 1<<(8*uint(widthOf(lf.Type))) - 1
		ti := -1
		for i, f := range r.Root.Fields {
			if f.Name == lf.Target {
				ti = i
			}
		}
		if ti < 0 {
			continue
		}
		strMax := 1<<(8*uint(widthOf(r.Cfg.StrPrefix))) - 1
		for _, m := range base {
			if firstDynStr(m.Val.Fields[ti]) == nil {
				continue
			}
			shape := m.Val.Fields[ti].Packet
			e := r.Encode(m)
			size := -1
			for _, sp := range e.Layout {
				if sp.Path == r.Root.Name+"."+lf.Target && sp.What == "object" {
					size = sp.Len
				}
			}
			if e.Err != "" || size < 0 {
				continue
			}
			for _, want := range []int{limit, limit - 1} {
				key := fmt.Sprintf("%s|%s|%d", lf.Name, shape, want)
				if seen[key] {
					continue
				}
				c := m.Val.Clone()
				s := firstDynStr(c.Fields[ti])
				n := len(s.Str) + want - size
				if n < 0 || n > strMax {
					continue
				}
				if want >= size {
					s.Str = s.Str + strings.Repeat("x", want-size)
				} else {
					ascii := true
					for k := 0; k < len(s.Str); k++ {
						if s.Str[k] >= 0x80 {
							ascii = false
						}
					}
					if !ascii {
						continue
					}
					s.Str = s.Str[:n]
				}
				seen[key] = true
				out = append(out, &Message{ID: fmt.Sprintf("bl%d.%s.%s", want, lf.Name, shape), Packet: m.Packet, Val: c, Note: fmt.Sprintf("target of %s occupies exactly %d bytes", lf.Name, want)})
			}
		}
	}
	return out
}
