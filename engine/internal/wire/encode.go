package wire

import (
	"encoding/binary"
	"fmt"
	"math"
)

// Span is the byte range one field (or one prefix) occupies in an encoding.
type Span struct {
	Path   string // e.g. Msg.Body.A2[1]
	Owner  string // packet (or inline object) in which the field is declared
	FName  string // field name
	What   string // "value" | "count-prefix" | "length-prefix" | "object" | "element"
	Kind   FKind
	Type   string
	Off    int
	Len    int
	Repeat bool
}

// Encoding is the reference encoding of a message.
type Encoding struct {
	Bytes  []byte
	Layout []Span
	Err    string // set when the message has no defined encoding (e.g. match key outside the table)
	// OutOfDomain is set when a length-of target is larger than its length field can express: the
	// property does not define the encoding of such a message and the checks skip it.
	OutOfDomain bool
}

type encoder struct {
	r     *RProgram
	buf   []byte
	lay   []Span
	ood   bool
	owner string
	// algorithm names the application has removed from the registry at the time of this encode
	off map[string]bool
}

// ChecksumRegistered says which algorithm names the harness runtimes register.
func ChecksumRegistered(name string) bool {
	switch name {
	case "SUMU8", "SUMU16", "SUMU32", "SUMU64", "SUMI8", "SUMI16", "SUMI32", "SUMI64", "CRC32", "SumU32Mx", "sumu16lc":
		return true
	}
	return false
}

// Checksum is the harness's algorithm: (Σ b[i]·(i+1)) · 0x0101…01 mod 2^(8w). It depends on every
// byte, on byte positions and fills all w bytes.
func Checksum(b []byte, w int) uint64 {
	var s uint64
	for i, x := range b {
		s += uint64(x) * uint64(i+1)
	}
	s *= 0x0101010101010101
	if w < 8 {
		s &= (uint64(1) << (8 * uint(w))) - 1
	}
	return s
}

func (e *encoder) putInt(v uint64, w int) {
	b := make([]byte, w)
	for i := 0; i < w; i++ {
		sh := uint(8 * i)
		if e.r.Cfg.LE {
			b[i] = byte(v >> sh)
		} else {
			b[w-1-i] = byte(v >> sh)
		}
	}
	e.buf = append(e.buf, b...)
}

func (e *encoder) span(path, what string, f *RField, off int) {
	sp := Span{Path: path, What: what, Off: off, Len: len(e.buf) - off, Owner: e.owner}
	if f != nil {
		sp.Kind, sp.Type, sp.Repeat, sp.FName = f.Kind, f.Type, f.Repeat, f.Name
	}
	e.lay = append(e.lay, sp)
}

func (e *encoder) elem(path string, f *RField, v *Value) error {
	off := len(e.buf)
	switch f.Kind {
	case KInt, KFloat, KChar:
		e.putInt(v.Bits, widthOf(f.Type))
		e.span(path, "value", f, off)
	case KDynStr:
		e.putInt(uint64(len(v.Str)), widthOf(e.r.Cfg.StrPrefix))
		e.span(path, "length-prefix", f, off)
		o2 := len(e.buf)
		e.buf = append(e.buf, v.Str...)
		e.span(path, "value", f, o2)
	case KFixStr:
		if len(v.Str) > f.N {
			return fmt.Errorf("fixed string longer than %d", f.N)
		}
		pad := make([]byte, f.N-len(v.Str))
		for i := range pad {
			pad[i] = f.PadChar
		}
		if f.PadLeft {
			e.buf = append(e.buf, pad...)
			e.buf = append(e.buf, v.Str...)
		} else {
			e.buf = append(e.buf, v.Str...)
			e.buf = append(e.buf, pad...)
		}
		e.span(path, "value", f, off)
	case KObj:
		if err := e.packet(path, f.Packet, v); err != nil {
			return err
		}
		e.span(path, "object", f, off)
	}
	return nil
}

func (e *encoder) packet(path string, pk *RPacket, v *Value) error {
	if len(v.Fields) != len(pk.Fields) {
		return fmt.Errorf("%s: value has %d members, packet %s has %d", path, len(v.Fields), pk.Name, len(pk.Fields))
	}
	patch := map[string]int{} // length field name -> offset
	prevOwner := e.owner
	defer func() { e.owner = prevOwner }()
	for i, f := range pk.Fields {
		e.owner = pk.Name
		fv := v.Fields[i]
		p := path + "." + f.Name
		off := len(e.buf)
		switch {
		case f.Kind == KLenOf:
			patch[f.Name] = off
			e.putInt(0, widthOf(f.Type))
			e.span(p, "value", f, off)
		case f.Kind == KChecksum:
			val := fv.Bits
			if ChecksumRegistered(f.Algo) && !e.off[f.Algo] {
				val = Checksum(e.buf, widthOf(f.Type))
			}
			e.putInt(val, widthOf(f.Type))
			e.span(p, "value", f, off)
		case f.Kind == KMatch:
			tp := e.r.Packets[fv.Packet]
			if tp == nil {
				return fmt.Errorf("%s: no payload", p)
			}
			if err := e.packet(p, tp, fv); err != nil {
				return err
			}
			e.span(p, "object", f, off)
		case f.Repeat:
			e.putInt(uint64(len(fv.List)), widthOf(e.r.Cfg.ArrPrefix))
			e.span(p, "count-prefix", f, off)
			for j, ev := range fv.List {
				if err := e.elem(fmt.Sprintf("%s[%d]", p, j), f, ev); err != nil {
					return err
				}
			}
		default:
			if err := e.elem(p, f, fv); err != nil {
				return err
			}
		}
		if f.LenOfBy != "" {
			if po, ok := patch[f.LenOfBy]; ok {
				lf := pk.FieldByName(f.LenOfBy)
				w := widthOf(lf.Type)
				size := uint64(len(e.buf) - off)
				if w < 8 && size >= uint64(1)<<(8*uint(w)) {
					e.ood = true
				}
				tmp := &encoder{r: e.r}
				tmp.putInt(size, w)
				copy(e.buf[po:po+w], tmp.buf)
			}
		}
	}
	return nil
}

// Encode is the reference encoder.
func (r *RProgram) Encode(m *Message) *Encoding { return r.EncodeWithout(m, nil) }

// EncodeWithout is the reference encoder at a moment when the algorithm names in off are not registered.
func (r *RProgram) EncodeWithout(m *Message, off map[string]bool) *Encoding {
	return r.encode(m, off, nil)
}

// EncodeAfter is the reference encoder writing into an output buffer that already holds pre: the result is pre
// followed by the message, span offsets are absolute, and a checksum covers every byte before its field in the
// buffer (pre included) - "the bytes that precede it in the output buffer".
func (r *RProgram) EncodeAfter(pre []byte, m *Message) *Encoding {
	return r.encode(m, nil, pre)
}

func (r *RProgram) encode(m *Message, off map[string]bool, pre []byte) *Encoding {
	e := &encoder{r: r, off: off, buf: append([]byte(nil), pre...)}
	pk := r.Packets[m.Packet]
	if pk == nil {
		return &Encoding{Err: "no packet " + m.Packet}
	}
	if err := e.packet(m.Packet, pk, m.Val); err != nil {
		return &Encoding{Err: err.Error()}
	}
	return &Encoding{Bytes: e.buf, Layout: e.lay, OutOfDomain: e.ood}
}

// WireValue returns the logical value a decoder must produce for an encoded message: identical to
// the message except that length-of and (registered) checksum members hold their wire values.
func (r *RProgram) WireValue(m *Message, enc *Encoding) *Value {
	var fix func(path string, pk *RPacket, v *Value) *Value
	fix = func(path string, pk *RPacket, v *Value) *Value {
		nv := *v
		nv.Fields = append([]*Value(nil), v.Fields...)
		for i, f := range pk.Fields {
			p := path + "." + f.Name
			switch {
			case f.Kind == KLenOf || f.Kind == KChecksum:
				for _, sp := range enc.Layout {
					if sp.Path == p && sp.What == "value" {
						nv.Fields[i] = &Value{Kind: f.Kind, Bits: readInt(enc.Bytes[sp.Off:sp.Off+sp.Len], r.Cfg.LE)}
					}
				}
			case f.Kind == KMatch:
				if tp := r.Packets[v.Fields[i].Packet]; tp != nil {
					nv.Fields[i] = fix(p, tp, v.Fields[i])
				}
			case f.Kind == KObj && !f.Repeat:
				nv.Fields[i] = fix(p, f.Packet, v.Fields[i])
			case f.Kind == KObj && f.Repeat:
				l := *v.Fields[i]
				l.List = nil
				for j, ev := range v.Fields[i].List {
					l.List = append(l.List, fix(fmt.Sprintf("%s[%d]", p, j), f.Packet, ev))
				}
				nv.Fields[i] = &l
			}
		}
		return &nv
	}
	return fix(m.Packet, r.Packets[m.Packet], m.Val)
}

func readInt(b []byte, le bool) uint64 {
	var v uint64
	if le {
		for i := len(b) - 1; i >= 0; i-- {
			v = v<<8 | uint64(b[i])
		}
	} else {
		for _, x := range b {
			v = v<<8 | uint64(x)
		}
	}
	return v
}

var _ = binary.BigEndian
var _ = math.MaxInt8
