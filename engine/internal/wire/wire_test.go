package wire

import (
	"encoding/hex"
	"testing"

	"verif/engine/internal/dsl"
)

// Hand-computed encodings: the reference model is the trusted base of C01-C06/C15, so it is pinned
// here against values worked out by hand from the property statements.

func enc(t *testing.T, p *dsl.Program, v *Value) string {
	t.Helper()
	r, err := Resolve(p)
	if err != nil {
		t.Fatal(err)
	}
	e := r.Encode(&Message{ID: "m", Packet: r.Root.Name, Val: v})
	if e.Err != "" {
		t.Fatal(e.Err)
	}
	return hex.EncodeToString(e.Bytes)
}

func obj(pk string, names []string, vals ...*Value) *Value {
	return &Value{Kind: KObj, Packet: pk, Names: names, Fields: vals}
}
func i(b uint64) *Value  { return &Value{Kind: KInt, Bits: b} }
func s(x string) *Value  { return &Value{Kind: KDynStr, Str: x} }
func fx(x string) *Value { return &Value{Kind: KFixStr, Str: x} }
func list(k FKind, e ...*Value) *Value {
	return &Value{Kind: k, IsList: true, List: e}
}

func TestScalarsAndOrder(t *testing.T) {
	p := &dsl.Program{Packets: []*dsl.Packet{dsl.Root("M", dsl.Sc("u16", "A"), dsl.Sc("i32", "B"), dsl.Sc("u8", "C"), dsl.Sc("f32", "D"))}}
	v := obj("M", nil, i(0x0102), i(0xfffffffe), i(0x7f), &Value{Kind: KFloat, Bits: 0x3fc00000})
	if got := enc(t, p, v); got != "0102"+"fffffffe"+"7f"+"3fc00000" {
		t.Fatalf("big endian: %s", got)
	}
	p.Opts = []dsl.Opt{{Name: "LittleEndian", Value: "true"}}
	if got := enc(t, p, v); got != "0201"+"feffffff"+"7f"+"0000c03f" {
		t.Fatalf("little endian: %s", got)
	}
}

func TestStringsListsPrefixes(t *testing.T) {
	p := &dsl.Program{Packets: []*dsl.Packet{dsl.Root("M", dsl.Ds("S"), dsl.Rep(dsl.Sc("u16", "L")), dsl.Rep(dsl.Ds("T")))}}
	v := obj("M", nil, s("é"), list(KInt, i(1), i(2)), list(KDynStr, s("ab"), s("")))
	// defaults: u16 prefixes, big endian; "é" is two UTF-8 bytes
	want := "0002c3a9" + "0002" + "0001" + "0002" + "0002" + "00026162" + "0000"
	if got := enc(t, p, v); got != want {
		t.Fatalf("defaults: %s want %s", got, want)
	}
	p.Opts = []dsl.Opt{{Name: "StringPrefixLenType", Value: "u8"}, {Name: "ArrayPrefixLenType", Value: "u32"}, {Name: "LittleEndian", Value: "true"}}
	want = "02c3a9" + "02000000" + "0100" + "0200" + "02000000" + "026162" + "00"
	if got := enc(t, p, v); got != want {
		t.Fatalf("u8/u32/LE: %s want %s", got, want)
	}
}

func TestFixedStrings(t *testing.T) {
	p := &dsl.Program{Packets: []*dsl.Packet{dsl.Root("M",
		dsl.Fx(4, "A", nil), dsl.Fx(4, "B", &dsl.Pad{Left: true, Char: "'0'"}), dsl.Zc(3, "C"), dsl.Fx(3, "D", &dsl.Pad{Left: false, Char: `'\x00'`}), dsl.Fx(2, "E", &dsl.Pad{Left: true}))}}
	v := obj("M", nil, fx("ab"), fx("7"), fx("z"), fx(""), fx("q"))
	want := "61622020" + "30303037" + "7a0000" + "000000" + "2071"
	if got := enc(t, p, v); got != want {
		t.Fatalf("%s want %s", got, want)
	}
	// configured padding applies to fields without attribute only; zchar keeps NUL on the right
	p.Opts = []dsl.Opt{{Name: "FixedStringPadFromLeft", Value: "true"}, {Name: "FixedStringPadChar", Value: "'0'"}}
	want = "30306162" + "30303037" + "7a0000" + "000000" + "2071"
	if got := enc(t, p, v); got != want {
		t.Fatalf("options: %s want %s", got, want)
	}
}

func TestLengthAndChecksum(t *testing.T) {
	p := &dsl.Program{Packets: []*dsl.Packet{
		dsl.Root("M", dsl.Sc("u8", "K"), dsl.Lo("u16", "Len", "Body"), dsl.Mt("K", "Body", dsl.K("A", "1"), dsl.K("E", "2")), dsl.Ck("u16", "Sum", "SUMU16")),
		dsl.Pk("A", dsl.Sc("u16", "X"), dsl.Ds("Y")), dsl.Pk("E")}}
	r, _ := Resolve(p)
	body := &Value{Kind: KMatch, Packet: "A", Fields: []*Value{i(0x0a0b), s("hi")}}
	v := obj("M", nil, i(1), &Value{Kind: KLenOf, Bits: 0xffff}, body, &Value{Kind: KChecksum, Bits: 7})
	e := r.Encode(&Message{Packet: "M", Val: v})
	// K=01, Len=0006 (caller's ffff ignored), body = 0a0b 0002 6869, checksum over the 9 bytes before it
	prefix := []byte{0x01, 0x00, 0x06, 0x0a, 0x0b, 0x00, 0x02, 0x68, 0x69}
	var sum uint64
	for k, b := range prefix {
		sum += uint64(b) * uint64(k+1)
	}
	sum = (sum * 0x0101010101010101) & 0xffff
	want := hex.EncodeToString(prefix) + hex.EncodeToString([]byte{byte(sum >> 8), byte(sum)})
	if got := hex.EncodeToString(e.Bytes); got != want {
		t.Fatalf("%s want %s", got, want)
	}
	// empty alternative: length 0; unregistered algorithm: caller's value
	p2 := &dsl.Program{Packets: []*dsl.Packet{
		dsl.Root("M", dsl.Sc("u8", "K"), dsl.Lo("u16", "Len", "Body"), dsl.Mt("K", "Body", dsl.K("A", "1"), dsl.K("E", "2")), dsl.Ck("u16", "Sum", "NOSUCH")),
		dsl.Pk("A", dsl.Sc("u16", "X")), dsl.Pk("E")}}
	v2 := obj("M", nil, i(2), &Value{Kind: KLenOf, Bits: 9}, &Value{Kind: KMatch, Packet: "E"}, &Value{Kind: KChecksum, Bits: 0x1234})
	if got := enc(t, p2, v2); got != "02"+"0000"+"1234" {
		t.Fatalf("empty/unregistered: %s", got)
	}
	// wire value: the decoder must return the wire length / checksum, not the caller's
	wv := r.WireValue(&Message{Packet: "M", Val: v}, e)
	if wv.Fields[1].Bits != 6 || wv.Fields[3].Bits != sum {
		t.Fatalf("wire value %v %v", wv.Fields[1].Bits, wv.Fields[3].Bits)
	}
}

func TestLayoutSpans(t *testing.T) {
	p := &dsl.Program{Packets: []*dsl.Packet{dsl.Root("M", dsl.Sc("u8", "A"), dsl.Rep(dsl.Ds("T")), dsl.In("Sub", dsl.Sc("u32", "Z")))}}
	r, _ := Resolve(p)
	v := obj("M", nil, i(1), list(KDynStr, s("ab")), &Value{Kind: KObj, Packet: "Sub", Fields: []*Value{i(5)}})
	e := r.Encode(&Message{Packet: "M", Val: v})
	type sp struct {
		path, what string
		off, ln    int
	}
	var got []sp
	for _, x := range e.Layout {
		got = append(got, sp{x.Path, x.What, x.Off, x.Len})
	}
	want := []sp{{"M.A", "value", 0, 1}, {"M.T", "count-prefix", 1, 2}, {"M.T[0]", "length-prefix", 3, 2}, {"M.T[0]", "value", 5, 2}, {"M.Sub.Z", "value", 7, 4}, {"M.Sub", "object", 7, 4}}
	if len(got) != len(want) {
		t.Fatalf("layout %v", got)
	}
	for k := range want {
		if got[k] != want[k] {
			t.Fatalf("span %d: %v want %v", k, got[k], want[k])
		}
	}
	if e.Layout[4].Owner != "Sub" || e.Layout[4].FName != "Z" {
		t.Fatalf("owner %q field %q", e.Layout[4].Owner, e.Layout[4].FName)
	}
}

func TestMessagesConsistentKeys(t *testing.T) {
	// two match fields on one key: every enumerated message must select both payloads by the same key value
	p := &dsl.Program{Packets: []*dsl.Packet{
		dsl.Root("M", dsl.Sc("u16", "K"), dsl.Mt("K", "A", dsl.K("P", "1"), dsl.K("Q", "2")), dsl.Mt("K", "B", dsl.K("R", "1"), dsl.K("S", "2"))),
		dsl.Pk("P", dsl.Sc("u8", "X")), dsl.Pk("Q"), dsl.Pk("R"), dsl.Pk("S", dsl.Sc("u8", "Y"))}}
	r, _ := Resolve(p)
	msgs := r.Messages(2)
	if len(msgs) == 0 {
		t.Fatal("no messages")
	}
	seen := map[string]bool{}
	for _, m := range msgs {
		k, a, b := m.Val.Fields[0].Bits, m.Val.Fields[1].Packet, m.Val.Fields[2].Packet
		switch {
		case k == 1 && a == "P" && b == "R", k == 2 && a == "Q" && b == "S":
			seen[a] = true
		default:
			t.Fatalf("inconsistent message: key %d payloads %s %s", k, a, b)
		}
	}
	if !seen["P"] || !seen["Q"] {
		t.Fatalf("not every alternative is carried: %v", seen)
	}
}

func TestTreeRoundTrip(t *testing.T) {
	p := &dsl.Program{Packets: []*dsl.Packet{dsl.Root("M", dsl.Sc("i8", "A"), dsl.Rep(dsl.Ds("T")), dsl.Fx(3, "F", nil))}}
	r, _ := Resolve(p)
	v := obj("M", nil, i(0xff), list(KDynStr, s("ab"), s("")), fx("x"))
	// a dump as a Java driver would print it: signed decimals, empty string as nil
	tr, err := ParseTree("P:M { a = i:-1 t = [ s:6162 nil ] f = s:78 }")
	if err != nil {
		t.Fatal(err)
	}
	if d := r.Compare(r.Root, v, tr); d != nil {
		t.Fatalf("unexpected diff %s", d)
	}
	tr2, _ := ParseTree("P:M { A = i:255 T = [ s:6162 ] F = s:78 }")
	d := r.Compare(r.Root, v, tr2)
	if d == nil || d.Class != "element count (empty elements dropped)" {
		t.Fatalf("want element count diff, got %v", d)
	}
}
