// Package wire is the reference model of the wire format ("wirespec"): what a PacketDSL program means
// (sem.go), the bounded message domains (values.go), the reference encoder with its layout
// (encode.go) and the text form in which messages travel to and from the target-language drivers
// (tree.go). It is written from the property statements and the readme, not from the generators.
package wire

import (
	"fmt"
	"strings"

	"verif/engine/internal/dsl"
)

// FKind is the semantic kind of a field.
type FKind int

const (
	KInt FKind = iota
	KFloat
	KChar
	KFixStr
	KDynStr
	KObj
	KMatch
	KLenOf
	KChecksum
)

func (k FKind) String() string {
	return [...]string{"int", "float", "char", "fixstr", "dynstr", "obj", "match", "lenof", "checksum"}[k]
}

// Alt is one row of a resolved match table.
type Alt struct {
	Key      string // literal as written: 1 or "A"
	IsString bool
	Packet   string
}

// RField is a resolved field.
type RField struct {
	Name    string
	Kind    FKind
	Type    string // basic type for KInt/KFloat/KChar/KLenOf/KChecksum
	N       int
	PadChar byte
	PadLeft bool
	Repeat  bool
	Packet  *RPacket // KObj
	Inline  bool
	KeyName string // KMatch: key field
	Table   []Alt
	Target  string // KLenOf
	Algo    string // KChecksum: algorithm name without quotes
	LenOfBy string // name of the length field that measures this field ("" if none)
}

// RPacket is a resolved packet or inline object.
type RPacket struct {
	Name   string
	Root   bool
	Inline bool
	Fields []*RField
}

// Config is the effective option configuration.
type Config struct {
	LE        bool
	StrPrefix string
	ArrPrefix string
	PadChar   byte
	PadLeft   bool
}

// RProgram is a resolved program.
type RProgram struct {
	Src     *dsl.Program
	Cfg     Config
	Packets map[string]*RPacket
	Order   []*RPacket
	Root    *RPacket
}

func padByte(lit string) byte {
	switch lit {
	case "'0'":
		return '0'
	case "' '", "":
		return ' '
	case `'\x00'`:
		return 0
	}
	panic("padByte: " + lit)
}

// Resolve computes the meaning of a program.
func Resolve(p *dsl.Program) (*RProgram, error) {
	r := &RProgram{Src: p, Packets: map[string]*RPacket{}}
	r.Cfg = Config{StrPrefix: "u16", ArrPrefix: "u16", PadChar: ' '}
	for _, o := range p.Opts {
		switch o.Name {
		case "LittleEndian":
			r.Cfg.LE = o.Value == "true"
		case "StringPrefixLenType":
			r.Cfg.StrPrefix = o.Value
		case "ArrayPrefixLenType":
			r.Cfg.ArrPrefix = o.Value
		case "FixedStringPadFromLeft":
			r.Cfg.PadLeft = o.Value == "true"
		case "FixedStringPadChar":
			r.Cfg.PadChar = padByte(o.Value)
		}
	}
	for _, pk := range p.Packets {
		rp := &RPacket{Name: pk.Name, Root: pk.Root}
		r.Packets[pk.Name] = rp
		r.Order = append(r.Order, rp)
		if pk.Root {
			r.Root = rp
		}
	}
	for _, pk := range p.Packets {
		fs, err := r.resolveFields(pk.Fields)
		if err != nil {
			return nil, fmt.Errorf("%s: %w", pk.Name, err)
		}
		r.Packets[pk.Name].Fields = fs
	}
	return r, nil
}

func (r *RProgram) resolveFields(fields []*dsl.Field) ([]*RField, error) {
	var out []*RField
	for _, f := range fields {
		rf := &RField{Name: f.FieldName(), Repeat: f.Repeat, PadChar: r.Cfg.PadChar, PadLeft: r.Cfg.PadLeft}
		kind, typ, n := f.Kind, f.Type, f.N
		if f.Kind == dsl.MetaRef {
			e := r.Src.MetaEntryByName(f.Ref)
			for e != nil && e.Kind == dsl.MetaRef {
				e = r.Src.MetaEntryByName(e.Ref)
			}
			if e == nil {
				return nil, fmt.Errorf("unknown MetaData entry %s", f.Ref)
			}
			kind, typ, n = e.Kind, e.Type, e.N
		}
		switch kind {
		case dsl.Scalar:
			rf.Type = typ
			switch {
			case typ == "char":
				rf.Kind = KChar
			case typ[0] == 'f':
				rf.Kind = KFloat
			default:
				rf.Kind = KInt
			}
		case dsl.FixStr:
			rf.Kind = KFixStr
			rf.N = n
			if typ == "zchar" {
				rf.PadChar, rf.PadLeft = 0, false
			}
			if f.Pad != nil {
				rf.PadChar, rf.PadLeft = padByte(f.Pad.Char), f.Pad.Left
			}
		case dsl.DynStr:
			rf.Kind = KDynStr
		case dsl.Obj:
			rf.Kind = KObj
			rp, ok := r.Packets[f.Ref]
			if !ok {
				return nil, fmt.Errorf("unknown packet %s", f.Ref)
			}
			rf.Packet = rp
		case dsl.Inline:
			rf.Kind = KObj
			rf.Inline = true
			sub, err := r.resolveFields(f.Sub)
			if err != nil {
				return nil, err
			}
			rf.Packet = &RPacket{Name: f.Ref, Inline: true, Fields: sub}
			rf.Name = f.Ref
		case dsl.Match:
			rf.Kind = KMatch
			rf.KeyName = f.Key
			for _, pr := range f.Pairs {
				for _, k := range pr.Keys {
					rf.Table = append(rf.Table, Alt{Key: k, IsString: strings.HasPrefix(k, `"`), Packet: pr.Packet})
				}
			}
		case dsl.LenOf:
			rf.Kind = KLenOf
			rf.Type = typ
			rf.Target = f.Target
		case dsl.Checksum:
			rf.Kind = KChecksum
			rf.Type = typ
			rf.Algo = strings.Trim(f.Algo, `"`)
		}
		out = append(out, rf)
	}
	for _, rf := range out {
		if rf.Kind == KLenOf {
			for _, t := range out {
				if t.Name == rf.Target {
					t.LenOfBy = rf.Name
				}
			}
		}
	}
	return out, nil
}

// FieldByName finds a field of a packet.
func (p *RPacket) FieldByName(n string) *RField {
	for _, f := range p.Fields {
		if f.Name == n {
			return f
		}
	}
	return nil
}

// Signed reports whether a basic type is a signed integer.
func Signed(t string) bool { return t[0] == 'i' }

// Norm normalises an identifier for convention-insensitive matching.
func Norm(s string) string {
	return strings.ToLower(strings.ReplaceAll(s, "_", ""))
}
