package luai

import (
	"encoding/binary"
	"fmt"
	"math"
)

// Recording stubs of the Wireshark Lua API the emitted dissectors use.

// ProtoField is a declared field.
type ProtoField struct {
	Kind string // uint32, string, ...
	Abbr string
	Name string
}

func (p *ProtoField) String() string { return "ProtoField(" + p.Abbr + ")" }

// Proto is a protocol object.
type Proto struct {
	Name, Desc string
	Fields     *Table
	Dissector  Value
}

func (p *Proto) Index(in *Interp, key Value) (Value, error) {
	switch key {
	case "fields":
		return p.Fields, nil
	case "dissector":
		return p.Dissector, nil
	case "name":
		return p.Name, nil
	case "description":
		return p.Desc, nil
	}
	return nil, nil
}

func (p *Proto) NewIndex(in *Interp, key, val Value) error {
	switch key {
	case "dissector":
		p.Dissector = val
	case "fields":
		if t, ok := val.(*Table); ok {
			p.Fields = t
		}
	}
	return nil
}

// AddRec is one tree:add / tree:le_add call.
type AddRec struct {
	What    string // "field" | "proto" | "text"
	Abbr    string // field abbreviation
	Text    string
	Off     int
	Len     int
	LE      bool
	NoRange bool
}

// RangeRec is one buf(offset, len) call.
type RangeRec struct {
	Off, Len int
	OK       bool
}

// Session records one dissection.
type Session struct {
	Data   []byte
	Adds   []AddRec
	Ranges []RangeRec
	Cols   map[string]string
}

// Tvb is the buffer object: callable, buf(offset[, len]) -> TvbRange.
type Tvb struct{ s *Session }

func toInt(v Value) (int, bool) {
	f, ok := v.(float64)
	if !ok || f != math.Trunc(f) || math.Abs(f) > 1<<40 {
		return 0, false
	}
	return int(f), true
}

func (t *Tvb) Call(in *Interp, args []Value) ([]Value, error) {
	off := 0
	if len(args) > 0 && args[0] != nil {
		o, ok := toInt(args[0])
		if !ok {
			return nil, fmt.Errorf("bad argument #1 to Tvb (integer expected, got %s)", ToString(args[0]))
		}
		off = o
	}
	ln := -1
	if len(args) > 1 && args[1] != nil {
		l, ok := toInt(args[1])
		if !ok {
			return nil, fmt.Errorf("bad argument #2 to Tvb (integer expected, got %s)", ToString(args[1]))
		}
		ln = l
	}
	if ln < 0 {
		ln = len(t.s.Data) - off
	}
	ok := off >= 0 && ln >= 0 && off+ln <= len(t.s.Data) && !(ln > 0 && off >= len(t.s.Data))
	t.s.Ranges = append(t.s.Ranges, RangeRec{off, ln, ok})
	if !ok {
		return nil, fmt.Errorf("Range is out of bounds (offset %d, length %d, buffer %d)", off, ln, len(t.s.Data))
	}
	return []Value{&TvbRange{t.s, off, ln}}, nil
}

func (t *Tvb) Index(in *Interp, key Value) (Value, error) {
	switch key {
	case "len":
		return &Builtin{"Tvb:len", func(in *Interp, a []Value) ([]Value, error) { return []Value{float64(len(t.s.Data))}, nil }}, nil
	case "range":
		return &Builtin{"Tvb:range", func(in *Interp, a []Value) ([]Value, error) { return t.Call(in, a[1:]) }}, nil
	}
	return nil, nil
}

// TvbRange is a byte range of the buffer.
type TvbRange struct {
	s        *Session
	Off, Len int
}

func (r *TvbRange) String() string { return fmt.Sprintf("TvbRange(%d,%d)", r.Off, r.Len) }

func (r *TvbRange) bytes() []byte { return r.s.Data[r.Off : r.Off+r.Len] }

func (r *TvbRange) uintN(le bool, max int, what string) (uint64, error) {
	if r.Len < 1 || r.Len > max {
		return 0, fmt.Errorf("TvbRange:%s() does not work on %d byte(s)", what, r.Len)
	}
	b := r.bytes()
	var v uint64
	if le {
		for i := len(b) - 1; i >= 0; i-- {
			v = v<<8 | uint64(b[i])
		}
	} else {
		for _, x := range b {
			v = v<<8 | uint64(x)
		}
	}
	return v, nil
}

func (r *TvbRange) Index(in *Interp, key Value) (Value, error) {
	name, _ := key.(string)
	mk := func(f func() (Value, error)) Value {
		return &Builtin{"TvbRange:" + name, func(in *Interp, a []Value) ([]Value, error) {
			v, err := f()
			return []Value{v}, err
		}}
	}
	signed := func(v uint64, n int) float64 {
		sh := uint(64 - 8*n)
		return float64(int64(v<<sh) >> sh)
	}
	switch name {
	case "uint", "le_uint":
		return mk(func() (Value, error) {
			v, err := r.uintN(name == "le_uint", 4, name)
			return float64(v), err
		}), nil
	case "int", "le_int":
		return mk(func() (Value, error) {
			v, err := r.uintN(name == "le_int", 4, name)
			return signed(v, r.Len), err
		}), nil
	case "uint64", "le_uint64":
		return mk(func() (Value, error) {
			v, err := r.uintN(name == "le_uint64", 8, name)
			return float64(v), err
		}), nil
	case "int64", "le_int64":
		return mk(func() (Value, error) {
			v, err := r.uintN(name == "le_int64", 8, name)
			return signed(v, r.Len), err
		}), nil
	case "float", "le_float":
		return mk(func() (Value, error) {
			b := r.bytes()
			le := name == "le_float"
			switch r.Len {
			case 4:
				if le {
					return float64(math.Float32frombits(binary.LittleEndian.Uint32(b))), nil
				}
				return float64(math.Float32frombits(binary.BigEndian.Uint32(b))), nil
			case 8:
				if le {
					return math.Float64frombits(binary.LittleEndian.Uint64(b)), nil
				}
				return math.Float64frombits(binary.BigEndian.Uint64(b)), nil
			}
			return nil, fmt.Errorf("TvbRange:%s() does not work on %d byte(s)", name, r.Len)
		}), nil
	case "string", "stringz", "raw":
		return mk(func() (Value, error) { return string(r.bytes()), nil }), nil
	case "len":
		return mk(func() (Value, error) { return float64(r.Len), nil }), nil
	case "offset":
		return mk(func() (Value, error) { return float64(r.Off), nil }), nil
	}
	return nil, nil
}

// TreeItem is a node of the dissection tree.
type TreeItem struct{ s *Session }

func (t *TreeItem) String() string { return "TreeItem" }

func (t *TreeItem) add(le bool, args []Value) ([]Value, error) {
	// args[0] is self
	if len(args) < 2 {
		return nil, fmt.Errorf("TreeItem:add needs at least a field, protocol or text")
	}
	rec := AddRec{LE: le, NoRange: true}
	switch x := args[1].(type) {
	case *ProtoField:
		rec.What, rec.Abbr = "field", x.Abbr
	case *Proto:
		rec.What, rec.Abbr = "proto", x.Name
	case string:
		rec.What, rec.Text = "text", x
	case float64:
		rec.What, rec.Text = "text", ToString(x)
	case nil:
		return nil, fmt.Errorf("bad argument #1 to 'add' (ProtoField, Proto or text expected, got nil)")
	default:
		rec.What, rec.Text = "text", ToString(x)
	}
	for _, a := range args[2:] {
		if r, ok := a.(*TvbRange); ok {
			rec.Off, rec.Len, rec.NoRange = r.Off, r.Len, false
			break
		}
	}
	if len(args) > 3 {
		if s, ok := args[3].(string); ok && rec.Text == "" {
			rec.Text = s
		}
	}
	t.s.Adds = append(t.s.Adds, rec)
	return []Value{&TreeItem{t.s}}, nil
}

func (t *TreeItem) Index(in *Interp, key Value) (Value, error) {
	switch key {
	case "add":
		return &Builtin{"TreeItem:add", func(in *Interp, a []Value) ([]Value, error) { return t.add(false, a) }}, nil
	case "le_add":
		return &Builtin{"TreeItem:le_add", func(in *Interp, a []Value) ([]Value, error) { return t.add(true, a) }}, nil
	case "append_text", "set_text", "prepend_text", "set_len", "set_generated", "set_hidden", "add_expert_info":
		return &Builtin{"TreeItem:" + key.(string), func(in *Interp, a []Value) ([]Value, error) { return []Value{t}, nil }}, nil
	}
	return nil, nil
}

// Column is pinfo.cols.info.
type Column struct {
	s    *Session
	name string
}

func (c *Column) String() string { return c.s.Cols[c.name] }

func (c *Column) Index(in *Interp, key Value) (Value, error) {
	switch key {
	case "set":
		return &Builtin{"Column:set", func(in *Interp, a []Value) ([]Value, error) {
			c.s.Cols[c.name] = ToString(arg(a, 1))
			return nil, nil
		}}, nil
	case "append", "prepend":
		return &Builtin{"Column:append", func(in *Interp, a []Value) ([]Value, error) {
			c.s.Cols[c.name] += ToString(arg(a, 1))
			return nil, nil
		}}, nil
	case "clear", "fence", "clear_fence":
		return &Builtin{"Column:clear", func(in *Interp, a []Value) ([]Value, error) { return nil, nil }}, nil
	}
	return nil, nil
}

// Columns is pinfo.cols.
type Columns struct{ s *Session }

func (c *Columns) Index(in *Interp, key Value) (Value, error) {
	n, _ := key.(string)
	return &Column{c.s, n}, nil
}

func (c *Columns) NewIndex(in *Interp, key, val Value) error {
	n, _ := key.(string)
	c.s.Cols[n] = ToString(val)
	return nil
}

// Host is a loaded dissector script.
type Host struct {
	In         *Interp
	Protos     []*Proto
	Registered map[float64]*Proto // tcp.port -> proto
}

// Load executes an emitted script's top-level chunk against the stubs.
func Load(src string) (*Host, error) {
	in := New()
	h := &Host{In: in, Registered: map[float64]*Proto{}}
	in.Globals.Set("Proto", &Builtin{"Proto", func(in *Interp, a []Value) ([]Value, error) {
		name, ok := arg(a, 0).(string)
		if !ok {
			return nil, fmt.Errorf("bad argument #1 to 'Proto' (string expected)")
		}
		desc, _ := arg(a, 1).(string)
		p := &Proto{Name: name, Desc: desc, Fields: NewTable()}
		h.Protos = append(h.Protos, p)
		return []Value{p}, nil
	}})
	pf := NewTable()
	for _, k := range []string{"uint8", "uint16", "uint24", "uint32", "uint64", "int8", "int16", "int24", "int32", "int64", "int", "float", "double", "char", "string", "stringz", "bytes", "bool", "new", "none"} {
		k := k
		pf.Set(k, &Builtin{"ProtoField." + k, func(in *Interp, a []Value) ([]Value, error) {
			abbr, ok := arg(a, 0).(string)
			if !ok {
				return nil, fmt.Errorf("bad argument #1 to 'ProtoField.%s' (string expected, got %s)", k, typeName(arg(a, 0)))
			}
			name, _ := arg(a, 1).(string)
			return []Value{&ProtoField{Kind: k, Abbr: abbr, Name: name}}, nil
		}})
	}
	in.Globals.Set("ProtoField", pf)
	base := NewTable()
	for i, k := range []string{"NONE", "DEC", "HEX", "OCT", "DEC_HEX", "HEX_DEC", "UNIT_STRING", "ASCII", "UNICODE"} {
		base.Set(k, float64(i))
	}
	in.Globals.Set("base", base)
	dt := NewTable()
	dt.Set("get", &Builtin{"DissectorTable.get", func(in *Interp, a []Value) ([]Value, error) {
		t := NewTable()
		t.Set("add", &Builtin{"DissectorTable:add", func(in *Interp, a []Value) ([]Value, error) {
			port, _ := arg(a, 1).(float64)
			p, ok := arg(a, 2).(*Proto)
			if !ok {
				return nil, fmt.Errorf("bad argument #2 to 'add' (Proto expected, got %s)", typeName(arg(a, 2)))
			}
			h.Registered[port] = p
			return nil, nil
		}})
		return []Value{t}, nil
	}})
	in.Globals.Set("DissectorTable", dt)
	if err := in.Exec(src); err != nil {
		return nil, err
	}
	return h, nil
}

// Dissect runs the registered dissector over data.
func (h *Host) Dissect(data []byte) (*Session, map[string]Value, error) {
	var p *Proto
	for _, x := range h.Registered {
		p = x
	}
	if p == nil {
		return nil, nil, fmt.Errorf("no dissector registered")
	}
	if p.Dissector == nil {
		return nil, nil, fmt.Errorf("the registered protocol has no dissector function")
	}
	s := &Session{Data: data, Cols: map[string]string{}}
	pinfo := NewTable()
	pinfo.Set("cols", &Columns{s})
	h.In.steps = 0
	_, locals, err := h.In.CallFunction(p.Dissector, &Tvb{s}, pinfo, &TreeItem{s})
	return s, locals, err
}
