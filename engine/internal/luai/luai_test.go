package luai

import (
	"strings"
	"testing"
)

const good = `
-- hand written dissector
local p = Proto("T", "T Protocol")
local fields = {
    -- comment inside constructor
    t_a = ProtoField.uint32("t.a", "A", base.DEC),
    t_s = ProtoField.string("t.s", "S"),
}
for _, field in pairs(fields) do
    p.fields[field] = field
end

local function dissect_sub(buf, pinfo, tree, offset)
    local subtree = tree:add(p, buf(offset, 1), "Sub")
    subtree:add(fields.t_a, buf(offset, 2))
    offset = offset + 2
    return offset
end

function p.dissector(buf, pinfo, tree)
    pinfo.cols.protocol = "t"
    local offset = 0
    local n = buf(offset, 1):uint()
    tree:add("N Size: ".. n, buf(offset, 1))
    offset = offset + 1
    for i=1,n do
        offset = dissect_sub(buf, pinfo, tree, offset)
        pinfo.cols.info:append(" x["..i.."]")
    end
    local len = buf(offset, 2):le_uint()
    offset = offset + 2
    tree:le_add(fields.t_s, buf(offset, len))
    offset = offset + len
    if n == 2 then -- two
        pinfo.cols.info:set("two")
    elseif n == 3 then
        pinfo.cols.info:set("three")
    end
end

local tcp_table = DissectorTable.get("tcp.port")
tcp_table:add(8080, p)
`

func TestGoodDissector(t *testing.T) {
	h, err := Load(good)
	if err != nil {
		t.Fatal(err)
	}
	data := []byte{2, 0, 1, 0, 2, 3, 0, 'a', 'b', 'c'}
	s, locals, err := h.Dissect(data)
	if err != nil {
		t.Fatal(err)
	}
	if locals["offset"] != float64(10) {
		t.Fatalf("final offset %v", locals["offset"])
	}
	var got []string
	for _, a := range s.Adds {
		got = append(got, a.What+":"+a.Abbr+":"+ToString(float64(a.Off))+"+"+ToString(float64(a.Len)))
	}
	want := "text::0+1 proto:T:1+1 field:t.a:1+2 proto:T:3+1 field:t.a:3+2 field:t.s:7+3"
	if strings.Join(got, " ") != want {
		t.Fatalf("adds %v", got)
	}
	if !s.Adds[len(s.Adds)-1].LE {
		t.Fatal("le_add not recorded")
	}
	if s.Cols["protocol"] != "t" || s.Cols["info"] != "two" {
		t.Fatalf("cols %v", s.Cols)
	}
}

func TestFaults(t *testing.T) {
	cases := map[string]string{
		// a local function declared below its caller is invisible (the caller sees the global, which is nil)
		"attempt to call a nil value": `
local p = Proto("T", "T")
local function a(buf) return b(buf) end
local function b(buf) return 1 end
function p.dissector(buf, pinfo, tree) a(buf) end
DissectorTable.get("tcp.port"):add(1, p)`,
		"Range is out of bounds": `
local p = Proto("T", "T")
function p.dissector(buf, pinfo, tree) tree:add("x", buf(5, 2)) end
DissectorTable.get("tcp.port"):add(1, p)`,
		"attempt to index a nil value": `
local p = Proto("T", "T")
function p.dissector(buf, pinfo, tree) local x = nothing.field end
DissectorTable.get("tcp.port"):add(1, p)`,
		"does not work on 5 byte": `
local p = Proto("T", "T")
function p.dissector(buf, pinfo, tree) local x = buf(0, 5):uint() end
DissectorTable.get("tcp.port"):add(1, p)`,
	}
	for want, src := range cases {
		h, err := Load(src)
		if err != nil {
			t.Fatalf("%s: load: %v", want, err)
		}
		_, _, err = h.Dissect([]byte{1, 2, 3, 4, 5, 6})
		if err == nil || !strings.Contains(err.Error(), want) {
			t.Fatalf("want error containing %q, got %v", want, err)
		}
	}
	// arguments are passed by value: a callee assigning its parameter does not move the caller's offset
	h, err := Load(`
local p = Proto("T", "T")
local function sub(buf, offset) offset = offset + 4 return offset end
function p.dissector(buf, pinfo, tree)
    local offset = 0
    sub(buf, offset)
end
DissectorTable.get("tcp.port"):add(1, p)`)
	if err != nil {
		t.Fatal(err)
	}
	_, locals, err := h.Dissect([]byte{1, 2, 3, 4})
	if err != nil || locals["offset"] != float64(0) {
		t.Fatalf("by-value: %v %v", locals["offset"], err)
	}
	// scoping: a later local function IS visible to code that runs after its declaration
	if _, err := Load(`
local function b() return 1 end
local function a() return b() end
local x = a()
if x ~= 1 then error("bad") end`); err != nil {
		t.Fatal(err)
	}
	// syntax outside the subset is loud
	if _, err := Load("goto x"); err == nil {
		t.Fatal("goto accepted")
	}
}
