package luai

import "fmt"

// ---- AST ------------------------------------------------------------------------------------

type expr interface{}

type (
	eNil    struct{}
	eTrue   struct{}
	eFalse  struct{}
	eNumber struct{ v float64 }
	eString struct{ v string }
	eName   struct {
		name string
		line int
	}
	eIndex struct {
		obj  expr
		key  expr
		line int
	}
	eCall struct {
		fn   expr
		args []expr
		line int
	}
	eMethod struct {
		obj  expr
		name string
		args []expr
		line int
	}
	eBin struct {
		op   string
		l, r expr
		line int
	}
	eUn struct {
		op   string
		e    expr
		line int
	}
	eTable struct {
		keys []expr // nil key = positional
		vals []expr
	}
	eFunc struct {
		params []string
		body   []stmt
		name   string
	}
)

type stmt interface{}

type (
	sLocal struct {
		names []string
		exprs []expr
	}
	sLocalFunc struct {
		name string
		fn   *eFunc
	}
	sAssign struct {
		targets []expr
		exprs   []expr
		line    int
	}
	sCall struct{ call expr }
	sIf   struct {
		conds  []expr
		blocks [][]stmt
		els    []stmt
	}
	sNumFor struct {
		v                 string
		start, stop, step expr
		body              []stmt
	}
	sGenFor struct {
		names []string
		exprs []expr
		body  []stmt
	}
	sWhile struct {
		cond expr
		body []stmt
	}
	sReturn struct{ exprs []expr }
	sDo     struct{ body []stmt }
	sBreak  struct{}
)

type parser struct {
	toks []token
	pos  int
}

func (p *parser) peek() token { return p.toks[p.pos] }
func (p *parser) next() token { t := p.toks[p.pos]; p.pos++; return t }

func (p *parser) isOp(s string) bool {
	t := p.peek()
	return t.kind == tOp && t.s == s
}

func (p *parser) isKw(s string) bool {
	t := p.peek()
	return t.kind == tKeyword && t.s == s
}

func (p *parser) errf(format string, a ...any) error {
	return &SyntaxError{p.peek().line, fmt.Sprintf(format, a...)}
}

func (p *parser) expectOp(s string) error {
	if !p.isOp(s) {
		return p.errf("expected %q near %q", s, p.peek().s)
	}
	p.pos++
	return nil
}

func (p *parser) expectKw(s string) error {
	if !p.isKw(s) {
		return p.errf("expected %q near %q", s, p.peek().s)
	}
	p.pos++
	return nil
}

func (p *parser) expectName() (string, error) {
	t := p.peek()
	if t.kind != tName {
		return "", p.errf("expected a name near %q", t.s)
	}
	p.pos++
	return t.s, nil
}

// Parse parses a chunk.
func parseChunk(src string) ([]stmt, error) {
	toks, err := lex(src)
	if err != nil {
		return nil, err
	}
	p := &parser{toks: toks}
	b, err := p.block()
	if err != nil {
		return nil, err
	}
	if p.peek().kind != tEOF {
		return nil, p.errf("unexpected %q", p.peek().s)
	}
	return b, nil
}

func (p *parser) blockEnd() bool {
	t := p.peek()
	if t.kind == tEOF {
		return true
	}
	if t.kind == tKeyword {
		switch t.s {
		case "end", "else", "elseif", "until":
			return true
		}
	}
	return false
}

func (p *parser) block() ([]stmt, error) {
	var out []stmt
	for !p.blockEnd() {
		if p.isOp(";") {
			p.pos++
			continue
		}
		if p.isKw("return") {
			p.pos++
			var es []expr
			if !p.blockEnd() && !p.isOp(";") {
				var err error
				es, err = p.exprList()
				if err != nil {
					return nil, err
				}
			}
			if p.isOp(";") {
				p.pos++
			}
			out = append(out, &sReturn{es})
			if !p.blockEnd() {
				return nil, p.errf("'return' must be the last statement of a block")
			}
			break
		}
		s, err := p.statement()
		if err != nil {
			return nil, err
		}
		out = append(out, s)
	}
	return out, nil
}

func (p *parser) statement() (stmt, error) {
	t := p.peek()
	if t.kind == tKeyword {
		switch t.s {
		case "local":
			p.pos++
			if p.isKw("function") {
				p.pos++
				name, err := p.expectName()
				if err != nil {
					return nil, err
				}
				fn, err := p.funcBody(name, false)
				if err != nil {
					return nil, err
				}
				return &sLocalFunc{name, fn}, nil
			}
			var names []string
			for {
				n, err := p.expectName()
				if err != nil {
					return nil, err
				}
				names = append(names, n)
				if p.isOp(",") {
					p.pos++
					continue
				}
				break
			}
			var es []expr
			if p.isOp("=") {
				p.pos++
				var err error
				es, err = p.exprList()
				if err != nil {
					return nil, err
				}
			}
			return &sLocal{names, es}, nil
		case "function":
			p.pos++
			line := p.peek().line
			n, err := p.expectName()
			if err != nil {
				return nil, err
			}
			var target expr = &eName{n, line}
			full := n
			method := false
			for p.isOp(".") || p.isOp(":") {
				isM := p.isOp(":")
				p.pos++
				k, err := p.expectName()
				if err != nil {
					return nil, err
				}
				target = &eIndex{target, &eString{k}, line}
				full += "." + k
				if isM {
					method = true
					break
				}
			}
			fn, err := p.funcBody(full, method)
			if err != nil {
				return nil, err
			}
			return &sAssign{[]expr{target}, []expr{fn}, line}, nil
		case "if":
			p.pos++
			st := &sIf{}
			for {
				c, err := p.expr()
				if err != nil {
					return nil, err
				}
				if err := p.expectKw("then"); err != nil {
					return nil, err
				}
				b, err := p.block()
				if err != nil {
					return nil, err
				}
				st.conds = append(st.conds, c)
				st.blocks = append(st.blocks, b)
				if p.isKw("elseif") {
					p.pos++
					continue
				}
				if p.isKw("else") {
					p.pos++
					e, err := p.block()
					if err != nil {
						return nil, err
					}
					st.els = e
				}
				if err := p.expectKw("end"); err != nil {
					return nil, err
				}
				return st, nil
			}
		case "for":
			p.pos++
			n1, err := p.expectName()
			if err != nil {
				return nil, err
			}
			if p.isOp("=") {
				p.pos++
				a, err := p.expr()
				if err != nil {
					return nil, err
				}
				if err := p.expectOp(","); err != nil {
					return nil, err
				}
				b, err := p.expr()
				if err != nil {
					return nil, err
				}
				var c expr
				if p.isOp(",") {
					p.pos++
					c, err = p.expr()
					if err != nil {
						return nil, err
					}
				}
				if err := p.expectKw("do"); err != nil {
					return nil, err
				}
				body, err := p.block()
				if err != nil {
					return nil, err
				}
				if err := p.expectKw("end"); err != nil {
					return nil, err
				}
				return &sNumFor{n1, a, b, c, body}, nil
			}
			names := []string{n1}
			for p.isOp(",") {
				p.pos++
				n, err := p.expectName()
				if err != nil {
					return nil, err
				}
				names = append(names, n)
			}
			if err := p.expectKw("in"); err != nil {
				return nil, err
			}
			es, err := p.exprList()
			if err != nil {
				return nil, err
			}
			if err := p.expectKw("do"); err != nil {
				return nil, err
			}
			body, err := p.block()
			if err != nil {
				return nil, err
			}
			if err := p.expectKw("end"); err != nil {
				return nil, err
			}
			return &sGenFor{names, es, body}, nil
		case "while":
			p.pos++
			c, err := p.expr()
			if err != nil {
				return nil, err
			}
			if err := p.expectKw("do"); err != nil {
				return nil, err
			}
			body, err := p.block()
			if err != nil {
				return nil, err
			}
			if err := p.expectKw("end"); err != nil {
				return nil, err
			}
			return &sWhile{c, body}, nil
		case "do":
			p.pos++
			body, err := p.block()
			if err != nil {
				return nil, err
			}
			if err := p.expectKw("end"); err != nil {
				return nil, err
			}
			return &sDo{body}, nil
		case "break":
			p.pos++
			return &sBreak{}, nil
		default:
			return nil, p.errf("statement starting with %q is outside the supported subset", t.s)
		}
	}
	// expression statement: call or assignment
	line := t.line
	e, err := p.suffixedExpr()
	if err != nil {
		return nil, err
	}
	if p.isOp("=") || p.isOp(",") {
		targets := []expr{e}
		for p.isOp(",") {
			p.pos++
			t2, err := p.suffixedExpr()
			if err != nil {
				return nil, err
			}
			targets = append(targets, t2)
		}
		if err := p.expectOp("="); err != nil {
			return nil, err
		}
		es, err := p.exprList()
		if err != nil {
			return nil, err
		}
		for _, tg := range targets {
			switch tg.(type) {
			case *eName, *eIndex:
			default:
				return nil, &SyntaxError{line, "cannot assign to this expression"}
			}
		}
		return &sAssign{targets, es, line}, nil
	}
	switch e.(type) {
	case *eCall, *eMethod:
		return &sCall{e}, nil
	}
	return nil, &SyntaxError{line, "syntax error: expression is not a statement"}
}

func (p *parser) funcBody(name string, method bool) (*eFunc, error) {
	if err := p.expectOp("("); err != nil {
		return nil, err
	}
	var params []string
	if method {
		params = append(params, "self")
	}
	for !p.isOp(")") {
		if p.isOp("...") {
			return nil, p.errf("varargs are outside the supported subset")
		}
		n, err := p.expectName()
		if err != nil {
			return nil, err
		}
		params = append(params, n)
		if p.isOp(",") {
			p.pos++
		}
	}
	p.pos++
	body, err := p.block()
	if err != nil {
		return nil, err
	}
	if err := p.expectKw("end"); err != nil {
		return nil, err
	}
	return &eFunc{params, body, name}, nil
}

func (p *parser) exprList() ([]expr, error) {
	var out []expr
	for {
		e, err := p.expr()
		if err != nil {
			return nil, err
		}
		out = append(out, e)
		if p.isOp(",") {
			p.pos++
			continue
		}
		return out, nil
	}
}

var binPrec = map[string][2]int{
	"or": {1, 1}, "and": {2, 2},
	"<": {3, 3}, ">": {3, 3}, "<=": {3, 3}, ">=": {3, 3}, "~=": {3, 3}, "==": {3, 3},
	"..": {9, 8}, "+": {10, 10}, "-": {10, 10}, "*": {11, 11}, "/": {11, 11}, "%": {11, 11},
	"^": {14, 13},
}

const unaryPrec = 12

func (p *parser) expr() (expr, error) { return p.subexpr(0) }

func (p *parser) subexpr(limit int) (expr, error) {
	var left expr
	t := p.peek()
	if (t.kind == tKeyword && t.s == "not") || (t.kind == tOp && (t.s == "-" || t.s == "#")) {
		p.pos++
		e, err := p.subexpr(unaryPrec)
		if err != nil {
			return nil, err
		}
		left = &eUn{t.s, e, t.line}
	} else {
		e, err := p.simpleExpr()
		if err != nil {
			return nil, err
		}
		left = e
	}
	for {
		t := p.peek()
		op := ""
		if t.kind == tOp {
			op = t.s
		} else if t.kind == tKeyword && (t.s == "and" || t.s == "or") {
			op = t.s
		}
		pr, ok := binPrec[op]
		if !ok || pr[0] <= limit {
			return left, nil
		}
		p.pos++
		right, err := p.subexpr(pr[1])
		if err != nil {
			return nil, err
		}
		left = &eBin{op, left, right, t.line}
	}
}

func (p *parser) simpleExpr() (expr, error) {
	t := p.peek()
	switch t.kind {
	case tNumber:
		p.pos++
		return &eNumber{t.num}, nil
	case tString:
		p.pos++
		return &eString{t.s}, nil
	case tKeyword:
		switch t.s {
		case "nil":
			p.pos++
			return &eNil{}, nil
		case "true":
			p.pos++
			return &eTrue{}, nil
		case "false":
			p.pos++
			return &eFalse{}, nil
		case "function":
			p.pos++
			return p.funcBody("anonymous", false)
		}
	case tOp:
		if t.s == "{" {
			return p.tableCons()
		}
	}
	return p.suffixedExpr()
}

func (p *parser) tableCons() (expr, error) {
	if err := p.expectOp("{"); err != nil {
		return nil, err
	}
	tb := &eTable{}
	for !p.isOp("}") {
		if p.isOp("[") {
			p.pos++
			k, err := p.expr()
			if err != nil {
				return nil, err
			}
			if err := p.expectOp("]"); err != nil {
				return nil, err
			}
			if err := p.expectOp("="); err != nil {
				return nil, err
			}
			v, err := p.expr()
			if err != nil {
				return nil, err
			}
			tb.keys = append(tb.keys, k)
			tb.vals = append(tb.vals, v)
		} else if p.peek().kind == tName && p.toks[p.pos+1].kind == tOp && p.toks[p.pos+1].s == "=" {
			n := p.next().s
			p.pos++
			v, err := p.expr()
			if err != nil {
				return nil, err
			}
			tb.keys = append(tb.keys, &eString{n})
			tb.vals = append(tb.vals, v)
		} else {
			v, err := p.expr()
			if err != nil {
				return nil, err
			}
			tb.keys = append(tb.keys, nil)
			tb.vals = append(tb.vals, v)
		}
		if p.isOp(",") || p.isOp(";") {
			p.pos++
			continue
		}
		break
	}
	if err := p.expectOp("}"); err != nil {
		return nil, err
	}
	return tb, nil
}

func (p *parser) primaryExpr() (expr, error) {
	t := p.peek()
	if t.kind == tName {
		p.pos++
		return &eName{t.s, t.line}, nil
	}
	if t.kind == tOp && t.s == "(" {
		p.pos++
		e, err := p.expr()
		if err != nil {
			return nil, err
		}
		if err := p.expectOp(")"); err != nil {
			return nil, err
		}
		return e, nil
	}
	return nil, p.errf("unexpected symbol near %q", t.s)
}

func (p *parser) suffixedExpr() (expr, error) {
	e, err := p.primaryExpr()
	if err != nil {
		return nil, err
	}
	for {
		t := p.peek()
		switch {
		case t.kind == tOp && t.s == ".":
			p.pos++
			n, err := p.expectName()
			if err != nil {
				return nil, err
			}
			e = &eIndex{e, &eString{n}, t.line}
		case t.kind == tOp && t.s == "[":
			p.pos++
			k, err := p.expr()
			if err != nil {
				return nil, err
			}
			if err := p.expectOp("]"); err != nil {
				return nil, err
			}
			e = &eIndex{e, k, t.line}
		case t.kind == tOp && t.s == ":":
			p.pos++
			n, err := p.expectName()
			if err != nil {
				return nil, err
			}
			args, err := p.callArgs()
			if err != nil {
				return nil, err
			}
			e = &eMethod{e, n, args, t.line}
		case t.kind == tOp && t.s == "(", t.kind == tString, t.kind == tOp && t.s == "{":
			args, err := p.callArgs()
			if err != nil {
				return nil, err
			}
			e = &eCall{e, args, t.line}
		default:
			return e, nil
		}
	}
}

func (p *parser) callArgs() ([]expr, error) {
	t := p.peek()
	if t.kind == tString {
		p.pos++
		return []expr{&eString{t.s}}, nil
	}
	if t.kind == tOp && t.s == "{" {
		tb, err := p.tableCons()
		if err != nil {
			return nil, err
		}
		return []expr{tb}, nil
	}
	if err := p.expectOp("("); err != nil {
		return nil, err
	}
	var args []expr
	if !p.isOp(")") {
		var err error
		args, err = p.exprList()
		if err != nil {
			return nil, err
		}
	}
	if err := p.expectOp(")"); err != nil {
		return nil, err
	}
	return args, nil
}
