// Package luai is a small interpreter for the Lua subset lua_wsp_generator.go can print (DESIGN.md
// Appendix B), with lexical scoping exactly as Lua 5.x, plus recording stubs of the Wireshark API
// the emitted dissectors use. Anything outside the subset is a loud error, never a silent guess.
package luai

import (
	"fmt"
	"strings"
)

type tokKind int

const (
	tEOF tokKind = iota
	tName
	tNumber
	tString
	tOp
	tKeyword
)

type token struct {
	kind tokKind
	s    string
	num  float64
	line int
}

var keywords = map[string]bool{"and": true, "break": true, "do": true, "else": true, "elseif": true, "end": true, "false": true, "for": true,
	"function": true, "if": true, "in": true, "local": true, "nil": true, "not": true, "or": true, "repeat": true, "return": true, "then": true,
	"true": true, "until": true, "while": true, "goto": true}

// SyntaxError is a lexing / parsing error.
type SyntaxError struct {
	Line int
	Msg  string
}

func (e *SyntaxError) Error() string {
	return fmt.Sprintf("lua syntax error at line %d: %s", e.Line, e.Msg)
}

func lex(src string) ([]token, error) {
	var out []token
	line := 1
	i := 0
	n := len(src)
	for i < n {
		c := src[i]
		switch {
		case c == '\n':
			line++
			i++
		case c == ' ' || c == '\t' || c == '\r':
			i++
		case c == '-' && i+1 < n && src[i+1] == '-':
			// comment (long comments --[[ ]] are not emitted; treat --[[ as an error to be loud)
			if strings.HasPrefix(src[i:], "--[[") {
				return nil, &SyntaxError{line, "long comments are outside the supported subset"}
			}
			for i < n && src[i] != '\n' {
				i++
			}
		case isAlpha(c):
			j := i
			for j < n && (isAlpha(src[j]) || isDigit(src[j])) {
				j++
			}
			w := src[i:j]
			if keywords[w] {
				out = append(out, token{kind: tKeyword, s: w, line: line})
			} else {
				out = append(out, token{kind: tName, s: w, line: line})
			}
			i = j
		case isDigit(c):
			j := i
			for j < n && (isDigit(src[j]) || src[j] == '.' || src[j] == 'x' || src[j] == 'X' || (src[j] >= 'a' && src[j] <= 'f') || (src[j] >= 'A' && src[j] <= 'F')) {
				// stop a number before ".." (concatenation)
				if src[j] == '.' && j+1 < n && src[j+1] == '.' {
					break
				}
				j++
			}
			var f float64
			w := src[i:j]
			if strings.HasPrefix(w, "0x") || strings.HasPrefix(w, "0X") {
				var u uint64
				if _, err := fmt.Sscanf(w, "0x%x", &u); err != nil {
					return nil, &SyntaxError{line, "bad number " + w}
				}
				f = float64(u)
			} else if _, err := fmt.Sscanf(w, "%g", &f); err != nil {
				return nil, &SyntaxError{line, "bad number " + w}
			}
			out = append(out, token{kind: tNumber, s: w, num: f, line: line})
			i = j
		case c == '"' || c == '\'':
			q := c
			j := i + 1
			var b strings.Builder
			for {
				if j >= n || src[j] == '\n' {
					return nil, &SyntaxError{line, "unfinished string"}
				}
				if src[j] == q {
					break
				}
				if src[j] == '\\' && j+1 < n {
					j++
					switch src[j] {
					case 'n':
						b.WriteByte('\n')
					case 't':
						b.WriteByte('\t')
					case '\\', '"', '\'':
						b.WriteByte(src[j])
					case '0':
						b.WriteByte(0)
					default:
						return nil, &SyntaxError{line, "unsupported escape \\" + string(src[j])}
					}
					j++
					continue
				}
				b.WriteByte(src[j])
				j++
			}
			out = append(out, token{kind: tString, s: b.String(), line: line})
			i = j + 1
		default:
			ops := []string{"...", "..", "==", "~=", "<=", ">=", "+", "-", "*", "/", "%", "^", "#", "<", ">", "=", "(", ")", "{", "}", "[", "]", ";", ":", ",", "."}
			matched := false
			for _, op := range ops {
				if strings.HasPrefix(src[i:], op) {
					out = append(out, token{kind: tOp, s: op, line: line})
					i += len(op)
					matched = true
					break
				}
			}
			if !matched {
				return nil, &SyntaxError{line, fmt.Sprintf("unexpected character %q", c)}
			}
		}
	}
	out = append(out, token{kind: tEOF, line: line})
	return out, nil
}

func isAlpha(c byte) bool { return c == '_' || (c >= 'a' && c <= 'z') || (c >= 'A' && c <= 'Z') }
func isDigit(c byte) bool { return c >= '0' && c <= '9' }
