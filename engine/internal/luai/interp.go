package luai

import (
	"fmt"
	"math"
	"sort"
	"strconv"
	"strings"
)

// Value is a Lua value: nil, bool, float64, string, *Table, *Closure, *Builtin or a userdata (any Go pointer with methods below).
type Value interface{}

// Table is a Lua table (insertion-ordered for pairs()).
type Table struct {
	keys []Value
	m    map[Value]Value
	Meta string
}

// NewTable makes an empty table.
func NewTable() *Table { return &Table{m: map[Value]Value{}} }

// Get reads a key.
func (t *Table) Get(k Value) Value { return t.m[normKey(k)] }

// Set writes a key.
func (t *Table) Set(k, v Value) {
	k = normKey(k)
	if _, ok := t.m[k]; !ok {
		if v == nil {
			return
		}
		t.keys = append(t.keys, k)
	}
	if v == nil {
		delete(t.m, k)
		for i, kk := range t.keys {
			if kk == k {
				t.keys = append(t.keys[:i], t.keys[i+1:]...)
				break
			}
		}
		return
	}
	t.m[k] = v
}

func normKey(k Value) Value { return k }

// Len is the border of the array part.
func (t *Table) Len() int {
	n := 0
	for {
		if _, ok := t.m[float64(n+1)]; !ok {
			return n
		}
		n++
	}
}

// Builtin is a Go function callable from Lua.
type Builtin struct {
	Name string
	Fn   func(in *Interp, args []Value) ([]Value, error)
}

// Closure is a Lua function value.
type Closure struct {
	fn    *eFunc
	env   *env
	limit int
}

// Indexable userdata.
type Indexable interface {
	Index(in *Interp, key Value) (Value, error)
}

// Assignable userdata.
type Assignable interface {
	NewIndex(in *Interp, key, val Value) error
}

// CallableUD userdata.
type CallableUD interface {
	Call(in *Interp, args []Value) ([]Value, error)
}

// LuaError is a runtime error.
type LuaError struct {
	Line int
	Msg  string
}

func (e *LuaError) Error() string {
	return fmt.Sprintf("lua runtime error (line %d): %s", e.Line, e.Msg)
}

type env struct {
	names       []string
	cells       []*Value
	parent      *env
	parentLimit int
}

func newEnv(parent *env, limit int) *env { return &env{parent: parent, parentLimit: limit} }

func (e *env) declare(name string, v Value) {
	c := new(Value)
	*c = v
	e.names = append(e.names, name)
	e.cells = append(e.cells, c)
}

func lookup(e *env, limit int, name string) *Value {
	for e != nil {
		for i := limit - 1; i >= 0; i-- {
			if e.names[i] == name {
				return e.cells[i]
			}
		}
		limit = e.parentLimit
		e = e.parent
	}
	return nil
}

// Interp is an interpreter instance.
type Interp struct {
	Globals *Table
	steps   int
	MaxStep int
	depth   int
	// LastFrame is the outermost scope of the most recently *returned* call made through CallFunction.
	lastFrame *env
}

// New creates an interpreter with the base library subset.
func New() *Interp {
	in := &Interp{Globals: NewTable(), MaxStep: 20_000_000}
	in.Globals.Set("pairs", &Builtin{"pairs", func(in *Interp, a []Value) ([]Value, error) {
		t, ok := arg(a, 0).(*Table)
		if !ok {
			return nil, fmt.Errorf("bad argument #1 to 'pairs' (table expected, got %s)", typeName(arg(a, 0)))
		}
		keys := append([]Value(nil), t.keys...)
		i := 0
		next := &Builtin{"next", func(in *Interp, _ []Value) ([]Value, error) {
			for i < len(keys) {
				k := keys[i]
				i++
				if v, ok := t.m[k]; ok {
					return []Value{k, v}, nil
				}
			}
			return []Value{nil}, nil
		}}
		return []Value{next, t, nil}, nil
	}})
	in.Globals.Set("ipairs", &Builtin{"ipairs", func(in *Interp, a []Value) ([]Value, error) {
		t, ok := arg(a, 0).(*Table)
		if !ok {
			return nil, fmt.Errorf("bad argument #1 to 'ipairs' (table expected, got %s)", typeName(arg(a, 0)))
		}
		i := 0
		next := &Builtin{"inext", func(in *Interp, _ []Value) ([]Value, error) {
			i++
			v := t.Get(float64(i))
			if v == nil {
				return []Value{nil}, nil
			}
			return []Value{float64(i), v}, nil
		}}
		return []Value{next, t, float64(0)}, nil
	}})
	in.Globals.Set("tostring", &Builtin{"tostring", func(in *Interp, a []Value) ([]Value, error) { return []Value{ToString(arg(a, 0))}, nil }})
	in.Globals.Set("tonumber", &Builtin{"tonumber", func(in *Interp, a []Value) ([]Value, error) {
		switch v := arg(a, 0).(type) {
		case float64:
			return []Value{v}, nil
		case string:
			if f, err := strconv.ParseFloat(strings.TrimSpace(v), 64); err == nil {
				return []Value{f}, nil
			}
		}
		return []Value{nil}, nil
	}})
	in.Globals.Set("type", &Builtin{"type", func(in *Interp, a []Value) ([]Value, error) { return []Value{typeName(arg(a, 0))}, nil }})
	in.Globals.Set("print", &Builtin{"print", func(in *Interp, a []Value) ([]Value, error) { return nil, nil }})
	in.Globals.Set("error", &Builtin{"error", func(in *Interp, a []Value) ([]Value, error) { return nil, fmt.Errorf("%s", ToString(arg(a, 0))) }})
	str := NewTable()
	str.Set("format", &Builtin{"string.format", func(in *Interp, a []Value) ([]Value, error) {
		f, _ := arg(a, 0).(string)
		var rest []any
		for _, x := range a[1:] {
			if n, ok := x.(float64); ok && n == math.Trunc(n) && strings.Contains(f, "%d") {
				rest = append(rest, int64(n))
			} else {
				rest = append(rest, x)
			}
		}
		return []Value{fmt.Sprintf(f, rest...)}, nil
	}})
	in.Globals.Set("string", str)
	return in
}

func arg(a []Value, i int) Value {
	if i < len(a) {
		return a[i]
	}
	return nil
}

func typeName(v Value) string {
	switch v.(type) {
	case nil:
		return "nil"
	case bool:
		return "boolean"
	case float64:
		return "number"
	case string:
		return "string"
	case *Table:
		return "table"
	case *Closure, *Builtin:
		return "function"
	}
	return "userdata"
}

// ToString is Lua's tostring for the supported values.
func ToString(v Value) string {
	switch x := v.(type) {
	case nil:
		return "nil"
	case bool:
		if x {
			return "true"
		}
		return "false"
	case float64:
		if x == math.Trunc(x) && math.Abs(x) < 1e15 {
			return strconv.FormatInt(int64(x), 10)
		}
		return strconv.FormatFloat(x, 'g', 14, 64)
	case string:
		return x
	case fmt.Stringer:
		return x.String()
	}
	return fmt.Sprintf("%s: %p", typeName(v), v)
}

func truthy(v Value) bool {
	if v == nil {
		return false
	}
	if b, ok := v.(bool); ok {
		return b
	}
	return true
}

type returnSignal struct{ vals []Value }
type breakSignal struct{}

func (in *Interp) tick(line int) error {
	in.steps++
	if in.steps > in.MaxStep {
		return &LuaError{line, "step budget exhausted (non-terminating script?)"}
	}
	return nil
}

// Exec runs a chunk at top level.
func (in *Interp) Exec(src string) error {
	body, err := parseChunk(src)
	if err != nil {
		return err
	}
	e := newEnv(nil, 0)
	_, _, err = in.execBlock(body, e)
	return err
}

// execBlock returns (returned?, values, error); a break propagates as breakSignal through err.
func (in *Interp) execBlock(body []stmt, e *env) (bool, []Value, error) {
	for _, s := range body {
		ret, vals, err := in.execStmt(s, e)
		if err != nil || ret {
			return ret, vals, err
		}
	}
	return false, nil, nil
}

type breakErr struct{}

func (breakErr) Error() string { return "break outside a loop" }

func (in *Interp) execStmt(s stmt, e *env) (bool, []Value, error) {
	switch st := s.(type) {
	case *sLocal:
		var vals []Value
		for i, ex := range st.exprs {
			if i == len(st.exprs)-1 {
				vs, err := in.evalMulti(ex, e)
				if err != nil {
					return false, nil, err
				}
				vals = append(vals, vs...)
			} else {
				v, err := in.eval(ex, e)
				if err != nil {
					return false, nil, err
				}
				vals = append(vals, v)
			}
		}
		for i, n := range st.names {
			e.declare(n, arg(vals, i))
		}
	case *sLocalFunc:
		e.declare(st.name, nil)
		c := &Closure{fn: st.fn, env: e, limit: len(e.names)}
		*e.cells[len(e.cells)-1] = c
	case *sAssign:
		var vals []Value
		for i, ex := range st.exprs {
			if i == len(st.exprs)-1 {
				vs, err := in.evalMulti(ex, e)
				if err != nil {
					return false, nil, err
				}
				vals = append(vals, vs...)
			} else {
				v, err := in.eval(ex, e)
				if err != nil {
					return false, nil, err
				}
				vals = append(vals, v)
			}
		}
		for i, t := range st.targets {
			if err := in.assign(t, arg(vals, i), e, st.line); err != nil {
				return false, nil, err
			}
		}
	case *sCall:
		if _, err := in.evalMulti(st.call, e); err != nil {
			return false, nil, err
		}
	case *sIf:
		for i, c := range st.conds {
			v, err := in.eval(c, e)
			if err != nil {
				return false, nil, err
			}
			if truthy(v) {
				return in.execBlock(st.blocks[i], newEnv(e, len(e.names)))
			}
		}
		if st.els != nil {
			return in.execBlock(st.els, newEnv(e, len(e.names)))
		}
	case *sNumFor:
		a, err := in.evalNum(st.start, e, "'for' initial value must be a number")
		if err != nil {
			return false, nil, err
		}
		b, err := in.evalNum(st.stop, e, "'for' limit must be a number")
		if err != nil {
			return false, nil, err
		}
		step := 1.0
		if st.step != nil {
			step, err = in.evalNum(st.step, e, "'for' step must be a number")
			if err != nil {
				return false, nil, err
			}
		}
		if step == 0 {
			return false, nil, &LuaError{0, "'for' step is zero"}
		}
		for i := a; (step > 0 && i <= b) || (step < 0 && i >= b); i += step {
			if err := in.tick(0); err != nil {
				return false, nil, err
			}
			le := newEnv(e, len(e.names))
			le.declare(st.v, i)
			ret, vals, err := in.execBlock(st.body, le)
			if _, isBreak := err.(breakErr); isBreak {
				break
			}
			if err != nil || ret {
				return ret, vals, err
			}
		}
	case *sGenFor:
		var vals []Value
		for i, ex := range st.exprs {
			if i == len(st.exprs)-1 {
				vs, err := in.evalMulti(ex, e)
				if err != nil {
					return false, nil, err
				}
				vals = append(vals, vs...)
			} else {
				v, err := in.eval(ex, e)
				if err != nil {
					return false, nil, err
				}
				vals = append(vals, v)
			}
		}
		f, state, ctl := arg(vals, 0), arg(vals, 1), arg(vals, 2)
		for {
			if err := in.tick(0); err != nil {
				return false, nil, err
			}
			rs, err := in.call(f, []Value{state, ctl}, 0, "for iterator")
			if err != nil {
				return false, nil, err
			}
			if arg(rs, 0) == nil {
				break
			}
			ctl = rs[0]
			le := newEnv(e, len(e.names))
			for i, n := range st.names {
				le.declare(n, arg(rs, i))
			}
			ret, rv, err := in.execBlock(st.body, le)
			if _, isBreak := err.(breakErr); isBreak {
				break
			}
			if err != nil || ret {
				return ret, rv, err
			}
		}
	case *sWhile:
		for {
			if err := in.tick(0); err != nil {
				return false, nil, err
			}
			v, err := in.eval(st.cond, e)
			if err != nil {
				return false, nil, err
			}
			if !truthy(v) {
				break
			}
			ret, rv, err := in.execBlock(st.body, newEnv(e, len(e.names)))
			if _, isBreak := err.(breakErr); isBreak {
				break
			}
			if err != nil || ret {
				return ret, rv, err
			}
		}
	case *sDo:
		return in.execBlock(st.body, newEnv(e, len(e.names)))
	case *sBreak:
		return false, nil, breakErr{}
	case *sReturn:
		var vals []Value
		for i, ex := range st.exprs {
			if i == len(st.exprs)-1 {
				vs, err := in.evalMulti(ex, e)
				if err != nil {
					return false, nil, err
				}
				vals = append(vals, vs...)
			} else {
				v, err := in.eval(ex, e)
				if err != nil {
					return false, nil, err
				}
				vals = append(vals, v)
			}
		}
		return true, vals, nil
	default:
		return false, nil, fmt.Errorf("unsupported statement %T", s)
	}
	return false, nil, nil
}

func (in *Interp) evalNum(ex expr, e *env, msg string) (float64, error) {
	v, err := in.eval(ex, e)
	if err != nil {
		return 0, err
	}
	f, ok := v.(float64)
	if !ok {
		return 0, &LuaError{0, msg}
	}
	return f, nil
}

func (in *Interp) assign(t expr, v Value, e *env, line int) error {
	switch x := t.(type) {
	case *eName:
		if c := lookup(e, len(e.names), x.name); c != nil {
			*c = v
			return nil
		}
		in.Globals.Set(x.name, v)
		return nil
	case *eIndex:
		obj, err := in.eval(x.obj, e)
		if err != nil {
			return err
		}
		key, err := in.eval(x.key, e)
		if err != nil {
			return err
		}
		switch o := obj.(type) {
		case *Table:
			if key == nil {
				return &LuaError{line, "table index is nil"}
			}
			o.Set(key, v)
			return nil
		case Assignable:
			return o.NewIndex(in, key, v)
		}
		return &LuaError{line, fmt.Sprintf("attempt to index a %s value (%s)", typeName(obj), describe(x.obj))}
	}
	return &LuaError{line, "cannot assign"}
}

func describe(ex expr) string {
	switch x := ex.(type) {
	case *eName:
		return "'" + x.name + "'"
	case *eIndex:
		if s, ok := x.key.(*eString); ok {
			return "field '" + s.v + "'"
		}
	case *eMethod:
		return "method '" + x.name + "'"
	case *eCall:
		return "result of a call"
	}
	return "expression"
}

func (in *Interp) eval(ex expr, e *env) (Value, error) {
	vs, err := in.evalMulti(ex, e)
	if err != nil {
		return nil, err
	}
	return arg(vs, 0), nil
}

func (in *Interp) index(obj, key Value, line int, what expr) (Value, error) {
	switch o := obj.(type) {
	case *Table:
		return o.Get(key), nil
	case Indexable:
		return o.Index(in, key)
	case string:
		// string methods are not emitted
		return nil, &LuaError{line, "string indexing is outside the supported subset"}
	case float64:
		// 64-bit reads are modelled as plain numbers; Wireshark's UInt64/Int64 objects offer :tonumber()
		if key == "tonumber" {
			return &Builtin{"tonumber", func(in *Interp, a []Value) ([]Value, error) { return []Value{o}, nil }}, nil
		}
		return nil, &LuaError{line, fmt.Sprintf("attempt to index a number value (%s)", describe(what))}
	}
	return nil, &LuaError{line, fmt.Sprintf("attempt to index a %s value (%s)", typeName(obj), describe(what))}
}

func (in *Interp) evalMulti(ex expr, e *env) ([]Value, error) {
	switch x := ex.(type) {
	case *eNil:
		return []Value{nil}, nil
	case *eTrue:
		return []Value{true}, nil
	case *eFalse:
		return []Value{false}, nil
	case *eNumber:
		return []Value{x.v}, nil
	case *eString:
		return []Value{x.v}, nil
	case *eName:
		if c := lookup(e, len(e.names), x.name); c != nil {
			return []Value{*c}, nil
		}
		return []Value{in.Globals.Get(x.name)}, nil
	case *eIndex:
		obj, err := in.eval(x.obj, e)
		if err != nil {
			return nil, err
		}
		key, err := in.eval(x.key, e)
		if err != nil {
			return nil, err
		}
		v, err := in.index(obj, key, x.line, x.obj)
		return []Value{v}, err
	case *eCall:
		if err := in.tick(x.line); err != nil {
			return nil, err
		}
		f, err := in.eval(x.fn, e)
		if err != nil {
			return nil, err
		}
		args, err := in.evalArgs(x.args, e)
		if err != nil {
			return nil, err
		}
		return in.call(f, args, x.line, describe(x.fn))
	case *eMethod:
		if err := in.tick(x.line); err != nil {
			return nil, err
		}
		obj, err := in.eval(x.obj, e)
		if err != nil {
			return nil, err
		}
		f, err := in.index(obj, x.name, x.line, x.obj)
		if err != nil {
			return nil, err
		}
		args, err := in.evalArgs(x.args, e)
		if err != nil {
			return nil, err
		}
		return in.call(f, append([]Value{obj}, args...), x.line, "method '"+x.name+"'")
	case *eFunc:
		return []Value{&Closure{fn: x, env: e, limit: len(e.names)}}, nil
	case *eTable:
		t := NewTable()
		pos := 1
		for i, k := range x.keys {
			if k == nil {
				if i == len(x.keys)-1 {
					vs, err := in.evalMulti(x.vals[i], e)
					if err != nil {
						return nil, err
					}
					for _, v := range vs {
						t.Set(float64(pos), v)
						pos++
					}
					continue
				}
				v, err := in.eval(x.vals[i], e)
				if err != nil {
					return nil, err
				}
				t.Set(float64(pos), v)
				pos++
				continue
			}
			kv, err := in.eval(k, e)
			if err != nil {
				return nil, err
			}
			v, err := in.eval(x.vals[i], e)
			if err != nil {
				return nil, err
			}
			if kv == nil {
				return nil, &LuaError{0, "table index is nil"}
			}
			t.Set(kv, v)
		}
		return []Value{t}, nil
	case *eUn:
		v, err := in.eval(x.e, e)
		if err != nil {
			return nil, err
		}
		switch x.op {
		case "not":
			return []Value{!truthy(v)}, nil
		case "-":
			f, ok := v.(float64)
			if !ok {
				return nil, &LuaError{x.line, "attempt to perform arithmetic on a " + typeName(v) + " value"}
			}
			return []Value{-f}, nil
		case "#":
			switch o := v.(type) {
			case string:
				return []Value{float64(len(o))}, nil
			case *Table:
				return []Value{float64(o.Len())}, nil
			}
			return nil, &LuaError{x.line, "attempt to get length of a " + typeName(v) + " value"}
		}
	case *eBin:
		if x.op == "and" || x.op == "or" {
			l, err := in.eval(x.l, e)
			if err != nil {
				return nil, err
			}
			if x.op == "and" {
				if !truthy(l) {
					return []Value{l}, nil
				}
			} else if truthy(l) {
				return []Value{l}, nil
			}
			r, err := in.eval(x.r, e)
			return []Value{r}, err
		}
		l, err := in.eval(x.l, e)
		if err != nil {
			return nil, err
		}
		r, err := in.eval(x.r, e)
		if err != nil {
			return nil, err
		}
		v, err := in.binop(x.op, l, r, x.line, x)
		return []Value{v}, err
	}
	return nil, fmt.Errorf("unsupported expression %T", ex)
}

func (in *Interp) evalArgs(args []expr, e *env) ([]Value, error) {
	var out []Value
	for i, a := range args {
		if i == len(args)-1 {
			vs, err := in.evalMulti(a, e)
			if err != nil {
				return nil, err
			}
			out = append(out, vs...)
		} else {
			v, err := in.eval(a, e)
			if err != nil {
				return nil, err
			}
			out = append(out, v)
		}
	}
	return out, nil
}

func (in *Interp) binop(op string, l, r Value, line int, x *eBin) (Value, error) {
	switch op {
	case "==":
		return rawEq(l, r), nil
	case "~=":
		return !rawEq(l, r), nil
	case "..":
		ls, lok := concatable(l)
		rs, rok := concatable(r)
		if !lok || !rok {
			bad := l
			which := x.l
			if lok {
				bad = r
				which = x.r
			}
			return nil, &LuaError{line, fmt.Sprintf("attempt to concatenate a %s value (%s)", typeName(bad), describe(which))}
		}
		return ls + rs, nil
	}
	lf, lok := toNum(l)
	rf, rok := toNum(r)
	switch op {
	case "<", "<=", ">", ">=":
		if ls, ok := l.(string); ok {
			if rs, ok := r.(string); ok {
				switch op {
				case "<":
					return ls < rs, nil
				case "<=":
					return ls <= rs, nil
				case ">":
					return ls > rs, nil
				default:
					return ls >= rs, nil
				}
			}
		}
		_, lnum := l.(float64)
		_, rnum := r.(float64)
		if !lnum || !rnum {
			return nil, &LuaError{line, fmt.Sprintf("attempt to compare %s with %s", typeName(l), typeName(r))}
		}
		switch op {
		case "<":
			return lf < rf, nil
		case "<=":
			return lf <= rf, nil
		case ">":
			return lf > rf, nil
		default:
			return lf >= rf, nil
		}
	}
	if !lok || !rok {
		bad := l
		which := x.l
		if lok {
			bad = r
			which = x.r
		}
		return nil, &LuaError{line, fmt.Sprintf("attempt to perform arithmetic on a %s value (%s)", typeName(bad), describe(which))}
	}
	switch op {
	case "+":
		return lf + rf, nil
	case "-":
		return lf - rf, nil
	case "*":
		return lf * rf, nil
	case "/":
		return lf / rf, nil
	case "%":
		return lf - math.Floor(lf/rf)*rf, nil
	case "^":
		return math.Pow(lf, rf), nil
	}
	return nil, &LuaError{line, "unsupported operator " + op}
}

func toNum(v Value) (float64, bool) {
	switch x := v.(type) {
	case float64:
		return x, true
	case string:
		f, err := strconv.ParseFloat(strings.TrimSpace(x), 64)
		return f, err == nil
	}
	return 0, false
}

func concatable(v Value) (string, bool) {
	switch x := v.(type) {
	case string:
		return x, true
	case float64:
		return ToString(x), true
	}
	return "", false
}

func rawEq(a, b Value) bool {
	switch x := a.(type) {
	case nil:
		return b == nil
	case bool:
		y, ok := b.(bool)
		return ok && x == y
	case float64:
		y, ok := b.(float64)
		return ok && x == y
	case string:
		y, ok := b.(string)
		return ok && x == y
	}
	return a == b
}

func (in *Interp) call(f Value, args []Value, line int, what string) ([]Value, error) {
	in.depth++
	defer func() { in.depth-- }()
	if in.depth > 190 {
		return nil, &LuaError{line, "stack overflow"}
	}
	switch fn := f.(type) {
	case *Builtin:
		rs, err := fn.Fn(in, args)
		if err != nil {
			if _, ok := err.(*LuaError); ok {
				return nil, err
			}
			return nil, &LuaError{line, err.Error()}
		}
		return rs, nil
	case *Closure:
		e := newEnv(fn.env, fn.limit)
		for i, p := range fn.fn.params {
			e.declare(p, arg(args, i))
		}
		_, vals, err := in.execBlock(fn.fn.body, e)
		if _, isBreak := err.(breakErr); isBreak {
			err = &LuaError{line, "break outside a loop"}
		}
		in.lastFrame = e
		return vals, err
	case CallableUD:
		rs, err := fn.Call(in, args)
		if err != nil {
			if _, ok := err.(*LuaError); ok {
				return nil, err
			}
			return nil, &LuaError{line, err.Error()}
		}
		return rs, nil
	}
	return nil, &LuaError{line, fmt.Sprintf("attempt to call a %s value (%s)", typeName(f), what)}
}

// CallFunction calls a Lua function value and returns its results together with the final values of
// the locals of its outermost scope (name -> value; a later declaration of the same name wins).
func (in *Interp) CallFunction(f Value, args ...Value) ([]Value, map[string]Value, error) {
	in.lastFrame = nil
	c, isClosure := f.(*Closure)
	var frame *env
	var vals []Value
	var err error
	if isClosure {
		in.depth++
		frame = newEnv(c.env, c.limit)
		for i, p := range c.fn.params {
			frame.declare(p, arg(args, i))
		}
		_, vals, err = in.execBlock(c.fn.body, frame)
		in.depth--
	} else {
		vals, err = in.call(f, args, 0, "function")
	}
	locals := map[string]Value{}
	if frame != nil {
		for i, n := range frame.names {
			locals[n] = *frame.cells[i]
		}
	}
	return vals, locals, err
}

// SortedKeys lists the string keys of a table (for diagnostics).
func (t *Table) SortedKeys() []string {
	var out []string
	for _, k := range t.keys {
		if s, ok := k.(string); ok {
			out = append(out, s)
		}
	}
	sort.Strings(out)
	return out
}
