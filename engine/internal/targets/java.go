package targets

import (
	"bytes"
	"context"
	"fmt"
	"io/fs"
	"os"
	"os/exec"
	"path/filepath"
	"regexp"
	"sort"
	"strconv"
	"strings"
	"sync"
	"time"
)

// The Java target: emitted files arrive as main/java/<pkg path>/X.java and test/java/<pkg path>/XTest.java.
// Many cells are compiled by one javac invocation (distinct packages, one shared class directory per batch);
// diagnostics are attributed to cells by file path, failing cells are marked Stage="build" with their own
// messages and the rest is recompiled until the batch compiles. The generic reflective driver
// (runtimes/java/src/verif/Driver.java) then runs once per cell.
type javaTarget struct{}

func init() { register(javaTarget{}) }

func (javaTarget) Lang() string { return "java" }

const (
	javaBatch        = 96 // cells per javac invocation
	javacTimeout     = 15 * time.Minute
	javaRunTimeout   = 180 * time.Second
	javaTestTimeout  = 120 * time.Second
	javaMaxStdout    = 128 << 20
	javaMaxStderr    = 1 << 20
	javaMaxCompileRe = 12 // recompile rounds before falling back to one javac per cell
)

// ---------------------------------------------------------------------------------------------------------
// runtime classes: compiled once into <verif>/build/java/rt, rebuilt when the sources change (hash stamp)

var (
	javaRtMu   sync.Mutex
	javaRtDone = map[string]string{} // VerifDir -> rt dir
	javaRtErr  = map[string]string{}
)

func javaRuntime(e *Env) (string, error) {
	javaRtMu.Lock()
	defer javaRtMu.Unlock()
	if d, ok := javaRtDone[e.VerifDir]; ok {
		return d, nil
	}
	if m, ok := javaRtErr[e.VerifDir]; ok {
		return "", fmt.Errorf("%s", m)
	}
	fail := func(format string, a ...any) (string, error) {
		m := fmt.Sprintf(format, a...)
		javaRtErr[e.VerifDir] = m
		return "", fmt.Errorf("%s", m)
	}
	base := filepath.Join(e.VerifDir, "build", "java")
	rt := filepath.Join(base, "rt")
	stamp := filepath.Join(base, "rt.stamp")
	want := e.runtimeHash("java")
	if b, err := os.ReadFile(stamp); err == nil && strings.TrimSpace(string(b)) == want {
		if _, err := os.Stat(filepath.Join(rt, "verif", "Driver.class")); err == nil {
			javaRtDone[e.VerifDir] = rt
			return rt, nil
		}
	}
	src := filepath.Join(e.Runtime("java"), "src")
	var files []string
	filepath.WalkDir(src, func(p string, d fs.DirEntry, err error) error {
		if err == nil && !d.IsDir() && strings.HasSuffix(p, ".java") {
			files = append(files, p)
		}
		return nil
	})
	if len(files) == 0 {
		return fail("no runtime sources under %s", src)
	}
	sort.Strings(files)
	if err := os.MkdirAll(base, 0o755); err != nil {
		return fail("%v", err)
	}
	tmp := filepath.Join(base, fmt.Sprintf("rt.tmp%d", os.Getpid()))
	os.RemoveAll(tmp)
	os.MkdirAll(tmp, 0o755)
	args := append([]string{"-encoding", "UTF-8", "-proc:none", "-nowarn", "-d", tmp}, files...)
	_, se, err := Run(src, 5*time.Minute, nil, nil, "javac", args...)
	if err != nil {
		os.RemoveAll(tmp)
		return fail("javac of the Java runtime failed: %v\n%s", err, trunc(se, 4000))
	}
	os.Remove(stamp)
	os.RemoveAll(rt)
	if err := os.Rename(tmp, rt); err != nil {
		// another process may have installed it in the meantime
		os.RemoveAll(tmp)
		if _, err2 := os.Stat(filepath.Join(rt, "verif", "Driver.class")); err2 != nil {
			return fail("cannot install the Java runtime classes: %v", err)
		}
	}
	os.WriteFile(stamp, []byte(want+"\n"), 0o644)
	javaRtDone[e.VerifDir] = rt
	return rt, nil
}

// ---------------------------------------------------------------------------------------------------------
// process helper with bounded output

type capWriter struct {
	buf    bytes.Buffer
	max    int
	over   bool
	cancel context.CancelFunc
}

func (w *capWriter) Write(p []byte) (int, error) {
	if w.over {
		return len(p), nil
	}
	if w.buf.Len()+len(p) > w.max {
		w.over = true
		if w.cancel != nil {
			w.cancel()
		}
		return len(p), nil
	}
	return w.buf.Write(p)
}

func javaRunCapped(dir string, timeout time.Duration, stdin []byte, maxOut int, name string, args ...string) (stdout, stderr []byte, err error) {
	ctx, cancel := context.WithTimeout(context.Background(), timeout)
	defer cancel()
	cmd := exec.CommandContext(ctx, name, args...)
	cmd.Dir = dir
	cmd.WaitDelay = 5 * time.Second
	if stdin != nil {
		cmd.Stdin = bytes.NewReader(stdin)
	}
	so := &capWriter{max: maxOut, cancel: cancel}
	se := &capWriter{max: javaMaxStderr} // excess stderr is dropped, not fatal
	cmd.Stdout = so
	cmd.Stderr = se
	err = cmd.Run()
	switch {
	case so.over:
		err = fmt.Errorf("output exceeds %d bytes", maxOut)
	case ctx.Err() == context.DeadlineExceeded:
		err = fmt.Errorf("timeout after %v", timeout)
	}
	return so.buf.Bytes(), se.buf.Bytes(), err
}

// ---------------------------------------------------------------------------------------------------------
// cells

type javaCell struct {
	c     *Cell
	key   string
	dir   string // where c.Files were written
	pkg   string
	main  []string // absolute paths
	test  []string
	tests []string // fully qualified test class names
	// result of compilation
	failed bool
	log    string
	// class directory the cell was compiled into
	classes string
}

func javaPkgOf(c *Cell) string {
	if p := c.Meta["JavaPackage"]; p != "" {
		return p
	}
	for n := range c.Files {
		if strings.HasPrefix(n, "main/java/") && strings.HasSuffix(n, ".java") {
			d := filepath.Dir(strings.TrimPrefix(n, "main/java/"))
			if d == "." {
				return ""
			}
			return strings.ReplaceAll(d, "/", ".")
		}
	}
	return ""
}

func newJavaCell(e *Env, c *Cell, prefix string) (*javaCell, error) {
	jc := &javaCell{c: c, pkg: javaPkgOf(c)}
	jc.dir = e.tmp(prefix)
	c.Dir = jc.dir
	if err := WriteFiles(jc.dir, c.Files); err != nil {
		return jc, err
	}
	names := make([]string, 0, len(c.Files))
	for n := range c.Files {
		names = append(names, n)
	}
	sort.Strings(names)
	for _, n := range names {
		if !strings.HasSuffix(n, ".java") {
			continue
		}
		switch {
		case strings.HasPrefix(n, "main/java/"):
			jc.main = append(jc.main, filepath.Join(jc.dir, n))
		case strings.HasPrefix(n, "test/java/"):
			jc.test = append(jc.test, filepath.Join(jc.dir, n))
			cls := strings.TrimSuffix(strings.TrimPrefix(n, "test/java/"), ".java")
			jc.tests = append(jc.tests, strings.ReplaceAll(cls, "/", "."))
		}
	}
	return jc, nil
}

func (jc *javaCell) sources(withTests bool) []string {
	if withTests {
		return append(append([]string(nil), jc.main...), jc.test...)
	}
	return jc.main
}

// javaBatches splits cells into batches in which every Java package occurs once (cells normally all have
// distinct packages; if not, the second cell of a package goes to a later batch with its own class directory).
func javaBatches(cells []*javaCell) [][]*javaCell {
	seen := map[string]int{}
	waves := map[int][]*javaCell{}
	maxWave := 0
	for _, jc := range cells {
		w := seen[jc.pkg]
		seen[jc.pkg]++
		waves[w] = append(waves[w], jc)
		if w > maxWave {
			maxWave = w
		}
	}
	var out [][]*javaCell
	for w := 0; w <= maxWave; w++ {
		l := waves[w]
		for len(l) > 0 {
			n := javaBatch
			if len(l) < n {
				n = len(l)
			}
			out = append(out, l[:n])
			l = l[n:]
		}
	}
	return out
}

var (
	reJavacDiag = regexp.MustCompile(`^(/[^:]*\.java):(\d+): (error|warning): (.*)$`)
	reJavacTail = regexp.MustCompile(`^(\d+ (errors?|warnings?)|Note: .*|\s*)$`)
)

// javac runs one compilation of the given sources into classes; returns stderr and whether it succeeded.
func javac(e *Env, rt, classes string, srcs []string, extraCp string) (string, error) {
	argDir := e.tmp("javacargs")
	var b strings.Builder
	for _, s := range srcs {
		b.WriteString("\"" + strings.ReplaceAll(s, `\`, `\\`) + "\"\n")
	}
	argFile := filepath.Join(argDir, "sources.txt")
	if err := os.WriteFile(argFile, []byte(b.String()), 0o644); err != nil {
		return "", err
	}
	cp := rt
	if extraCp != "" {
		cp += string(os.PathListSeparator) + extraCp
	}
	so, se, err := javaRunCapped(argDir, javacTimeout, nil, 64<<20, "javac",
		"-J-Xss16m", "-encoding", "UTF-8", "-cp", cp, "-d", classes, "-proc:none", "-nowarn", "-implicit:none",
		"-Xmaxerrs", "10000", "-Xmaxwarns", "0", "@"+argFile)
	os.RemoveAll(argDir)
	return string(se) + string(so), err
}

// javaAttribute splits javac's diagnostics by cell. unattributed is true if there is an error that belongs to no cell.
func javaAttribute(log string, cells []*javaCell) (per map[*javaCell]string, unattributed bool) {
	per = map[*javaCell]string{}
	byDir := map[string]*javaCell{}
	for _, jc := range cells {
		byDir[jc.dir] = jc
	}
	find := func(path string) *javaCell {
		for d := filepath.Dir(path); d != "/" && d != "."; d = filepath.Dir(d) {
			if jc, ok := byDir[d]; ok {
				return jc
			}
		}
		return nil
	}
	var cur *javaCell
	isErr := false
	var chunk []string
	flush := func() {
		if cur != nil && isErr && len(chunk) > 0 {
			per[cur] += strings.Join(chunk, "\n") + "\n"
		}
		chunk = nil
	}
	for _, l := range strings.Split(log, "\n") {
		if m := reJavacDiag.FindStringSubmatch(l); m != nil {
			flush()
			cur = find(m[1])
			isErr = m[3] == "error"
			if cur == nil {
				if isErr {
					unattributed = true
				}
				continue
			}
			rel, err := filepath.Rel(cur.dir, m[1])
			if err != nil {
				rel = m[1]
			}
			chunk = []string{fmt.Sprintf("%s:%s: %s: %s", rel, m[2], m[3], m[4])}
			continue
		}
		if reJavacTail.MatchString(l) {
			continue
		}
		if strings.HasPrefix(l, "error: ") || strings.HasPrefix(l, "javac: ") || strings.HasPrefix(l, "An exception has occurred") {
			flush()
			cur = nil
			unattributed = true
			continue
		}
		if cur != nil {
			chunk = append(chunk, l)
		}
	}
	flush()
	return per, unattributed
}

// javaCompile compiles the cells of one batch into classes with failure isolation: afterwards every cell has
// failed/log set; the cells with !failed are all compiled (together) into classes.
func javaCompile(e *Env, rt, classes string, cells []*javaCell, withTests bool) {
	pending := cells
	for round := 0; len(pending) > 0; round++ {
		var srcs []string
		for _, jc := range pending {
			jc.classes = classes
			srcs = append(srcs, jc.sources(withTests)...)
		}
		log, err := javac(e, rt, classes, srcs, "")
		if err == nil {
			return
		}
		per, _ := javaAttribute(log, pending)
		if len(per) == 0 || round >= javaMaxCompileRe {
			javaCompileEach(e, rt, classes, pending, withTests, log)
			return
		}
		var rest []*javaCell
		for _, jc := range pending {
			if m, bad := per[jc]; bad {
				jc.failed, jc.log = true, m
			} else {
				rest = append(rest, jc)
			}
		}
		pending = rest
	}
}

// javaCompileEach is the fallback: one javac per cell (the batch failed and its diagnostics name no cell).
func javaCompileEach(e *Env, rt, classes string, cells []*javaCell, withTests bool, batchLog string) {
	parallel(len(cells), func(i int) {
		jc := cells[i]
		log, err := javac(e, rt, classes, jc.sources(withTests), "")
		if err == nil {
			return
		}
		jc.failed = true
		if per, _ := javaAttribute(log, []*javaCell{jc}); per[jc] != "" {
			jc.log = per[jc]
		} else {
			jc.log = fmt.Sprintf("javac: %v\n%s", err, strings.ReplaceAll(log, jc.dir+"/", ""))
		}
	})
}

func javaCmd(rt, classes string, main string, args ...string) []string {
	cp := rt + string(os.PathListSeparator) + classes
	return append([]string{"-Xss16m", "-Xmx512m", "-XX:+UseSerialGC", "-XX:TieredStopAtLevel=1", "-Xshare:auto",
		"-XX:-UsePerfData", "-Dfile.encoding=UTF-8", "-cp", cp, main}, args...)
}

func (javaTarget) RunCells(e *Env, cells []*Cell) {
	var todo []*javaCell
	var prepMu sync.Mutex
	parallel(len(cells), func(i int) {
		c := cells[i]
		if len(c.Files) == 0 {
			return
		}
		key := c.key(e, "run")
		if b, ok := e.cacheGet(key); ok {
			decodeCached(c, b)
			return
		}
		jc, err := newJavaCell(e, c, "java")
		jc.key = key
		if err != nil {
			c.Stage, c.BuildLog = "build", err.Error()
			return
		}
		if len(jc.main) == 0 {
			c.Stage, c.BuildLog = "build", "no main/java/**.java file emitted"
			e.cachePut(key, encodeCached(c, nil))
			return
		}
		prepMu.Lock()
		todo = append(todo, jc)
		prepMu.Unlock()
	})
	if len(todo) == 0 {
		return
	}
	rt, err := javaRuntime(e)
	if err != nil {
		for _, jc := range todo {
			jc.c.Stage, jc.c.BuildLog = "driver", "harness: java runtime cannot be built: "+err.Error()
		}
		return
	}
	sort.Slice(todo, func(a, b int) bool { return todo[a].c.Name < todo[b].c.Name })
	batches := javaBatches(todo)
	parallel(len(batches), func(i int) {
		javaCompile(e, rt, e.tmp("javaclasses"), batches[i], false)
	})
	parallel(len(todo), func(i int) {
		jc := todo[i]
		c := jc.c
		if jc.failed {
			c.Stage, c.BuildLog = "build", trunc([]byte(jc.log), 4000)
			e.cachePut(jc.key, encodeCached(c, nil))
			return
		}
		so, se, err := runSegments(c, func(in []byte) ([]byte, []byte, error) {
			return javaRunCapped(jc.dir, javaRunTimeout, in, javaMaxStdout, "java", javaCmd(rt, jc.classes, "verif.Driver", jc.pkg)...)
		})
		if err != nil && len(so) == 0 && (bytes.Contains(se, []byte("loading main class verif.Driver")) || bytes.Contains(se, []byte("load main class verif.Driver"))) {
			// the JVM could not load the harness's own driver class (a truncated class file on a loaded machine):
			// a fault of the harness run, never a verdict about the emitted code, and never cached
			c.Stage, c.BuildLog = "driver", "harness run: the driver class could not be loaded: "+trunc(se, 400)
			return
		}
		if err != nil && len(so) == 0 {
			c.Stage, c.BuildLog = "run", fmt.Sprintf("%v\n%s", err, trunc(se, 4000))
			if !strings.Contains(err.Error(), "timeout") {
				e.cachePut(jc.key, encodeCached(c, nil))
			}
			return
		}
		// keep whole lines only (the process may have been killed in the middle of one)
		if err != nil {
			if k := bytes.LastIndexByte(so, '\n'); k >= 0 {
				so = so[:k+1]
			}
			c.BuildLog = fmt.Sprintf("driver ended early (%v); answers so far are kept\n%s", err, trunc(se, 2000))
		}
		c.Out = ParseDriverOutput(so)
		if err == nil {
			e.cachePut(jc.key, encodeCached(c, so))
		}
	})
}

var reJavaRan = regexp.MustCompile(`(?m)^RAN (\d+) FAILED (\d+)$`)

func (javaTarget) RunTests(e *Env, cells []*Cell) {
	var todo []*javaCell
	var prepMu sync.Mutex
	parallel(len(cells), func(i int) {
		c := cells[i]
		if len(c.Files) == 0 {
			return
		}
		key := c.key(e, "test")
		if b, ok := e.cacheGet(key); ok {
			p := strings.SplitN(string(b), "\x00", 3)
			if len(p) == 3 {
				c.TestOK = p[0] == "ok"
				c.TestRan, _ = strconv.Atoi(p[1])
				c.TestLog = p[2]
				return
			}
		}
		jc, err := newJavaCell(e, c, "javat")
		jc.key = key
		if err != nil {
			c.TestLog = err.Error()
			return
		}
		if len(jc.test) == 0 {
			c.TestLog = "no test/java/**Test.java emitted"
			return
		}
		prepMu.Lock()
		todo = append(todo, jc)
		prepMu.Unlock()
	})
	if len(todo) == 0 {
		return
	}
	rt, err := javaRuntime(e)
	if err != nil {
		for _, jc := range todo {
			jc.c.TestLog = "harness: " + err.Error()
		}
		return
	}
	put := func(jc *javaCell) {
		ok := "fail"
		if jc.c.TestOK {
			ok = "ok"
		}
		e.cachePut(jc.key, []byte(ok+"\x00"+strconv.Itoa(jc.c.TestRan)+"\x00"+jc.c.TestLog))
	}
	sort.Slice(todo, func(a, b int) bool { return todo[a].c.Name < todo[b].c.Name })
	batches := javaBatches(todo)
	parallel(len(batches), func(i int) {
		javaCompile(e, rt, e.tmp("javatclasses"), batches[i], true)
	})
	parallel(len(todo), func(i int) {
		jc := todo[i]
		c := jc.c
		if jc.failed {
			c.TestLog = "build of the emitted classes and tests failed:\n" + trunc([]byte(jc.log), 6000)
			put(jc)
			return
		}
		so, se, err := javaRunCapped(jc.dir, javaTestTimeout, nil, 16<<20, "java", javaCmd(rt, jc.classes, "verif.TestRunner", jc.tests...)...)
		c.TestLog = trunc(so, 6000) + trunc(se, 2000)
		failed := -1
		if m := reJavaRan.FindSubmatch(so); m != nil {
			c.TestRan, _ = strconv.Atoi(string(m[1]))
			failed, _ = strconv.Atoi(string(m[2]))
		} else {
			for _, l := range strings.Split(string(so), "\n") {
				if strings.HasPrefix(l, "PASS ") || (strings.HasPrefix(l, "FAIL ") && !strings.Contains(l, ".<")) {
					c.TestRan++
				}
			}
			c.TestLog += fmt.Sprintf("\ntest runner ended without a summary: %v", err)
		}
		c.TestOK = failed == 0 && c.TestRan > 0
		if err == nil || failed >= 0 {
			put(jc)
		}
	})
}
