package targets

import (
	"os"
	"path/filepath"
	"strings"
	"testing"
	"time"
)

// A hand-written package in the shape the emitter prints (but correct), used to exercise the driver.
const goGoodSrc = `// hand-written in the emitter's shape
package PKG

import (
	"bytes"
	"encoding/binary"
	"fmt"
	"os"

	"github.com/xinchentechnote/fin-proto-go/codec"
)

var _ = os.Exit

func init() {
	RegistryMsgKindFactory(1, func() codec.BinaryCodec { return &Alpha{} })
	RegistryMsgKindFactory(2, func() codec.BinaryCodec { return &Beta{} })
}

var msgKindFactoryCache = map[uint16]func() codec.BinaryCodec{}

func RegistryMsgKindFactory(kind uint16, factory func() codec.BinaryCodec) {
	msgKindFactoryCache[kind] = factory
}

func NewMsgMessageByKind(key uint16) (codec.BinaryCodec, error) {
	if factory, ok := msgKindFactoryCache[key]; ok {
		return factory(), nil
	}
	return nil, fmt.Errorf("unknown message type")
}

type Sub struct {
	X int8 ` + "`json:\"X\"`" + `
	Name string
}

func (p *Sub) Encode(buf *bytes.Buffer) error {
	if err := codec.WriteBasicType(buf, p.X); err != nil {
		return err
	}
	return codec.WriteFixedStringWithPadding(buf, p.Name, 4, '0', true)
}

func (p *Sub) Decode(buf *bytes.Buffer) error {
	if val, err := codec.ReadBasicType[int8](buf); err != nil {
		return err
	} else {
		p.X = val
	}
	if val, err := codec.ReadFixedStringTrimPadding(buf, 4, '0', true); err != nil {
		return err
	} else {
		p.Name = val
	}
	return nil
}

type Alpha struct {
	A1 uint32
}

func (p *Alpha) Encode(buf *bytes.Buffer) error { return codec.WriteBasicType(buf, p.A1) }
func (p *Alpha) Decode(buf *bytes.Buffer) error {
	v, err := codec.ReadBasicType[uint32](buf)
	p.A1 = v
	return err
}

type Beta struct {
	B1 string
}

func (p *Beta) Encode(buf *bytes.Buffer) error { return codec.WriteString[uint8](buf, p.B1) }
func (p *Beta) Decode(buf *bytes.Buffer) error {
	v, err := codec.ReadString[uint8](buf)
	p.B1 = v
	return err
}

type Msg struct {
	Kind    uint16
	BodyLen uint32
	F       float32
	D       float64
	S       string
	Fix     string
	Nums    []uint32
	Strs    []string
	Sub     *Sub
	Subs    []*Sub
	Body    codec.BinaryCodec
	Sum     uint16
}

func (p *Msg) Encode(buf *bytes.Buffer) error {
	if err := codec.WriteBasicType(buf, p.Kind); err != nil {
		return err
	}
	bodyPos := buf.Len()
	if err := codec.WriteBasicType(buf, uint32(0)); err != nil {
		return err
	}
	if err := codec.WriteBasicType(buf, p.F); err != nil {
		return err
	}
	if err := codec.WriteBasicType(buf, p.D); err != nil {
		return err
	}
	if err := codec.WriteString[uint16](buf, p.S); err != nil {
		return err
	}
	if err := codec.WriteFixedString(buf, p.Fix, 3); err != nil {
		return err
	}
	if err := codec.WriteBasicTypeList[uint16](buf, p.Nums); err != nil {
		return err
	}
	if err := codec.WriteStringList[uint16, uint16](buf, p.Strs); err != nil {
		return err
	}
	if err := p.Sub.Encode(buf); err != nil {
		return err
	}
	if err := codec.WriteObjectList[uint16](buf, p.Subs); err != nil {
		return err
	}
	bodyStart := buf.Len()
	if p.Body == nil {
		if val, err := NewMsgMessageByKind(p.Kind); err != nil {
			return err
		} else {
			p.Body = val
		}
	}
	if err := p.Body.Encode(buf); err != nil {
		return err
	}
	bodyEnd := buf.Len()
	p.BodyLen = uint32(bodyEnd - bodyStart)
	binary.BigEndian.PutUint32(buf.Bytes()[bodyPos:bodyPos+4], p.BodyLen)
	if checksumService, ok := codec.Get("SUMU16"); ok {
		p.Sum = checksumService.(codec.ChecksumService[*bytes.Buffer, uint16]).Calc(buf)
	}
	return codec.WriteBasicType(buf, p.Sum)
}

func (p *Msg) Decode(buf *bytes.Buffer) error {
	var err error
	if p.Kind, err = codec.ReadBasicType[uint16](buf); err != nil {
		return err
	}
	if p.BodyLen, err = codec.ReadBasicType[uint32](buf); err != nil {
		return err
	}
	if p.F, err = codec.ReadBasicType[float32](buf); err != nil {
		return err
	}
	if p.D, err = codec.ReadBasicType[float64](buf); err != nil {
		return err
	}
	if p.S, err = codec.ReadString[uint16](buf); err != nil {
		return err
	}
	if p.Fix, err = codec.ReadFixedString(buf, 3); err != nil {
		return err
	}
	if p.Nums, err = codec.ReadBasicTypeList[uint16, uint32](buf); err != nil {
		return err
	}
	if p.Strs, err = codec.ReadStringList[uint16, uint16](buf); err != nil {
		return err
	}
	if p.Sub == nil {
		p.Sub = &Sub{}
	}
	if err := p.Sub.Decode(buf); err != nil {
		return err
	}
	if p.Subs, err = codec.ReadObjectList[uint16](buf, func() *Sub { return &Sub{} }); err != nil {
		return err
	}
	if val, err := NewMsgMessageByKind(p.Kind); err != nil {
		return err
	} else {
		p.Body = val
	}
	if err := p.Body.Decode(buf); err != nil {
		return err
	}
	if p.Sum, err = codec.ReadBasicType[uint16](buf); err != nil {
		return err
	}
	return nil
}

// Trouble misbehaves on demand.
type Trouble struct {
	How uint8
	m   map[int]int
}

func (p *Trouble) rec(n int) int { var pad [256]byte; pad[n%256] = 1; return p.rec(n+1) + int(pad[0]) }

func (p *Trouble) Encode(buf *bytes.Buffer) error {
	switch p.How {
	case 1:
		panic("boom")
	case 2:
		os.Exit(7)
	case 3:
		for {
		}
	case 4:
		p.rec(0)
	case 5:
		buf.Write(make([]byte, 2<<20))
	case 6:
		p.m[1] = 1
	case 7:
		return fmt.Errorf("refused\nwith a second line")
	}
	return codec.WriteBasicType(buf, p.How)
}

func (p *Trouble) Decode(buf *bytes.Buffer) error {
	v, err := codec.ReadBasicType[uint8](buf)
	p.How = v
	if v == 3 {
		for {
		}
	}
	return err
}
`

const goGoodTest = `package PKG_test

import (
	"bytes"
	"testing"

	"github.com/stretchr/testify/assert"
	msg "verifgen/PKG"
)

func TestSubCodec(t *testing.T) {
	original := &msg.Sub{X: 1, Name: "xxxx"}
	var buf bytes.Buffer
	assert.NoError(t, original.Encode(&buf))
	var decoded msg.Sub
	assert.NoError(t, decoded.Decode(&buf))
	assert.Equal(t, original, &decoded)
}

func TestAlphaCodec(t *testing.T) {
	original := &msg.Alpha{A1: 4}
	var buf bytes.Buffer
	assert.NoError(t, original.Encode(&buf))
	var decoded msg.Alpha
	assert.NoError(t, decoded.Decode(&buf))
	assert.Equal(t, original, &decoded)
	t.Run("sub", func(t *testing.T) {})
}
`

func goSrc(src, pkg string) []byte { return []byte(strings.ReplaceAll(src, "PKG", pkg)) }

func goMeta(pkg string) map[string]string {
	return map[string]string{"GoPackage": pkg, "GoModule": "verifgen/" + pkg, "Root": "Msg", "Packets": "Msg"}
}

func goTestEnv(t *testing.T) *Env {
	t.Helper()
	wd, err := os.Getwd()
	if err != nil {
		t.Fatal(err)
	}
	verif, _ := filepath.Abs(filepath.Join(wd, "..", "..", ".."))
	if _, err := os.Stat(filepath.Join(verif, "runtimes", "go", "go.mod")); err != nil {
		t.Skip("runtime not found: ", err)
	}
	scratch, err := os.MkdirTemp("/var/tmp", "verif-gotest")
	if err != nil {
		t.Fatal(err)
	}
	t.Cleanup(func() { os.RemoveAll(scratch) })
	return &Env{VerifDir: verif, Scratch: scratch}
}

const goMsgValue = `P:Msg { Kind = i:u16:2 BodyLen = i:u32:0 F = f:f32:3fc00000 D = f:f64:c000000000000000 S = s:68c3a9 Fix = s:6162 ` +
	`Nums = [ i:u32:1 i:u32:ffffffff ] Strs = [ s:61 s: ] Sub = P:Sub { X = i:i8:fe Name = s:4142 } Subs = [ P:Sub { X = i:i8:7f Name = s: } ] ` +
	`Body = P:Beta { B1 = s:7a } Sum = i:u16:0 }`

// kind(2) len(4) f(4) d(8) s(2+3) fix(3) nums(2+8) strs(2+3+2) sub(1+4) subs(2+5) body(2) sum(2)
const goMsgBody = "0002" + "00000002" + "3fc00000" + "c000000000000000" + "000368c3a9" + "616220" + "000200000001ffffffff" +
	"0002" + "000161" + "0000" + "fe30304142" + "0001" + "7f30303030" + "017a"

func goSum16(hexs string) string {
	var s uint64
	for i := 0; i+1 < len(hexs); i += 2 {
		var b uint64
		for _, c := range hexs[i : i+2] {
			b <<= 4
			switch {
			case c >= '0' && c <= '9':
				b |= uint64(c - '0')
			default:
				b |= uint64(c-'a') + 10
			}
		}
		s += b * uint64(i/2+1)
	}
	s *= 0x0101010101010101
	const hexd = "0123456789abcdef"
	v := uint16(s)
	return string([]byte{hexd[v>>12], hexd[v>>8&15], hexd[v>>4&15], hexd[v&15]})
}

func TestGoRunCellsIsolation(t *testing.T) {
	e := goTestEnv(t)
	os.Setenv("VERIF_DRV_CMD_TIMEOUT_MS", "1500")
	defer os.Unsetenv("VERIF_DRV_CMD_TIMEOUT_MS")
	oldCap := goOutputCap
	goOutputCap = 1 << 20
	defer func() { goOutputCap = oldCap }()

	wire := goMsgBody + goSum16(goMsgBody)
	good := func(pkg string) *Cell {
		return &Cell{Name: pkg, Lang: "go", Meta: goMeta(pkg),
			Files: map[string][]byte{"msg.go": goSrc(goGoodSrc, pkg), "msg_test.go": []byte("package broken test file, must not matter")},
			Input: []string{
				"ENC m0 " + goMsgValue,
				"DEC m0.s0 Msg " + wire,
				"DEC m0.s1 Msg " + wire + "ffffff",
				"DEC short Msg " + wire[:len(wire)-2],
				"DEC empty Msg",
				"ENC nt P:Nope { }",
				"ENC nm P:Msg { Kind = i:u16:1 Zork = i:u8:1 }",
				"ENC nilsub P:Msg { Kind = i:u16:1 }",
				"ENC unmapped P:Msg { Kind = i:u16:9 Sub = P:Sub { } }",
				"DEC unmappeddec Msg 0009" + wire[4:],
				"ENC toolong P:Sub { X = i:i8:1 Name = s:4142434445 }",
				"ENC t1 P:Trouble { How = i:u8:1 }",
				"ENC t2 P:Trouble { How = i:u8:2 }",
				"ENC t0 P:Trouble { How = i:u8:0 }",
				"ENC t3 P:Trouble { How = i:u8:3 }",
				"ENC t4 P:Trouble { How = i:u8:4 }",
				"ENC t5 P:Trouble { How = i:u8:5 }",
				"ENC t6 P:Trouble { How = i:u8:6 }",
				"ENC t7 P:Trouble { How = i:u8:7 }",
				"DEC d2 Trouble 02",
				"DEC d3 Trouble 03",
				"ENC last P:Trouble { How = i:u8:9 }",
			}}
	}
	cells := []*Cell{
		good("good"),
		good("good"), // same package name twice in a batch
		{Name: "unused", Lang: "go", Meta: goMeta("unused"), Files: map[string][]byte{"a.go": []byte("package unused\n\nimport (\n\t\"bytes\"\n\t\"fmt\"\n\t\"encoding/binary\"\n)\n\ntype A struct{}\n\nfunc (p *A) Encode(b *bytes.Buffer) error { return nil }\n")}, Input: []string{"ENC m0 P:A { }"}},
		{Name: "syntax", Lang: "go", Meta: goMeta("syntax"), Files: map[string][]byte{"a.go": []byte("package syntax\n\ntype A struct{}\n\nfunc (p *A) Encode() error {\n--char:c is not supported for encoding--\n\treturn nil\n}\n")}, Input: []string{"ENC m0 P:A { }"}},
		{Name: "clause", Lang: "go", Meta: goMeta("clause"), Files: map[string][]byte{"a.go": []byte("package 1x\n\ntype A struct{}\n")}, Input: []string{"ENC m0 P:A { }"}},
		{Name: "mixed", Lang: "go", Meta: goMeta("mixed"), Files: map[string][]byte{"a.go": []byte("package mixed\n"), "b.go": []byte("package other\n")}, Input: []string{"ENC m0 P:A { }"}},
		{Name: "badimport", Lang: "go", Meta: goMeta("badimport"), Files: map[string][]byte{"a.go": []byte("package badimport\n\nimport _ \"example.com/nowhere/x\"\n")}, Input: []string{"ENC m0 P:A { }"}},
		{Name: "initpanic", Lang: "go", Meta: goMeta("initpanic"), Files: map[string][]byte{"a.go": []byte("package initpanic\n\ntype A struct{}\n\nfunc init() { panic(\"at init\") }\n")}, Input: []string{"ENC m0 P:A { }"}},
		{Name: "notypes", Lang: "go", Meta: goMeta("notypes"), Files: map[string][]byte{"a.go": []byte("package notypes\n\ntype lower struct{ X uint8 }\n\nvar _ lower\n")}, Input: []string{"ENC m0 P:lower { X = i:u8:1 }", "DEC d0 lower 01"}},
		{Name: "nocodec", Lang: "go", Meta: goMeta("nocodec"), Files: map[string][]byte{"a.go": []byte("package nocodec\n\ntype A struct{ X uint8 }\n")}, Input: []string{"ENC m0 P:A { X = i:u8:1 }", "DEC d0 A 01"}},
		{Name: "noinput", Lang: "go", Meta: goMeta("noinput"), Files: map[string][]byte{"a.go": []byte("package noinput\n\ntype A struct{ X uint8 }\n")}},
		{Name: "nofiles", Lang: "go", Meta: goMeta("nofiles")},
	}
	start := time.Now()
	goTarget{}.RunCells(e, cells)
	t.Logf("RunCells: %v", time.Since(start))

	by := map[string]*Cell{}
	for _, c := range cells[1:] {
		by[c.Name] = c
	}
	wantBuild := map[string]string{"unused": "imported and not used", "syntax": "syntax error", "clause": "expected 'IDENT'", "mixed": "found packages", "badimport": "example.com/nowhere"}
	for n, frag := range wantBuild {
		c := by[n]
		if c.Stage != "build" || !strings.Contains(c.BuildLog, frag) {
			t.Errorf("%s: stage %q log %q, want build / %q", n, c.Stage, c.BuildLog, frag)
		}
		if strings.HasPrefix(c.BuildLog, "#") {
			t.Errorf("%s: build log starts with the package header: %q", n, c.BuildLog)
		}
	}
	if c := by["unused"]; strings.Contains(c.BuildLog, "syntax") || strings.Contains(c.BuildLog, "1x") {
		t.Errorf("unused: foreign messages in the log: %q", c.BuildLog)
	}
	if c := by["initpanic"]; c.Stage != "run" || !strings.Contains(c.BuildLog, "at init") {
		t.Errorf("initpanic: stage %q log %q", c.Stage, c.BuildLog)
	}
	if c := by["notypes"]; c.Stage != "" || c.Out["ENC:m0"] == nil || c.Out["ENC:m0"].ErrKind != "unsupported" || !strings.HasPrefix(c.Out["ENC:m0"].ErrText, "notype lower") || c.Out["DEC:d0"].ErrKind != "unsupported" {
		t.Errorf("notypes: stage %q log %q out %+v", c.Stage, c.BuildLog, c.Out["ENC:m0"])
	}
	if c := by["nocodec"]; c.Stage != "" || c.Out["ENC:m0"] == nil || c.Out["ENC:m0"].ErrKind != "unsupported" || !strings.HasPrefix(c.Out["ENC:m0"].ErrText, "nocodec") {
		t.Errorf("nocodec: stage %q log %q out %+v", c.Stage, c.BuildLog, c.Out["ENC:m0"])
	}
	if c := by["noinput"]; c.Stage != "" || c.Out == nil || len(c.Out) != 0 {
		t.Errorf("noinput: stage %q log %q out %v", c.Stage, c.BuildLog, c.Out)
	}
	if c := by["nofiles"]; c.Stage != "" || c.Out != nil {
		t.Errorf("nofiles touched: %+v", c)
	}

	for i, c := range cells[:2] {
		if c.Stage != "" {
			t.Fatalf("good[%d]: stage %q\n%s", i, c.Stage, c.BuildLog)
		}
		o := func(k string) *Obs {
			if c.Out[k] == nil {
				t.Fatalf("good[%d]: no answer to %s; have %d answers", i, k, len(c.Out))
			}
			return c.Out[k]
		}
		if got := o("ENC:m0"); got.Kind != "ENC" || got.Hex != wire {
			t.Errorf("good[%d] ENC m0:\n got %s %s\nwant %s", i, got.Kind, got.Raw, wire)
		}
		for _, k := range []string{"DEC:m0.s0", "DEC:m0.s1"} {
			d := o(k)
			if d.Kind != "DEC" || d.Pos != len(wire)/2 || d.Hex != wire || d.Tree() == nil {
				t.Errorf("good[%d] %s: %+v", i, k, d)
				continue
			}
			flat := d.Raw
			for _, frag := range []string{"P:Msg {", "Kind = i:2", "BodyLen = i:2", "F = f:3ff8000000000000", "D = f:c000000000000000", "S = s:68c3a9", "Fix = s:6162",
				"Nums = [ i:1 i:4294967295 ]", "Strs = [ s:61 s: ]", "Sub = P:Sub { X = i:-2 Name = s:4142 }", "Subs = [ P:Sub { X = i:127 Name = s: } ]", "Body = P:Beta { B1 = s:7a }"} {
				if !strings.Contains(flat, frag) {
					t.Errorf("good[%d] %s: dump lacks %q: %s", i, k, frag, flat)
				}
			}
		}
		for _, k := range []string{"DEC:short", "DEC:empty", "ENC:unmapped", "DEC:unmappeddec", "ENC:toolong", "ENC:nilsub", "ENC:t1", "ENC:t2", "ENC:t3", "ENC:t4", "ENC:t5", "ENC:t6", "ENC:t7", "DEC:d3"} {
			if got := o(k); got.Kind != "ERR" || got.ErrKind != "error" {
				t.Errorf("good[%d] %s: want ERR error, got %s", i, k, got.Raw)
			}
		}
		if got := o("ENC:nt"); got.ErrKind != "unsupported" || got.ErrText != "notype Nope" {
			t.Errorf("good[%d] nt: %s", i, got.Raw)
		}
		if got := o("ENC:nm"); got.ErrKind != "unsupported" || got.ErrText != "nomember Msg.Zork" {
			t.Errorf("good[%d] nm: %s", i, got.Raw)
		}
		if got := o("ENC:unmapped"); !strings.Contains(got.ErrText, "unknown message type") {
			t.Errorf("good[%d] unmapped: %s", i, got.Raw)
		}
		if got := o("ENC:t7"); got.ErrText != "refused with a second line" {
			t.Errorf("good[%d] t7: %q", i, got.ErrText)
		}
		for k, frag := range map[string]string{"ENC:t1": "panic: boom", "ENC:t2": "process died", "ENC:t3": "still running", "ENC:t4": "stack", "ENC:t5": "output larger", "ENC:t6": "nil map", "DEC:d3": "still running"} {
			if got := o(k); !strings.Contains(got.ErrText, frag) {
				t.Errorf("good[%d] %s: %q lacks %q", i, k, got.ErrText, frag)
			}
		}
		if got := o("ENC:t0"); got.Kind != "ENC" || got.Hex != "00" {
			t.Errorf("good[%d] t0: %s", i, got.Raw)
		}
		// the re-encode of a decoded Trouble{2} kills the process: the decode itself is still reported
		if got := o("DEC:d2"); got.Kind != "DEC" || got.Pos != 1 || !strings.Contains(got.ReencErr, "process died") {
			t.Errorf("good[%d] d2: %+v", i, got)
		}
		if got := o("ENC:last"); got.Kind != "ENC" || got.Hex != "09" {
			t.Errorf("good[%d] last: %s", i, got.Raw)
		}
	}
}

func TestGoRunTests(t *testing.T) {
	e := goTestEnv(t)
	failing := strings.Replace(goGoodTest, "original := &msg.Alpha{A1: 4}", "original := &msg.Alpha{A1: 4}\n\tassert.Equal(t, 1, 2)", 1)
	cells := []*Cell{
		{Name: "pass", Lang: "go", Meta: goMeta("tgood"), Files: map[string][]byte{"msg.go": goSrc(goGoodSrc, "tgood"), "msg_test.go": goSrc(goGoodTest, "tgood")}},
		{Name: "pass2", Lang: "go", Meta: goMeta("tgood"), Files: map[string][]byte{"msg.go": goSrc(goGoodSrc, "tgood"), "msg_test.go": goSrc(goGoodTest, "tgood")}},
		{Name: "fail", Lang: "go", Meta: goMeta("tfail"), Files: map[string][]byte{"msg.go": goSrc(goGoodSrc, "tfail"), "msg_test.go": goSrc(failing, "tfail")}},
		{Name: "nobuild", Lang: "go", Meta: goMeta("tnobuild"), Files: map[string][]byte{"msg.go": []byte("package tnobuild\n\nimport \"fmt\"\n"), "msg_test.go": goSrc(goGoodTest, "tnobuild")}},
		{Name: "notests", Lang: "go", Meta: goMeta("tnotests"), Files: map[string][]byte{"msg.go": goSrc(goGoodSrc, "tnotests")}},
		{Name: "zerotests", Lang: "go", Meta: goMeta("tzero"), Files: map[string][]byte{"msg.go": goSrc(goGoodSrc, "tzero"), "msg_test.go": []byte("package tzero_test\n")}},
		{Name: "hang", Lang: "go", Meta: goMeta("thang"), Files: map[string][]byte{"msg.go": goSrc(goGoodSrc, "thang"), "msg_test.go": []byte("package thang_test\n\nimport \"testing\"\n\nfunc TestOK(t *testing.T) {}\n\nfunc TestPanics(t *testing.T) { panic(\"in test\") }\n")}},
	}
	goTarget{}.RunTests(e, cells)
	want := []struct {
		ok  bool
		ran int
	}{{true, 2}, {true, 2}, {false, 2}, {false, 0}, {false, 0}, {false, 0}, {false, 2}}
	for i, c := range cells {
		if c.TestOK != want[i].ok || c.TestRan != want[i].ran {
			t.Errorf("%s: ok=%v ran=%d, want ok=%v ran=%d\n%s", c.Name, c.TestOK, c.TestRan, want[i].ok, want[i].ran, c.TestLog)
		}
	}
	if !strings.Contains(cells[3].TestLog, "imported and not used") {
		t.Errorf("nobuild log: %s", cells[3].TestLog)
	}
}

func TestGoSplitErrors(t *testing.T) {
	mod := "/var/tmp/x/m"
	live := map[string]bool{"a": true, "ab": true, "c": true, "d": true, "e": true}
	se := "# verifgen/c\nc/c.go:6:1: syntax error: unexpected --, expected }\n# verifgen/ab\nab/b.go:5:2: \"fmt\" imported and not used\n\tab/b.go:1:1: other\n" +
		"# github.com/xinchentechnote/fin-proto-go/codec\n../x/codec.go:1:1: nothing of ours\n# verifgen/gone\ngone/g.go:1:1: dropped earlier\n"
	logs, order := goSplitErrors(se, mod, "", live)
	if len(order) != 2 || order[0] != "c" || order[1] != "ab" || !strings.HasPrefix(logs["c"], "c/c.go:6:1") || strings.Count(logs["ab"], "\n") != 2 {
		t.Errorf("compile blocks: %v %q", order, logs)
	}
	se = "d/d.go:1:9: expected 'IDENT', found 1\nfound packages e (e1.go) and f (e2.go) in /var/tmp/x/m/e\nsomething unrelated\n"
	logs, order = goSplitErrors(se, mod, "", live)
	if len(order) != 2 || logs["d"] == "" || logs["e"] == "" {
		t.Errorf("loader errors: %v %q", order, logs)
	}
	logs, order = goSplitErrors("# verifgen/cmd/a\ncmd/a/main.go:3:1: x\n", mod, "cmd/", live)
	if len(order) != 1 || order[0] != "a" || logs["a"] != "cmd/a/main.go:3:1: x\n" {
		t.Errorf("driver block: %v %q", order, logs)
	}
}
