package targets

import (
	"crypto/sha256"
	"encoding/hex"
	"fmt"
	"os"
	"path/filepath"
	"regexp"
	"sort"
	"strconv"
	"strings"
	"sync"
	"time"
)

// The Rust target: the emitted crate (lib.rs + one module per packet) is compiled with bare rustc
// against three prebuilt rlibs — the real `bytes` and `byteorder` (sources from the cargo registry)
// and the harness runtime `binary_codec` (/verif/runtimes/rust/binary_codec/lib.rs). A typed driver
// (main.rs) is generated per program by RustDriver from the declarations scraped out of the
// emitted files, compiled against the emitted crate and run on the line protocol.
type rustTarget struct{}

func init() { register(rustTarget{}) }

func (rustTarget) Lang() string { return "rust" }

const (
	rustcTimeout  = 180 * time.Second
	rustRunTimout = 300 * time.Second
)

var rustCodegen = []string{"--edition", "2021", "-C", "opt-level=0", "-C", "debuginfo=0", "-C", "codegen-units=1"}

type rustLibs struct {
	dir string
	err error
}

// rustLinkArgs are extra flags for every link step. lld starts one thread per core for a link that takes
// a few milliseconds; with 16 cells in flight that is pure overhead. Probed once (a linker that does not
// know the option makes the probe fail and the flag is dropped).
var rustLinkArgs []string

func probeRustLinker(dir string) {
	src := filepath.Join(dir, "probe.rs")
	os.WriteFile(src, []byte("fn main() {}\n"), 0o644)
	defer os.Remove(src)
	defer os.Remove(filepath.Join(dir, "probe"))
	flags := []string{"-C", "link-arg=-Wl,--threads=1"}
	args := append(append(append([]string{}, rustCodegen...), flags...), "-o", filepath.Join(dir, "probe"), src)
	if _, _, err := Run(dir, rustcTimeout, nil, nil, "rustc", args...); err == nil {
		rustLinkArgs = flags
	}
}

var (
	rustLibsMu   sync.Mutex
	rustLibsDone = map[string]*rustLibs{} // by VerifDir
)

func rustRegistrySrc(crate string) (string, error) {
	var roots []string
	if ch := os.Getenv("CARGO_HOME"); ch != "" {
		roots = append(roots, ch)
	}
	if h, err := os.UserHomeDir(); err == nil {
		roots = append(roots, filepath.Join(h, ".cargo"))
	}
	roots = append(roots, "/root/.cargo")
	for _, r := range roots {
		m, _ := filepath.Glob(filepath.Join(r, "registry", "src", "*", crate, "src", "lib.rs"))
		sort.Strings(m)
		if len(m) > 0 {
			return m[0], nil
		}
	}
	return "", fmt.Errorf("sources of %s not found under ~/.cargo/registry/src", crate)
}

// RustLibs returns the directory with libbytes.rlib, libbyteorder.rlib and libbinary_codec.rlib,
// building them when missing or when the runtime sources (or the compiler) changed.
func (e *Env) RustLibs() (string, error) {
	rustLibsMu.Lock()
	defer rustLibsMu.Unlock()
	if l, ok := rustLibsDone[e.VerifDir]; ok {
		return l.dir, l.err
	}
	l := &rustLibs{dir: filepath.Join(e.VerifDir, "build", "rust")}
	l.err = buildRustLibs(e, l.dir)
	if l.err == nil {
		probeRustLinker(l.dir)
	}
	rustLibsDone[e.VerifDir] = l
	return l.dir, l.err
}

func buildRustLibs(e *Env, dir string) error {
	ver, _, err := Run("", 30*time.Second, nil, nil, "rustc", "--version")
	if err != nil {
		return fmt.Errorf("rustc --version: %v", err)
	}
	stamp := e.runtimeHash("rust") + " " + strings.TrimSpace(string(ver)) + " " + strings.Join(rustCodegen, " ")
	names := []string{"libbytes.rlib", "libbyteorder.rlib", "libbinary_codec.rlib"}
	if b, err := os.ReadFile(filepath.Join(dir, "stamp")); err == nil && string(b) == stamp {
		ok := true
		for _, n := range names {
			if _, err := os.Stat(filepath.Join(dir, n)); err != nil {
				ok = false
			}
		}
		if ok {
			return nil
		}
	}
	if err := os.MkdirAll(dir, 0o755); err != nil {
		return err
	}
	// build in a private directory, then move into place (another vcheck process may be doing the same)
	tmp, err := os.MkdirTemp(dir, "tmp")
	if err != nil {
		return err
	}
	defer os.RemoveAll(tmp)
	bytesSrc, err := rustRegistrySrc("bytes-1.11.1")
	if err != nil {
		return err
	}
	boSrc, err := rustRegistrySrc("byteorder-1.5.0")
	if err != nil {
		return err
	}
	rc := func(args ...string) error {
		a := append(append([]string{}, rustCodegen...), args...)
		_, se, err := Run(tmp, rustcTimeout, nil, nil, "rustc", a...)
		if err != nil {
			return fmt.Errorf("rustc %s: %v\n%s", strings.Join(args, " "), err, trunc(se, 4000))
		}
		return nil
	}
	if err := rc("--crate-type", "rlib", "--crate-name", "bytes", "--cfg", `feature="std"`, "--cap-lints", "allow", "--out-dir", tmp, bytesSrc); err != nil {
		return err
	}
	if err := rc("--crate-type", "rlib", "--crate-name", "byteorder", "--cfg", `feature="std"`, "--cap-lints", "allow", "--out-dir", tmp, boSrc); err != nil {
		return err
	}
	if err := rc("--crate-type", "rlib", "--crate-name", "binary_codec", "-L", tmp, "--extern", "bytes="+filepath.Join(tmp, "libbytes.rlib"),
		"--out-dir", tmp, filepath.Join(e.Runtime("rust"), "binary_codec", "lib.rs")); err != nil {
		return err
	}
	os.Remove(filepath.Join(dir, "stamp"))
	for _, n := range names {
		if err := os.Rename(filepath.Join(tmp, n), filepath.Join(dir, n)); err != nil {
			return err
		}
	}
	return os.WriteFile(filepath.Join(dir, "stamp"), []byte(stamp), 0o644)
}

func rustExterns(libs string) []string {
	return []string{"-L", libs,
		"--extern", "binary_codec=" + filepath.Join(libs, "libbinary_codec.rlib"),
		"--extern", "bytes=" + filepath.Join(libs, "libbytes.rlib"),
		"--extern", "byteorder=" + filepath.Join(libs, "libbyteorder.rlib")}
}

// rustFirstError puts the first "error…" diagnostic (with its location lines) in front of the log.
func rustFirstError(log []byte) string {
	s := string(log)
	lines := strings.Split(s, "\n")
	for i, l := range lines {
		if strings.HasPrefix(l, "error") {
			j := i + 1
			for j < len(lines) && strings.TrimSpace(lines[j]) != "" {
				j++
			}
			first := strings.Join(lines[i:j], "\n")
			if i == 0 {
				return trunc([]byte(s), 6000)
			}
			return first + "\n\n" + trunc([]byte(s), 6000)
		}
	}
	return trunc([]byte(s), 6000)
}

// keepRust copies a cell directory for inspection when VERIF_RUST_KEEP=<dir> is set (debug aid).
func keepRust(c *Cell, dir string) {
	k := os.Getenv("VERIF_RUST_KEEP")
	if k == "" {
		return
	}
	h := sha256.Sum256([]byte(c.Name))
	name := regexp.MustCompile(`[^A-Za-z0-9_.-]+`).ReplaceAllString(c.Name, "_")
	if len(name) > 80 {
		name = name[:80]
	}
	dst := filepath.Join(k, name+"-"+hex.EncodeToString(h[:3]))
	os.MkdirAll(dst, 0o755)
	ents, _ := os.ReadDir(dir)
	for _, en := range ents {
		if en.IsDir() {
			continue
		}
		if b, err := os.ReadFile(filepath.Join(dir, en.Name())); err == nil && len(b) < 4<<20 {
			os.WriteFile(filepath.Join(dst, en.Name()), b, 0o644)
		}
	}
	os.WriteFile(filepath.Join(dst, "STAGE"), []byte(c.Stage+"\n"+c.BuildLog), 0o644)
}

func rustEnv() []string { return []string{"RUST_BACKTRACE=0"} }

// rustBuildLib compiles the emitted crate into dir/libgen.rlib.
func rustBuildLib(dir, libs string) (log []byte, err error) {
	args := append(append([]string{}, rustCodegen...), "--crate-type", "lib", "--crate-name", "gen")
	args = append(args, rustExterns(libs)...)
	args = append(args, "-A", "warnings", "--out-dir", dir, "lib.rs")
	_, se, err := Run(dir, rustcTimeout, rustEnv(), nil, "rustc", args...)
	return se, err
}

func (rustTarget) RunCells(e *Env, cells []*Cell) {
	libs, lerr := e.RustLibs()
	parallel(len(cells), func(i int) {
		c := cells[i]
		if len(c.Files) == 0 {
			return
		}
		if lerr != nil {
			c.Stage, c.BuildLog = "driver", "harness: rust runtime rlibs cannot be built: "+lerr.Error()
			return
		}
		// the driver is generated Go-side (not part of the runtime directory), so its text is part of the cache key
		mainRs, derr := RustDriver(c.R, c.Files)
		dh := sha256.Sum256([]byte(mainRs + "\x00" + strings.Join(rustCodegen, " ")))
		key := c.key(e, "run:"+hex.EncodeToString(dh[:8]))
		if b, ok := e.cacheGet(key); ok {
			decodeCached(c, b)
			return
		}
		dir := e.tmp("rs")
		c.Dir = dir
		defer func() {
			keepRust(c, dir)
			// the binaries are ~5 MB per cell: keep only the sources in the scratch directory
			os.Remove(filepath.Join(dir, "vdriver"))
			os.Remove(filepath.Join(dir, "libgen.rlib"))
		}()
		if err := WriteFiles(dir, c.Files); err != nil {
			c.Stage, c.BuildLog = "build", err.Error()
			return
		}
		if _, ok := c.Files["lib.rs"]; !ok {
			c.Stage, c.BuildLog = "build", "error: no lib.rs emitted"
			e.cachePut(key, encodeCached(c, nil))
			return
		}
		// 1. the emitted crate alone
		if se, err := rustBuildLib(dir, libs); err != nil {
			c.Stage, c.BuildLog = "build", rustFirstError(se)
			if len(se) == 0 {
				c.BuildLog = "error: rustc: " + err.Error()
			}
			if !strings.HasPrefix(err.Error(), "timeout") {
				e.cachePut(key, encodeCached(c, nil))
			}
			return
		}
		// 2. the driver, generated from the emitted declarations
		if derr != nil {
			c.Stage, c.BuildLog = "driver", "driver generation: "+derr.Error()
			return
		}
		os.WriteFile(filepath.Join(dir, "vdriver_main.rs"), []byte(mainRs), 0o644)
		args := append(append([]string{}, rustCodegen...), "--crate-type", "bin", "--crate-name", "vdriver")
		args = append(args, rustLinkArgs...)
		args = append(args, rustExterns(libs)...)
		args = append(args, "-L", dir, "--extern", "gen="+filepath.Join(dir, "libgen.rlib"), "-A", "warnings", "-o", filepath.Join(dir, "vdriver"), "vdriver_main.rs")
		if _, se, err := Run(dir, rustcTimeout, rustEnv(), nil, "rustc", args...); err != nil {
			c.Stage, c.BuildLog = "driver", rustFirstError(se)
			if len(se) == 0 {
				c.BuildLog = "rustc (driver): " + err.Error()
			}
			return // a harness fault is never cached
		}
		// 3. run
		so, se, err := runSegments(c, func(in []byte) ([]byte, []byte, error) {
			return RunCapped(dir, rustRunTimout, rustEnv(), in, MaxDriverOutput, filepath.Join(dir, "vdriver"))
		})
		if err != nil && strings.HasPrefix(err.Error(), ErrOutputLimit) {
			// the answers printed before the limit are observations like any other
			c.Out = ParseDriverOutput(so)
			c.BuildLog = err.Error() + "; answers so far are kept"
			return
		}
		if err != nil {
			// the process died (abort, stack overflow, timeout): keep what it answered before
			c.Stage, c.BuildLog = "run", fmt.Sprintf("%v\n%s", err, trunc(se, 4000))
			if !strings.HasPrefix(err.Error(), "timeout") {
				e.cachePut(key, encodeCached(c, nil))
			}
			return
		}
		c.Out = ParseDriverOutput(so)
		e.cachePut(key, encodeCached(c, so))
	})
}

var reRustTestResult = regexp.MustCompile(`test result: (\w+)\. (\d+) passed; (\d+) failed`)

func (rustTarget) RunTests(e *Env, cells []*Cell) {
	libs, lerr := e.RustLibs()
	parallel(len(cells), func(i int) {
		c := cells[i]
		if len(c.Files) == 0 {
			return
		}
		if lerr != nil {
			c.TestLog = "harness: rust runtime rlibs cannot be built: " + lerr.Error()
			return
		}
		dir := e.tmp("rst")
		c.Dir = dir
		defer os.Remove(filepath.Join(dir, "gen_tests"))
		if err := WriteFiles(dir, c.Files); err != nil {
			c.TestLog = err.Error()
			return
		}
		if _, ok := c.Files["lib.rs"]; !ok {
			c.TestLog = "no lib.rs emitted"
			return
		}
		args := append(append([]string{}, rustCodegen...), "--test", "--crate-name", "gen")
		args = append(args, rustLinkArgs...)
		args = append(args, rustExterns(libs)...)
		args = append(args, "-A", "warnings", "-o", filepath.Join(dir, "gen_tests"), "lib.rs")
		if _, se, err := Run(dir, rustcTimeout, rustEnv(), nil, "rustc", args...); err != nil {
			c.TestLog = "rustc --test: " + err.Error() + "\n" + rustFirstError(se)
			return
		}
		so, se, err := Run(dir, rustRunTimout, rustEnv(), nil, filepath.Join(dir, "gen_tests"), "--test-threads", "1")
		c.TestLog = trunc(so, 8000) + trunc(se, 4000)
		m := reRustTestResult.FindSubmatch(so)
		if m == nil {
			if err != nil {
				c.TestLog += "\n" + err.Error()
			}
			return
		}
		passed, _ := strconv.Atoi(string(m[2]))
		failed, _ := strconv.Atoi(string(m[3]))
		c.TestRan = passed + failed
		c.TestOK = err == nil && string(m[1]) == "ok" && failed == 0 && c.TestRan > 0
	})
}
