package targets

import (
	"fmt"
	"path/filepath"
	"regexp"
	"sort"
	"strings"

	"verif/engine/internal/wire"
)

// RustDriver generates the driver (main.rs) for ONE emitted crate.
//
// Rust has no reflection, so the driver is typed: the `pub struct` / `pub enum` declarations are
// scraped out of the emitted modules (they are the truth about names and Rust types — nothing is
// assumed from the DSL) and for every struct a builder (line-protocol tokens -> value), a zero
// value and a dumper (value -> line-protocol text) are printed. Builders are driven by the member
// *types*; names coming from the harness (DSL names) are matched against the scraped names after
// deleting '_' and lowercasing. The DSL program r is used to pick, for a top-level packet name, the
// struct in that packet's own module when several modules declare a struct of the same name, and to
// document the pairing in the header of the generated file. The driver holds no expected values.
func RustDriver(r *wire.RProgram, files map[string][]byte) (mainRs string, err error) {
	defer func() {
		if p := recover(); p != nil {
			err = fmt.Errorf("rust driver generator: %v", p)
		}
	}()
	sc := scrapeRust(files)
	g := &rustGen{sc: sc, r: r}
	return g.generate(), nil
}

type rsMember struct {
	Name string
	Type string // as written, spaces removed
}

type rsDecl struct {
	Mod      string
	Name     string
	IsEnum   bool
	Members  []rsMember // struct members | enum variants (Name = variant, Type = payload type)
	Uses     []string   // `use crate::x::*` of the declaring module, in order
	Ordinal  int
	resolved map[string]*rsDecl
}

func (d *rsDecl) id() string   { return d.Mod + "__" + d.Name }
func (d *rsDecl) path() string { return "gen::" + d.Mod + "::" + d.Name }

type rsScrape struct {
	Decls []*rsDecl
	byMod map[string]map[string]*rsDecl
}

var (
	reRsMod     = regexp.MustCompile(`(?m)^\s*pub\s+mod\s+(\w+)\s*;`)
	reRsUse     = regexp.MustCompile(`(?m)^\s*use\s+crate::(\w+)::\*\s*;`)
	reRsStruct  = regexp.MustCompile(`(?m)^\s*pub\s+struct\s+(\w+)\s*\{([^{}]*)\}`)
	reRsMember  = regexp.MustCompile(`(?m)^\s*pub\s+(\w+)\s*:\s*([^,\n]+?)\s*,`)
	reRsEnum    = regexp.MustCompile(`pub\s+enum\s+(\w+)\s*\{([^{}]*)\}`)
	reRsVariant = regexp.MustCompile(`(?m)^\s*(\w+)\s*\(\s*([\w:<>]+)\s*\)\s*,`)
	reRsTestMod = regexp.MustCompile(`(?m)^#\[cfg\(test\)\]`)
)

// scrapeRust collects the declarations of the modules that lib.rs declares.
func scrapeRust(files map[string][]byte) *rsScrape {
	sc := &rsScrape{byMod: map[string]map[string]*rsDecl{}}
	var mods []string
	for _, m := range reRsMod.FindAllSubmatch(files["lib.rs"], -1) {
		mods = append(mods, string(m[1]))
	}
	ord := 0
	for _, mod := range mods {
		src, ok := files[mod+".rs"]
		if !ok {
			src, ok = files[filepath.Join(mod, "mod.rs")]
		}
		if !ok {
			continue
		}
		text := string(src)
		var uses []string
		for _, u := range reRsUse.FindAllStringSubmatch(text, -1) {
			uses = append(uses, u[1])
		}
		sc.byMod[mod] = map[string]*rsDecl{}
		type found struct {
			pos int
			d   *rsDecl
		}
		var fs []found
		for _, loc := range reRsStruct.FindAllStringSubmatchIndex(text, -1) {
			d := &rsDecl{Mod: mod, Name: text[loc[2]:loc[3]], Uses: uses}
			for _, m := range reRsMember.FindAllStringSubmatch(text[loc[4]:loc[5]], -1) {
				d.Members = append(d.Members, rsMember{m[1], strings.ReplaceAll(m[2], " ", "")})
			}
			fs = append(fs, found{loc[0], d})
		}
		for _, loc := range reRsEnum.FindAllStringSubmatchIndex(text, -1) {
			d := &rsDecl{Mod: mod, Name: text[loc[2]:loc[3]], IsEnum: true, Uses: uses}
			for _, m := range reRsVariant.FindAllStringSubmatch(text[loc[4]:loc[5]], -1) {
				d.Members = append(d.Members, rsMember{m[1], m[2]})
			}
			fs = append(fs, found{loc[0], d})
		}
		sort.Slice(fs, func(a, b int) bool { return fs[a].pos < fs[b].pos })
		for _, f := range fs {
			if _, dup := sc.byMod[mod][f.d.Name]; dup {
				continue // a second declaration of the same name does not compile anyway
			}
			f.d.Ordinal = ord
			ord++
			sc.byMod[mod][f.d.Name] = f.d
			sc.Decls = append(sc.Decls, f.d)
		}
	}
	return sc
}

// resolve finds the declaration a type name refers to inside module mod: the module's own
// declarations first, then its glob imports in order, then anything of that name.
func (sc *rsScrape) resolve(from *rsDecl, name string) *rsDecl {
	if i := strings.LastIndex(name, "::"); i >= 0 {
		// crate::m::T or m::T
		parts := strings.Split(name, "::")
		if len(parts) >= 2 {
			if d := sc.byMod[parts[len(parts)-2]][parts[len(parts)-1]]; d != nil {
				return d
			}
		}
		name = name[i+2:]
	}
	if d := sc.byMod[from.Mod][name]; d != nil {
		return d
	}
	for _, u := range from.Uses {
		if d := sc.byMod[u][name]; d != nil {
			return d
		}
	}
	return nil
}

var rsInts = map[string]string{"u8": "u8", "i8": "u8", "u16": "u16", "i16": "u16", "u32": "u32", "i32": "u32", "u64": "u64", "i64": "u64",
	"usize": "usize", "isize": "usize", "u128": "u128", "i128": "u128"}

type rustGen struct {
	sc *rsScrape
	r  *wire.RProgram
	b  strings.Builder
	n  int
}

func (g *rustGen) pf(format string, a ...any) { fmt.Fprintf(&g.b, format, a...) }

func (g *rustGen) fresh(p string) string {
	g.n++
	return fmt.Sprintf("%s%d", p, g.n)
}

func vecElem(t string) (string, bool) {
	if strings.HasPrefix(t, "Vec<") && strings.HasSuffix(t, ">") {
		return t[4 : len(t)-1], true
	}
	return "", false
}

// known reports whether the driver can build and dump a value of type t (as seen from d).
func (g *rustGen) known(d *rsDecl, t string) bool {
	if e, ok := vecElem(t); ok {
		return g.known(d, e)
	}
	if _, ok := rsInts[t]; ok {
		return true
	}
	switch t {
	case "f32", "f64", "char", "String", "bool":
		return true
	}
	return g.sc.resolve(d, t) != nil
}

// buildExpr is an expression of type R<t> that consumes one value from (t, p).
func (g *rustGen) buildExpr(d *rsDecl, t string) string {
	if e, ok := vecElem(t); ok {
		return fmt.Sprintf("p_list(t, p, |t, p| %s)", g.buildExpr(d, e))
	}
	if u, ok := rsInts[t]; ok {
		if u == t {
			return fmt.Sprintf("p_int(t, p).map(|x| x as %s)", t)
		}
		return fmt.Sprintf("p_int(t, p).map(|x| x as %s as %s)", u, t)
	}
	switch t {
	case "f32":
		return "p_f32(t, p)"
	case "f64":
		return "p_f64(t, p)"
	case "char":
		return "p_char(t, p)"
	case "String":
		return "p_string(t, p)"
	case "bool":
		return "p_int(t, p).map(|x| x != 0)"
	}
	if x := g.sc.resolve(d, t); x != nil {
		return fmt.Sprintf("build_%s(t, p)", x.id())
	}
	return fmt.Sprintf("bad(\"unsupported membertype %s\")", t)
}

// zeroExpr is an expression of type R<t>: the value of a member the command does not mention.
func (g *rustGen) zeroExpr(d *rsDecl, t string) string {
	if _, ok := vecElem(t); ok {
		return "ok(Vec::new())"
	}
	if _, ok := rsInts[t]; ok {
		return "ok(0)"
	}
	switch t {
	case "f32", "f64":
		return "ok(0.0)"
	case "char":
		return "ok('\\0')"
	case "String":
		return "ok(String::new())"
	case "bool":
		return "ok(false)"
	}
	if x := g.sc.resolve(d, t); x != nil {
		return fmt.Sprintf("zero_%s()", x.id())
	}
	return fmt.Sprintf("bad(\"unsupported membertype %s\")", t)
}

// dumpStmt prints statements appending the dump of place expression e (of type t) to `o`.
func (g *rustGen) dumpStmt(d *rsDecl, t, e, ind string) string {
	if el, ok := vecElem(t); ok {
		x := g.fresh("x")
		return fmt.Sprintf("%so.push_str(\"[\");\n%sfor %s in (%s).iter() {\n%s    o.push(' ');\n%s%s}\n%so.push_str(\" ]\");\n",
			ind, ind, x, e, ind, g.dumpStmt(d, el, "(*"+x+")", ind+"    "), ind, ind)
	}
	if _, ok := rsInts[t]; ok {
		return fmt.Sprintf("%so.push_str(&format!(\"i:{}\", %s));\n", ind, e)
	}
	switch t {
	case "f32", "f64":
		return fmt.Sprintf("%so.push_str(&format!(\"f:{:x}\", ((%s) as f64).to_bits()));\n", ind, e)
	case "char":
		return fmt.Sprintf("%so.push_str(&format!(\"c:{}\", (%s) as u32));\n", ind, e)
	case "String":
		return fmt.Sprintf("%so.push_str(\"s:\"); o.push_str(&hexs((%s).as_bytes()));\n", ind, e)
	case "bool":
		return fmt.Sprintf("%so.push_str(if %s { \"i:1\" } else { \"i:0\" });\n", ind, e)
	}
	if x := g.sc.resolve(d, t); x != nil {
		return fmt.Sprintf("%sdump_%s(&(%s), o);\n", ind, x.id(), e)
	}
	return ind + "o.push_str(\"nil\");\n"
}

func rsNorm(s string) string { return wire.Norm(s) }

func (g *rustGen) genStruct(d *rsDecl) {
	// ---- builder
	g.pf("fn build_%s(t: &[&str], p: &mut usize) -> R<%s> {\n", d.id(), d.path())
	g.pf("    let head = tok(t, p)?;\n")
	g.pf("    if !head.starts_with(\"P:\") { return Err(format!(\"unsupported value {} where an object (%s) is expected\", head)); }\n", d.Name)
	g.pf("    let pname = &head[2..];\n")
	g.pf("    expect(t, p, \"{\")?;\n")
	var unknown *rsMember
	for i := range d.Members {
		if !g.known(d, d.Members[i].Type) {
			unknown = &d.Members[i]
			break
		}
	}
	if unknown != nil {
		m := unknown
		g.pf("    return Err(String::from(\"unsupported membertype %s.%s: %s\"));\n", d.Name, m.Name, m.Type)
		g.pf("}\n\n")
		g.pf("fn zero_%s() -> R<%s> { Err(String::from(\"unsupported membertype %s.%s: %s\")) }\n\n", d.id(), d.path(), d.Name, m.Name, m.Type)
		g.genStructDump(d)
		return
	}
	for i := range d.Members {
		g.pf("    let mut m%d = None;\n", i)
	}
	g.pf("    loop {\n")
	g.pf("        let name = tok(t, p)?;\n")
	g.pf("        if name == \"}\" { break; }\n")
	g.pf("        expect(t, p, \"=\")?;\n")
	g.pf("        match norm(name).as_str() {\n")
	{
		seen := map[string]bool{}
		for i, m := range d.Members {
			n := rsNorm(m.Name)
			if seen[n] {
				continue
			}
			seen[n] = true
			g.pf("            %q => { m%d = Some(%s?); }\n", n, i, g.buildExpr(d, m.Type))
		}
	}
	g.pf("            _ => return Err(format!(\"unsupported nomember {}.{}\", pname, name)),\n")
	g.pf("        }\n")
	g.pf("    }\n")
	g.pf("    Ok(%s {\n", d.path())
	for i, m := range d.Members {
		g.pf("        %s: match m%d { Some(v) => v, None => %s? },\n", m.Name, i, g.zeroExpr(d, m.Type))
	}
	g.pf("    })\n")
	g.pf("}\n\n")
	// ---- zero value
	g.pf("fn zero_%s() -> R<%s> {\n", d.id(), d.path())
	g.pf("    Ok(%s {\n", d.path())
	for _, m := range d.Members {
		g.pf("        %s: %s?,\n", m.Name, g.zeroExpr(d, m.Type))
	}
	g.pf("    })\n")
	g.pf("}\n\n")
	g.genStructDump(d)
}

func (g *rustGen) genStructDump(d *rsDecl) {
	g.pf("fn dump_%s(v: &%s, o: &mut String) {\n", d.id(), d.path())
	g.pf("    o.push_str(\"P:%s {\");\n", d.Name)
	for _, m := range d.Members {
		g.pf("    o.push_str(\" %s = \");\n", m.Name)
		g.b.WriteString(g.dumpStmt(d, m.Type, "v."+m.Name, "    "))
	}
	g.pf("    o.push_str(\" }\");\n")
	g.pf("}\n\n")
}

func (g *rustGen) genEnum(d *rsDecl) {
	g.pf("fn build_%s(t: &[&str], p: &mut usize) -> R<%s> {\n", d.id(), d.path())
	g.pf("    let head = peek(t, *p)?;\n")
	g.pf("    if head == \"nil\" { return Err(String::from(\"unsupported nil for the match member of type %s\")); }\n", d.Name)
	g.pf("    if !head.starts_with(\"P:\") { return Err(format!(\"unsupported value {} where a match payload (%s) is expected\", head)); }\n", d.Name)
	g.pf("    match norm(&head[2..]).as_str() {\n")
	seen := map[string]bool{}
	for _, v := range d.Members {
		n := rsNorm(v.Name)
		if seen[n] {
			continue
		}
		seen[n] = true
		if x := g.sc.resolve(d, v.Type); x != nil && !x.IsEnum {
			g.pf("        %q => Ok(%s::%s(build_%s(t, p)?)),\n", n, d.path(), v.Name, x.id())
		} else {
			g.pf("        %q => Err(String::from(\"unsupported notype %s\")),\n", n, v.Type)
		}
	}
	g.pf("        _ => Err(format!(\"unsupported novariant %s.{}\", &head[2..])),\n", d.Name)
	g.pf("    }\n")
	g.pf("}\n\n")
	g.pf("fn zero_%s() -> R<%s> { Err(String::from(\"unsupported absent match member of type %s\")) }\n\n", d.id(), d.path(), d.Name)
	g.pf("fn dump_%s(v: &%s, o: &mut String) {\n", d.id(), d.path())
	g.pf("    match v {\n")
	for _, v := range d.Members {
		if x := g.sc.resolve(d, v.Type); x != nil && !x.IsEnum {
			g.pf("        %s::%s(x) => dump_%s(x, o),\n", d.path(), v.Name, x.id())
		}
	}
	g.pf("        _ => o.push_str(\"nil\"),\n")
	g.pf("    }\n")
	g.pf("}\n\n")
}

// entryPoints maps a normalised packet name to the struct that ENC / DEC of that name address.
func (g *rustGen) entryPoints() (names []string, byName map[string]*rsDecl) {
	byName = map[string]*rsDecl{}
	for _, d := range g.sc.Decls {
		if d.IsEnum {
			continue
		}
		n := rsNorm(d.Name)
		cur, ok := byName[n]
		// the struct in the module named like itself is the top-level packet of that name
		if !ok || (rsNorm(cur.Mod) != n && rsNorm(d.Mod) == n) {
			byName[n] = d
		}
	}
	for n := range byName {
		names = append(names, n)
	}
	sort.Strings(names)
	return
}

func (g *rustGen) header() {
	g.pf("// Generated by the verification harness (engine/internal/targets/rustdrv.go): typed observer for one\n")
	g.pf("// emitted crate. It speaks the driver line protocol of engine/internal/wire/tree.go on stdin/stdout and\n")
	g.pf("// contains no expected values.\n//\n// scraped declarations -> DSL packets:\n")
	dsl := map[string]string{}
	if g.r != nil {
		var walk func(pk *wire.RPacket, path string, depth int)
		walk = func(pk *wire.RPacket, path string, depth int) {
			if depth > 6 {
				return
			}
			if _, ok := dsl[rsNorm(pk.Name)]; !ok {
				var fs []string
				for _, f := range pk.Fields {
					fs = append(fs, f.Name+":"+f.Kind.String())
				}
				dsl[rsNorm(pk.Name)] = path + " { " + strings.Join(fs, " ") + " }"
			}
			for _, f := range pk.Fields {
				if f.Inline && f.Packet != nil {
					walk(f.Packet, path+"."+f.Packet.Name, depth+1)
				}
			}
		}
		for _, pk := range g.r.Order {
			walk(pk, pk.Name, 0)
		}
	}
	for _, d := range g.sc.Decls {
		kind := "struct"
		if d.IsEnum {
			kind = "enum"
		}
		var ms []string
		for _, m := range d.Members {
			ms = append(ms, m.Name+":"+m.Type)
		}
		line := fmt.Sprintf("//   %s %s { %s }", kind, d.path(), strings.Join(ms, " "))
		if p, ok := dsl[rsNorm(d.Name)]; ok && !d.IsEnum {
			line += "  <->  " + p
		}
		g.pf("%s\n", strings.ReplaceAll(line, "\n", " "))
	}
	g.pf("\n")
}

func (g *rustGen) generate() string {
	g.header()
	g.b.WriteString(rustDriverPrelude)
	for _, d := range g.sc.Decls {
		if d.IsEnum {
			g.genEnum(d)
		} else {
			g.genStruct(d)
		}
	}
	names, by := g.entryPoints()
	g.pf("fn do_enc(id: &str, t: &[&str]) -> String {\n")
	g.pf("    let head = match t.get(2) { Some(h) if h.starts_with(\"P:\") => &h[2..], _ => return format!(\"ERR {} unsupported value (an object is expected)\\n\", id) };\n")
	g.pf("    let mut pos = 2usize;\n    let p = &mut pos;\n")
	g.pf("    match norm(head).as_str() {\n")
	for _, n := range names {
		g.pf("        %q => match build_%s(t, p) { Ok(v) => enc_out(id, &v), Err(e) => format!(\"ERR {} {}\\n\", id, e) },\n", n, by[n].id())
	}
	g.pf("        _ => format!(\"ERR {} unsupported notype {}\\n\", id, head),\n")
	g.pf("    }\n}\n\n")
	g.pf("fn do_dec(id: &str, t: &[&str]) -> String {\n")
	g.pf("    let pk = match t.get(2) { Some(h) => *h, None => return format!(\"ERR {} unsupported missing packet name\\n\", id) };\n")
	g.pf("    let data = match unhex(t.get(3).copied().unwrap_or(\"\")) { Ok(d) => d, Err(e) => return format!(\"ERR {} unsupported {}\\n\", id, e) };\n")
	g.pf("    match norm(pk).as_str() {\n")
	for _, n := range names {
		g.pf("        %q => dec_out::<%s>(id, data, dump_%s),\n", n, by[n].path(), by[n].id())
	}
	g.pf("        _ => format!(\"ERR {} unsupported notype {}\\n\", id, pk),\n")
	g.pf("    }\n}\n")
	return g.b.String()
}

const rustDriverPrelude = `#![allow(warnings)]
use binary_codec::BinaryCodec;
use bytes::{Bytes, BytesMut};
use std::io::{BufRead, Write};
use std::panic::{catch_unwind, AssertUnwindSafe};

type R<T> = Result<T, String>;

fn ok<T>(v: T) -> R<T> {
    Ok(v)
}

fn bad<T>(s: &str) -> R<T> {
    Err(String::from(s))
}

fn norm(s: &str) -> String {
    s.chars().filter(|c| *c != '_').flat_map(|c| c.to_lowercase()).collect()
}

fn hexs(b: &[u8]) -> String {
    let mut s = String::with_capacity(b.len() * 2);
    for x in b {
        s.push_str(&format!("{:02x}", x));
    }
    s
}

fn unhex(s: &str) -> R<Vec<u8>> {
    let b = s.as_bytes();
    if b.len() % 2 != 0 {
        return Err(format!("bad hex (odd length {})", b.len()));
    }
    let mut out = Vec::with_capacity(b.len() / 2);
    for i in (0..b.len()).step_by(2) {
        let h = (b[i] as char).to_digit(16);
        let l = (b[i + 1] as char).to_digit(16);
        match (h, l) {
            (Some(h), Some(l)) => out.push((h * 16 + l) as u8),
            _ => return Err(String::from("bad hex digit")),
        }
    }
    Ok(out)
}

fn peek<'a>(t: &[&'a str], p: usize) -> R<&'a str> {
    match t.get(p) {
        Some(s) => Ok(*s),
        None => Err(String::from("unsupported truncated command")),
    }
}

fn tok<'a>(t: &[&'a str], p: &mut usize) -> R<&'a str> {
    let s = peek(t, *p)?;
    *p += 1;
    Ok(s)
}

fn expect(t: &[&str], p: &mut usize, what: &str) -> R<()> {
    let s = tok(t, p)?;
    if s == what {
        Ok(())
    } else {
        Err(format!("unsupported token {} where {} is expected", s, what))
    }
}

// i:<type>:<bits hex> (or c:<decimal>) -> the bit pattern
fn p_int(t: &[&str], p: &mut usize) -> R<u64> {
    let s = tok(t, p)?;
    let f: Vec<&str> = s.split(':').collect();
    if f.len() == 3 && f[0] == "i" {
        return u64::from_str_radix(f[2], 16).map_err(|_| format!("unsupported bad integer {}", s));
    }
    if f.len() == 2 && f[0] == "c" {
        return f[1].parse::<u64>().map_err(|_| format!("unsupported bad char {}", s));
    }
    Err(format!("unsupported value {} where an integer member is expected", s))
}

// f:<type>:<bits hex> -> (is f32, bits)
fn p_float(t: &[&str], p: &mut usize) -> R<(bool, u64)> {
    let s = tok(t, p)?;
    let f: Vec<&str> = s.split(':').collect();
    if f.len() == 3 && f[0] == "f" {
        let bits = u64::from_str_radix(f[2], 16).map_err(|_| format!("unsupported bad float {}", s))?;
        return Ok((f[1] == "f32", bits));
    }
    Err(format!("unsupported value {} where a float member is expected", s))
}

fn p_f32(t: &[&str], p: &mut usize) -> R<f32> {
    let (is32, bits) = p_float(t, p)?;
    Ok(if is32 { f32::from_bits(bits as u32) } else { f64::from_bits(bits) as f32 })
}

fn p_f64(t: &[&str], p: &mut usize) -> R<f64> {
    let (is32, bits) = p_float(t, p)?;
    Ok(if is32 { f32::from_bits(bits as u32) as f64 } else { f64::from_bits(bits) })
}

fn p_char(t: &[&str], p: &mut usize) -> R<char> {
    let n = p_int(t, p)?;
    Ok(n as u8 as char)
}

fn p_string(t: &[&str], p: &mut usize) -> R<String> {
    let s = tok(t, p)?;
    if s == "nil" {
        return Ok(String::new());
    }
    if !s.starts_with("s:") {
        return Err(format!("unsupported value {} where a string member is expected", s));
    }
    let b = unhex(&s[2..]).map_err(|e| format!("unsupported {}", e))?;
    String::from_utf8(b).map_err(|_| String::from("unsupported string is not UTF-8"))
}

fn p_list<T>(t: &[&str], p: &mut usize, mut f: impl FnMut(&[&str], &mut usize) -> R<T>) -> R<Vec<T>> {
    let s = tok(t, p)?;
    if s == "nil" {
        return Ok(Vec::new());
    }
    if s != "[" {
        return Err(format!("unsupported value {} where a list member is expected", s));
    }
    let mut out = Vec::new();
    loop {
        if peek(t, *p)? == "]" {
            *p += 1;
            return Ok(out);
        }
        out.push(f(t, p)?);
    }
}

fn oneline(s: &str) -> String {
    let j: Vec<&str> = s.split_whitespace().collect();
    let mut o = j.join(" ");
    if o.len() > 300 {
        let mut n = 300;
        while !o.is_char_boundary(n) {
            n -= 1;
        }
        o.truncate(n);
    }
    o
}

fn panic_text(pl: Box<dyn std::any::Any + Send>) -> String {
    let m = if let Some(s) = pl.downcast_ref::<&str>() {
        s.to_string()
    } else if let Some(s) = pl.downcast_ref::<String>() {
        s.clone()
    } else {
        String::from("(non-string payload)")
    };
    oneline(&format!("panic: {}", m))
}

static PRE: std::sync::Mutex<Vec<u8>> = std::sync::Mutex::new(Vec::new()); // one-shot prefix of the next ENC's output buffer
static SKIP: std::sync::atomic::AtomicUsize = std::sync::atomic::AtomicUsize::new(0); // one-shot: input bytes read before the next DEC

fn encode_hex<T: BinaryCodec>(v: &T) -> R<String> {
    encode_hex_after(v, &[])
}

fn encode_hex_after<T: BinaryCodec>(v: &T, pre: &[u8]) -> R<String> {
    match catch_unwind(AssertUnwindSafe(|| {
        let mut b = BytesMut::new();
        b.extend_from_slice(pre);
        v.encode(&mut b);
        b
    })) {
        Ok(b) => Ok(hexs(&b[..])),
        Err(pl) => Err(panic_text(pl)),
    }
}

static TWICE: std::sync::atomic::AtomicBool = std::sync::atomic::AtomicBool::new(false); // ENCX: answer with the second encoding

fn enc_out<T: BinaryCodec>(id: &str, v: &T) -> String {
    let pre: Vec<u8> = PRE.lock().map(|mut p| std::mem::take(&mut *p)).unwrap_or_default();
    if TWICE.swap(false, std::sync::atomic::Ordering::SeqCst) {
        if let Err(e) = encode_hex_after(v, &pre) {
            return format!("ERR {} error {}\n", id, e);
        }
        return match encode_hex(v) {
            Ok(h) => format!("ENC {} {}\n", id, h),
            Err(e) => format!("ERR {} error second encoding of the same object: {}\n", id, e),
        };
    }
    match encode_hex_after(v, &pre) {
        Ok(h) => format!("ENC {} {}\n", id, h),
        Err(e) => format!("ERR {} error {}\n", id, e),
    }
}

fn dec_out<T: BinaryCodec>(id: &str, data: Vec<u8>, dump: fn(&T, &mut String)) -> String {
    let mut b = Bytes::from(data);
    let n0 = b.len();
    let skip = SKIP.swap(0, std::sync::atomic::Ordering::SeqCst);
    if skip > 0 && skip <= b.len() {
        let _ = b.split_to(skip);
    }
    let r = catch_unwind(AssertUnwindSafe(|| T::decode(&mut b)));
    match r {
        Err(pl) => format!("ERR {} error {}\n", id, panic_text(pl)),
        Ok(None) => format!("ERR {} error None\n", id),
        Ok(Some(v)) => {
            let pos = n0 - b.len();
            let mut o = String::new();
            dump(&v, &mut o);
            let mut s = format!("DEC {} {} {}\n", id, pos, o);
            match encode_hex(&v) {
                Ok(h) => s.push_str(&format!("REENC {} {}\n", id, h)),
                Err(e) => s.push_str(&format!("REENCERR {} {}\n", id, e)),
            }
            s
        }
    }
}

fn main() {
    // panics of the code under observation are reported on the protocol, not on stderr
    std::panic::set_hook(Box::new(|_| {}));
    let stdin = std::io::stdin();
    let stdout = std::io::stdout();
    let mut out = stdout.lock();
    let mut line = String::new();
    let mut inp = stdin.lock();
    loop {
        line.clear();
        match inp.read_line(&mut line) {
            Ok(0) | Err(_) => break,
            Ok(_) => {}
        }
        let t: Vec<&str> = line.split_whitespace().collect();
        if t.is_empty() {
            continue;
        }
        if t[0] == "END" {
            break;
        }
        if t.len() < 2 {
            continue;
        }
        let id = t[1];
        let res = match t[0] {
            "ENC" => do_enc(id, &t),
            "ENCX" => {
                TWICE.store(true, std::sync::atomic::Ordering::SeqCst);
                let r = do_enc(id, &t);
                TWICE.store(false, std::sync::atomic::Ordering::SeqCst);
                r
            }
            "DEC" => do_dec(id, &t),
            "DECX" => format!("ERR {} inapplicable reuse (decode constructs a new value in this target)\n", id),
            "PRE" => {
                let d = unhex(t.get(2).copied().unwrap_or("")).unwrap_or_default();
                if let Ok(mut p) = PRE.lock() {
                    *p = d;
                }
                format!("OK {}\n", id)
            }
            "SKIP" => {
                SKIP.store(t.get(2).and_then(|s| s.parse().ok()).unwrap_or(0), std::sync::atomic::Ordering::SeqCst);
                format!("OK {}\n", id)
            }
            "UNREG" | "REG" => {
                // the application changes the checksum registry between messages
                if t.len() > 2 {
                    if t[0] == "REG" {
                        binary_codec::checksum_restore(t[2]);
                    } else {
                        binary_codec::checksum_unregister(t[2]);
                    }
                }
                format!("OK {}\n", id)
            }
            other => format!("ERR {} unsupported command {}\n", id, other),
        };
        if out.write_all(res.as_bytes()).is_err() {
            break;
        }
        let _ = out.flush();
    }
}

`
