package targets

import (
	"bytes"
	"context"
	"fmt"
	"os"
	"os/exec"
	"path/filepath"
	"regexp"
	"sort"
	"strconv"
	"strings"
	"syscall"
	"time"
	"unicode"
	"unicode/utf8"
)

// The Go target.
//
// Layout of one batch (everything under e.tmp):
//
//	<root>/m/go.mod, go.sum        scratch module "verifgen" (replace -> /verif/runtimes/go, require testify)
//	<root>/m/<dir>/*.go            one package per cell: the emitted files, untouched; <dir> is the last
//	                               element of the cell's GoModule ("verifgen/<GoPackage>"), numbered when
//	                               several cells of a batch ask for the same one
//	<root>/m/cmd/<dir>/main.go     generated: imports the cell's package, calls drv.Main with a registry of
//	                               every exported `type X struct` scraped from the emitted non-test files
//	<root>/m/bin/<dir>             the linked driver
//
// RunTests needs the import path the emitted tests spell (GoModule), so there cells whose <dir> collide go
// to different modules m0, m1, ...
// Stages: all packages are compiled by one `go build ./...`; its per-package error blocks ("# verifgen/<dir>")
// and its loader errors (lines naming <dir>/file.go) mark exactly the failing cells as Stage="build"; their
// directories are removed and the build is repeated until it is clean, so a verdict "builds" is always backed
// by an exit status 0. Then all drivers are linked by one `go build -o bin/ ./cmd/...` (a failure there is
// Stage="driver": a harness fault), then the drivers run 16-way parallel.
type goTarget struct{}

func init() { register(goTarget{}) }

func (goTarget) Lang() string { return "go" }

const goRuntimeModule = "github.com/xinchentechnote/fin-proto-go"

// go.sum of the scratch module: testify v1.11.1 and what it needs (all in the offline module cache).
const goSum = `github.com/davecgh/go-spew v1.1.1 h1:vj9j/u1bqnvCEfJOwUhtlOARqs3+rkHYY13jYWTU97c=
github.com/davecgh/go-spew v1.1.1/go.mod h1:J7Y8YcW2NihsgmVo/mv3lAwl/skON4iLHjSsI+c5H38=
github.com/pmezard/go-difflib v1.0.0 h1:4DBwDE0NGyQoBHbLQYPwSUPoCMWR5BEzIk/f1lZbAQM=
github.com/pmezard/go-difflib v1.0.0/go.mod h1:iKH77koFhYxTK1pcRnkKkqfTogsbg7gZNVY4sRDYZ/4=
github.com/stretchr/testify v1.11.1 h1:7s2iGBzp5EwR7/aIZr8ao5+dra3wiQyKjjFuvgVKu7U=
github.com/stretchr/testify v1.11.1/go.mod h1:wZwfW3scLgRK+23gO65QZefKpKQRnfz6sD981Nm4B6U=
gopkg.in/yaml.v3 v3.0.1 h1:fxVm/GzAzEWqLHuvctI91KS9hhNmmWOoWu0XTYJS7CA=
gopkg.in/yaml.v3 v3.0.1/go.mod h1:K4uyk7z7BCEPqu6E+C64Yfv1cQ7kz7rIZviUmN+EgEM=
`

func goModFile(e *Env) string {
	rt, err := filepath.Abs(e.Runtime("go"))
	if err != nil {
		rt = e.Runtime("go")
	}
	return `module verifgen

go 1.24

toolchain go1.24.2

require (
	github.com/stretchr/testify v1.11.1
	` + goRuntimeModule + ` v0.0.0
)

require (
	github.com/davecgh/go-spew v1.1.1 // indirect
	github.com/pmezard/go-difflib v1.0.0 // indirect
	gopkg.in/yaml.v3 v3.0.1 // indirect
)

replace ` + goRuntimeModule + ` => ` + rt + "\n"
}

func writeGoModule(e *Env, dir string) error {
	if err := os.MkdirAll(dir, 0o755); err != nil {
		return err
	}
	if err := os.WriteFile(filepath.Join(dir, "go.mod"), []byte(goModFile(e)), 0o644); err != nil {
		return err
	}
	return os.WriteFile(filepath.Join(dir, "go.sum"), []byte(goSum), 0o644)
}

var reGoDirOK = regexp.MustCompile(`^[A-Za-z0-9][A-Za-z0-9_.\-]*$`)

// goCellDir is the directory (= last import path element) a cell's package lives in.
func goCellDir(c *Cell) string {
	cand := []string{}
	if m := c.Meta["GoModule"]; strings.HasPrefix(m, "verifgen/") {
		cand = append(cand, strings.TrimPrefix(m, "verifgen/"))
	}
	cand = append(cand, c.Meta["GoPackage"])
	for _, d := range cand {
		// names the go command gives a meaning of its own cannot host a cell
		if reGoDirOK.MatchString(d) && d != "cmd" && d != "bin" && d != "vendor" && d != "testdata" && d != "internal" && !strings.HasSuffix(d, "_test") {
			return d
		}
	}
	var b strings.Builder
	for _, r := range c.Meta["GoPackage"] {
		if r < 128 && (unicode.IsLetter(r) || unicode.IsDigit(r)) {
			b.WriteRune(r)
		}
	}
	return "cell" + b.String()
}

type goCell struct {
	c    *Cell
	dir  string // package directory name
	mod  string // module root
	key  string
	done bool // verdict reached (failed a stage, or driven)
	out  []byte
}

func (g *goCell) fail(stage, log string) {
	g.c.Stage, g.c.BuildLog, g.done = stage, log, true
}

var reGoStruct = regexp.MustCompile(`(?m)^[ \t]*type[ \t]+([\pL_][\pL\pN_]*)[ \t]+struct\b`)

// goStructs scrapes the struct types the emitted non-test files declare (exported ones: the driver lives in
// another package, like any user of the emitted code).
func goStructs(files map[string][]byte) []string {
	seen := map[string]bool{}
	var out []string
	for n, b := range files {
		if !strings.HasSuffix(n, ".go") || strings.HasSuffix(n, "_test.go") {
			continue
		}
		for _, m := range reGoStruct.FindAllSubmatch(b, -1) {
			name := string(m[1])
			r, _ := utf8.DecodeRuneInString(name)
			if !unicode.IsUpper(r) || seen[name] {
				continue
			}
			seen[name] = true
			out = append(out, name)
		}
	}
	sort.Strings(out)
	return out
}

func goDriverMain(dir string, types []string) []byte {
	var b bytes.Buffer
	b.WriteString("// generated by the harness: generic reflective driver over the emitted package\npackage main\n\nimport (\n")
	b.WriteString("\t\"" + goRuntimeModule + "/drv\"\n")
	if len(types) == 0 {
		b.WriteString("\t_ \"verifgen/" + dir + "\"\n)\n\n")
	} else {
		b.WriteString("\temitted \"verifgen/" + dir + "\"\n)\n\n")
	}
	b.WriteString("func main() {\n\tdrv.Main(map[string]func() any{\n")
	for _, t := range types {
		fmt.Fprintf(&b, "\t\t%q: func() any { return new(emitted.%s) },\n", t, t)
	}
	b.WriteString("\t})\n}\n")
	return b.Bytes()
}

// goFiles selects what is written for a stage: the emitted *_test.go files take no part in RunCells.
func goFiles(c *Cell, withTests bool) map[string][]byte {
	out := map[string][]byte{}
	for n, b := range c.Files {
		if !withTests && strings.HasSuffix(n, "_test.go") {
			continue
		}
		out[n] = b
	}
	return out
}

// ---------------------------------------------------------------------------------------------
// go build with per-package failure attribution

// goBuildAll runs `go build <args>` in mod until it is clean, attributing every failure to a unit
// (a directory below prefix: "" for the cell packages, "cmd/" for the drivers). failed(unit, log) is
// called once per failing unit and must make the unit disappear from the next build.
// Units that are still in live when it returns built fine.
func goBuildAll(mod, prefix string, args []string, live map[string]bool, failed func(unit, log string)) {
	env := GoEnv()
	drop := func(u, log string) {
		if live[u] {
			delete(live, u)
			if strings.TrimSpace(log) == "" {
				log = "go build failed for verifgen/" + prefix + u + " without a message"
			}
			failed(u, log)
		}
	}
	for round := 0; round < 6 && len(live) > 0; round++ {
		_, se, err := RunEnv(mod, 30*time.Minute, env, nil, "go", append([]string{"build"}, args...)...)
		if err == nil {
			return
		}
		logs, order := goSplitErrors(string(se), mod, prefix, live)
		if len(order) == 0 {
			break // nothing attributable: decide unit by unit below
		}
		for _, u := range order {
			drop(u, logs[u])
		}
	}
	if len(live) == 0 {
		return
	}
	// fallback: every remaining unit on its own
	units := make([]string, 0, len(live))
	for u := range live {
		units = append(units, u)
	}
	sort.Strings(units)
	res := make([]string, len(units))
	bad := make([]bool, len(units))
	parallel(len(units), func(i int) {
		a := []string{"build"}
		for _, x := range args {
			if !strings.Contains(x, "...") {
				a = append(a, x)
			}
		}
		a = append(a, "./"+prefix+units[i]+"/")
		_, se, err := RunEnv(mod, 10*time.Minute, env, nil, "go", a...)
		if err != nil {
			bad[i] = true
			res[i] = strings.TrimSpace(string(se))
			if res[i] == "" {
				res[i] = err.Error()
			}
		}
	})
	for i, u := range units {
		if bad[i] {
			drop(u, res[i])
		}
	}
}

var reGoHeader = regexp.MustCompile(`^# (\S+)`)

// goSplitErrors splits the stderr of a go build over many packages into per-unit logs.
func goSplitErrors(se, mod, prefix string, live map[string]bool) (map[string]string, []string) {
	logs := map[string]string{}
	var order []string
	add := func(u, line string) {
		if _, ok := logs[u]; !ok {
			order = append(order, u)
			logs[u] = ""
		}
		if line != "" {
			logs[u] += line + "\n"
		}
	}
	unitOf := func(path string) string {
		// path is an import path below verifgen/ or a file path relative to the module root
		path = strings.TrimPrefix(path, "./")
		if !strings.HasPrefix(path, prefix) {
			return ""
		}
		u := strings.TrimPrefix(path, prefix)
		i := strings.IndexByte(u, '/')
		if i < 0 {
			return ""
		}
		u = u[:i]
		if live[u] {
			return u
		}
		return ""
	}
	cur, foreign := "", false
	for _, line := range strings.Split(se, "\n") {
		if strings.TrimSpace(line) == "" {
			continue
		}
		if m := reGoHeader.FindStringSubmatch(line); m != nil {
			// "# verifgen/<unit>": the compiler's (or linker's) messages for one package follow
			cur = ""
			if strings.HasPrefix(m[1], "verifgen/") {
				cur = unitOf(strings.TrimPrefix(m[1], "verifgen/") + "/")
			}
			foreign = cur == ""
			if cur != "" {
				add(cur, "") // the block exists even if it turns out to be empty; the header itself is not a message
			}
			continue
		}
		if cur != "" {
			add(cur, line)
			continue
		}
		if foreign {
			continue // a block about something that is not a live unit (the runtime, a unit already dropped)
		}
		// loader errors have no header: they name a file or the directory of the unit
		u := ""
		switch {
		case strings.HasPrefix(line, mod+"/"):
			u = unitOf(strings.TrimPrefix(line, mod+"/"))
		case strings.Contains(line, " in "+mod+"/"):
			u = unitOf(line[strings.Index(line, " in "+mod+"/")+len(" in "+mod+"/"):] + "/")
		case strings.Contains(line, "package verifgen/"):
			rest := line[strings.Index(line, "package verifgen/")+len("package verifgen/"):]
			if i := strings.IndexAny(rest, " :;,\t"); i >= 0 {
				rest = rest[:i]
			}
			u = unitOf(rest + "/")
		default:
			if i := strings.IndexByte(line, ':'); i > 0 && !strings.ContainsAny(line[:i], " \t") {
				u = unitOf(line[:i])
			}
		}
		if u != "" {
			add(u, line)
		}
	}
	return logs, order
}

// ---------------------------------------------------------------------------------------------
// RunCells

func (goTarget) RunCells(e *Env, cells []*Cell) {
	var todo []*goCell
	for _, c := range cells {
		if len(c.Files) == 0 {
			continue
		}
		key := c.key(e, "run")
		if b, ok := e.cacheGet(key); ok {
			decodeCached(c, b)
			continue
		}
		todo = append(todo, &goCell{c: c, key: key, dir: goCellDir(c)})
	}
	if len(todo) == 0 {
		return
	}
	// one module for the whole batch; RunCells is free to choose the directory (= import path) of a cell,
	// so cells that ask for the same GoPackage get a numbered directory next to each other
	mod := filepath.Join(e.tmp("go"), "m")
	used := map[string]bool{}
	for _, g := range todo {
		d := g.dir
		for k := 2; used[d]; k++ {
			d = g.dir + "_" + strconv.Itoa(k)
		}
		used[d] = true
		g.dir, g.mod = d, mod
		g.c.Dir = filepath.Join(mod, d)
	}
	goRunModule(e, mod, todo)
	for _, g := range todo {
		if g.c.Stage == "driver" {
			continue // a harness fault is not a property of the inputs: do not remember it
		}
		e.cachePut(g.key, encodeCached(g.c, g.out))
	}
}

func goRunModule(e *Env, mod string, gs []*goCell) {
	if err := writeGoModule(e, mod); err != nil {
		for _, g := range gs {
			g.fail("driver", "cannot write scratch module: "+err.Error())
		}
		return
	}
	byDir := map[string]*goCell{}
	live := map[string]bool{}
	for _, g := range gs {
		if err := WriteFiles(filepath.Join(mod, g.dir), goFiles(g.c, false)); err != nil {
			g.fail("build", err.Error())
			os.RemoveAll(filepath.Join(mod, g.dir))
			continue
		}
		byDir[g.dir] = g
		live[g.dir] = true
	}
	// 0. the runtime and the driver library on their own: if they do not build nothing below means anything
	if _, se, err := RunEnv(mod, 10*time.Minute, GoEnv(), nil, "go", "build", goRuntimeModule+"/..."); err != nil {
		for u := range live {
			byDir[u].fail("driver", "the harness runtime does not build: "+err.Error()+"\n"+trunc(se, 4000))
		}
		return
	}
	// 1. the emitted code against the runtime, without the driver
	goBuildAll(mod, "", []string{"./..."}, live, func(u, log string) {
		byDir[u].fail("build", trunc([]byte(log), 6000))
		os.RemoveAll(filepath.Join(mod, u))
	})
	// 2. + 3. link the drivers and run them, a chunk at a time (a linked driver is ~2 MB)
	units := make([]string, 0, len(live))
	for u := range live {
		units = append(units, u)
	}
	sort.Strings(units)
	bin := filepath.Join(mod, "bin")
	for start := 0; start < len(units); start += goChunk {
		end := start + goChunk
		if end > len(units) {
			end = len(units)
		}
		chunk := map[string]bool{}
		for _, u := range units[start:end] {
			g := byDir[u]
			d := filepath.Join(mod, "cmd", u)
			os.MkdirAll(d, 0o755)
			if err := os.WriteFile(filepath.Join(d, "main.go"), goDriverMain(u, goStructs(g.c.Files)), 0o644); err != nil {
				g.fail("driver", err.Error())
				os.RemoveAll(d)
				continue
			}
			chunk[u] = true
		}
		os.MkdirAll(bin, 0o755)
		goBuildAll(mod, "cmd/", []string{"-ldflags=-s -w", "-o", bin + string(filepath.Separator), "./cmd/..."}, chunk, func(u, log string) {
			byDir[u].fail("driver", trunc([]byte(log), 6000))
			os.RemoveAll(filepath.Join(mod, "cmd", u))
		})
		var run []*goCell
		for u := range chunk {
			run = append(run, byDir[u])
		}
		sort.Slice(run, func(a, b int) bool { return run[a].dir < run[b].dir })
		parallel(len(run), func(i int) {
			g := run[i]
			exe := filepath.Join(bin, g.dir)
			if _, err := os.Stat(exe); err != nil {
				g.fail("driver", "driver binary missing after a clean build: "+err.Error())
				return
			}
			out, died := goDrive(exe, filepath.Join(mod, g.dir), g.c.Input)
			os.Remove(exe)
			if died != "" {
				g.fail("run", died)
				return
			}
			g.out = out
			g.c.Out = ParseDriverOutput(out)
			g.done = true
		})
		os.RemoveAll(filepath.Join(mod, "cmd"))
		os.RemoveAll(bin)
	}
}

// ---------------------------------------------------------------------------------------------
// running a driver

var (
	goDriveTimeout = 10 * time.Minute
	goOutputCap    = 256 << 20 // bytes of driver output per process
	goMaxDeaths    = 12        // restarts per cell before the remaining commands are given up
	goChunk        = 256       // drivers linked and run per round
)

type cappedBuf struct {
	b     bytes.Buffer
	cap   int
	over  bool
	onCap func()
}

func (w *cappedBuf) Write(p []byte) (int, error) {
	if w.over {
		return len(p), nil
	}
	if w.b.Len()+len(p) > w.cap {
		w.over = true
		if w.onCap != nil {
			w.onCap()
		}
		return len(p), nil
	}
	return w.b.Write(p)
}

// goExec runs one process with a timeout, a cap on stdout and its own process group.
func goExec(dir string, timeout time.Duration, stdin []byte, name string, args ...string) (so, se []byte, err error) {
	ctx, cancel := context.WithTimeout(context.Background(), timeout)
	defer cancel()
	cmd := exec.CommandContext(ctx, name, args...)
	cmd.Dir = dir
	cmd.Env = append(os.Environ(), "GOTRACEBACK=single", "GOMAXPROCS=2", "GOMEMLIMIT=2GiB")
	cmd.SysProcAttr = &syscall.SysProcAttr{Setpgid: true}
	cmd.Stdin = bytes.NewReader(stdin)
	out := &cappedBuf{cap: goOutputCap, onCap: cancel}
	errb := &cappedBuf{cap: 1 << 20}
	cmd.Stdout, cmd.Stderr = out, errb
	cmd.WaitDelay = 5 * time.Second
	err = cmd.Run()
	switch {
	case out.over:
		err = fmt.Errorf("output larger than %d MiB", goOutputCap>>20)
	case ctx.Err() != nil:
		err = fmt.Errorf("timeout after %v", timeout)
	}
	return out.b.Bytes(), errb.b.Bytes(), err
}

// goDrive feeds the commands to the driver. When the process dies on a command (a fatal error no recover
// can catch, a non-terminating Decode stopped by the driver's watchdog, a timeout) that command is answered
// with an ERR and a new process serves the remaining ones: a command cannot make its neighbours
// unobservable. died != "" means the process cannot even serve an empty script.
func goDrive(bin, dir string, input []string) (out []byte, died string) {
	for _, seg := range segmentLines(input) {
		o, d := goDriveSegment(bin, dir, seg)
		out = append(out, o...)
		if d != "" {
			return out, d
		}
	}
	return out, ""
}

func goDriveSegment(bin, dir string, input []string) (out []byte, died string) {
	var all bytes.Buffer
	cmds := input
	for deaths := 0; ; {
		var in bytes.Buffer
		for _, l := range cmds {
			in.WriteString(l)
			in.WriteByte('\n')
		}
		in.WriteString("END\n")
		so, se, err := goExec(dir, goDriveTimeout, in.Bytes(), bin)
		if i := bytes.LastIndexByte(so, '\n'); i >= 0 {
			so = so[:i+1]
		} else {
			so = nil
		}
		answered, openDec := goAnswered(so)
		if err == nil && answered >= len(cmds) {
			all.Write(so)
			return all.Bytes(), ""
		}
		why := goDeathText(se, err)
		if answered == 0 && all.Len() == 0 {
			// does it start at all?
			if _, se2, err2 := goExec(dir, time.Minute, []byte("END\n"), bin); err2 != nil {
				return nil, fmt.Sprintf("driver process dies before the first command: %s\n%s", goDeathText(se2, err2), trunc(se2, 4000))
			}
		}
		all.Write(so)
		deaths++
		k := answered // index of the command that was being served
		if openDec {
			k = answered - 1
		}
		if k >= len(cmds) {
			// every command answered but the exit was not clean: keep what was seen
			return all.Bytes(), ""
		}
		id := goCmdID(cmds[k])
		if openDec {
			fmt.Fprintf(&all, "REENCERR %s process died: %s\n", id, why)
		} else {
			fmt.Fprintf(&all, "ERR %s error process died: %s\n", id, why)
		}
		cmds = cmds[k+1:]
		if deaths >= goMaxDeaths {
			for _, l := range cmds {
				fmt.Fprintf(&all, "ERR %s error not run: the driver process died %d times on earlier commands (last: %s)\n", goCmdID(l), deaths, why)
			}
			return all.Bytes(), ""
		}
		if len(cmds) == 0 {
			return all.Bytes(), ""
		}
	}
}

func goCmdID(line string) string {
	f := strings.Fields(line)
	if len(f) > 1 {
		return f[1]
	}
	return "?"
}

// goAnswered counts the commands a driver output answers; openDec says the last one is a DEC line
// whose REENC/REENCERR line is still missing.
func goAnswered(so []byte) (n int, openDec bool) {
	for _, l := range bytes.Split(so, []byte{'\n'}) {
		switch {
		case bytes.HasPrefix(l, []byte("ENC ")), bytes.HasPrefix(l, []byte("ERR ")), bytes.HasPrefix(l, []byte("OK ")):
			n++
			openDec = false
		case bytes.HasPrefix(l, []byte("DEC ")):
			n++
			openDec = true
		case bytes.HasPrefix(l, []byte("REENC ")), bytes.HasPrefix(l, []byte("REENCERR ")):
			openDec = false
		}
	}
	return
}

func goDeathText(se []byte, err error) string {
	pick := ""
	for _, l := range strings.Split(string(se), "\n") {
		t := strings.TrimSpace(l)
		if strings.HasPrefix(t, "FATAL ") {
			f := strings.SplitN(t, " ", 3)
			if len(f) == 3 {
				pick = f[2]
				break
			}
		}
		if pick == "" && (strings.HasPrefix(t, "fatal error:") || strings.HasPrefix(t, "panic:") || strings.HasPrefix(t, "runtime:")) {
			pick = t
		}
	}
	es := "exit status 0 before the end of the script"
	if err != nil {
		es = err.Error()
	}
	if pick == "" {
		return es
	}
	if len(pick) > 300 {
		pick = pick[:300]
	}
	return pick + " (" + es + ")"
}

// ---------------------------------------------------------------------------------------------
// RunTests: the emitted *_test.go files with the real go test and the real testify

var (
	reGoTestDone = regexp.MustCompile(`(?m)^--- (PASS|FAIL): `)
	reGoTestFail = regexp.MustCompile(`(?m)^(--- FAIL: |FAIL\b|panic: )`)
)

func (goTarget) RunTests(e *Env, cells []*Cell) {
	var todo []*goCell
	for _, c := range cells {
		if len(c.Files) == 0 {
			continue
		}
		has := false
		for n := range c.Files {
			if strings.HasSuffix(n, "_test.go") {
				has = true
			}
		}
		if !has {
			c.TestLog = "no *_test.go emitted"
			continue
		}
		key := c.key(e, "test")
		if b, ok := e.cacheGet(key); ok {
			if p := strings.SplitN(string(b), "\x00", 3); len(p) == 3 {
				c.TestOK = p[0] == "ok"
				c.TestRan, _ = strconv.Atoi(p[1])
				c.TestLog = p[2]
				continue
			}
		}
		todo = append(todo, &goCell{c: c, key: key, dir: goCellDir(c)})
	}
	if len(todo) == 0 {
		return
	}
	root := e.tmp("got")
	used := map[string]int{}
	mods := map[string]bool{}
	for _, g := range todo {
		k := used[g.dir]
		used[g.dir]++
		g.mod = filepath.Join(root, "m"+strconv.Itoa(k))
		if !mods[g.mod] {
			mods[g.mod] = true
			if err := writeGoModule(e, g.mod); err != nil {
				g.c.TestLog = "cannot write scratch module: " + err.Error()
				g.done = true
				continue
			}
		}
		g.c.Dir = filepath.Join(g.mod, g.dir)
		if err := WriteFiles(g.c.Dir, goFiles(g.c, true)); err != nil {
			g.c.TestLog = err.Error()
			g.done = true
		}
	}
	env := GoEnv()
	parallel(len(todo), func(i int) {
		g := todo[i]
		if g.done {
			return
		}
		c := g.c
		// one go test per cell: a package that does not build, a test that panics or hangs stays alone
		so, se, err := RunEnv(g.mod, 10*time.Minute, env, nil, "go", "test", "-v", "-count=1", "-timeout", "120s", "./"+g.dir+"/")
		log := string(so) + string(se)
		c.TestRan = len(reGoTestDone.FindAllStringIndex(string(so), -1))
		c.TestOK = err == nil && c.TestRan > 0 && !reGoTestFail.MatchString(string(so))
		if err != nil && strings.TrimSpace(log) == "" {
			log = err.Error()
		}
		c.TestLog = trunc([]byte(log), 8000)
		st := "fail"
		if c.TestOK {
			st = "ok"
		}
		e.cachePut(g.key, []byte(st+"\x00"+strconv.Itoa(c.TestRan)+"\x00"+c.TestLog))
	})
}
