// Package targets is the T layer: it takes the files a real generator emitted, builds them with the
// target's own toolchain against the minimal conforming runtime in /verif/runtimes/<lang>, drives
// them with the harness line protocol and returns raw observations. It holds no expected values.
package targets

import (
	"bufio"
	"bytes"
	"context"
	"crypto/sha256"
	"encoding/hex"
	"fmt"
	"io/fs"
	"os"
	"os/exec"
	"path/filepath"
	"sort"
	"strconv"
	"strings"
	"sync"
	"time"

	"verif/engine/internal/wire"
)

// Obs is what a driver reported for one command.
type Obs struct {
	Kind string // "ENC" | "DEC" | "ERR"
	Hex  string // ENC: encoded bytes; DEC: re-encoded bytes
	Pos  int    // DEC: read position after decode
	Raw  string
	dump string // DEC: the value text, parsed on first use (keeps memory proportional to what is looked at)
	tree *wire.Tree
	terr bool
	// ERR
	ErrKind  string // error | unsupported | load
	ErrText  string
	ReencErr string
}

// Tree returns the decoded value tree (nil when the driver printed something unparsable).
func (o *Obs) Tree() *wire.Tree {
	if o.tree == nil && !o.terr && o.dump != "" {
		t, err := wire.ParseTree(o.dump)
		if err != nil {
			o.terr = true
			o.ErrText = "unparsable dump: " + err.Error()
		} else {
			o.tree = t
		}
		o.dump = ""
	}
	return o.tree
}

// Cell is one (program, configuration, target) with its emitted files and, after Run, its observations.
type Cell struct {
	Name  string // program name (incl. configuration)
	Lang  string
	Files map[string][]byte
	Meta  map[string]string // target-specific inputs: go package/module, java package, root packet name
	Input []string          // driver commands (without END)
	R     *wire.RProgram    // what the program means (for targets that generate a typed driver)

	Stage    string // "" (ok) | "build" | "run"
	BuildLog string
	Out      map[string]*Obs // by command id ("ENC:id", "DEC:id")
	TestLog  string          // emitted self-tests: output
	TestOK   bool
	TestRan  int
	Dir      string
}

// Env describes where things are.
type Env struct {
	VerifDir string
	Scratch  string
	CacheDir string
	mu       sync.Mutex
	seq      int
}

func (e *Env) tmp(prefix string) string {
	e.mu.Lock()
	e.seq++
	n := e.seq
	e.mu.Unlock()
	d := filepath.Join(e.Scratch, fmt.Sprintf("%s%d", prefix, n))
	os.MkdirAll(d, 0o755)
	return d
}

// Runtime returns the runtime directory of a language.
func (e *Env) Runtime(lang string) string { return filepath.Join(e.VerifDir, "runtimes", lang) }

var (
	rtHashMu sync.Mutex
	rtHash   = map[string]string{}
)

// runtimeHash hashes the runtime sources of a language (part of every cache key).
func (e *Env) runtimeHash(lang string) string {
	rtHashMu.Lock()
	defer rtHashMu.Unlock()
	if h, ok := rtHash[lang]; ok {
		return h
	}
	h := sha256.New()
	filepath.WalkDir(e.Runtime(lang), func(p string, d fs.DirEntry, err error) error {
		if err != nil || d.IsDir() {
			return nil
		}
		if strings.Contains(p, "/build/") || strings.Contains(p, "/target/") {
			return nil
		}
		b, _ := os.ReadFile(p)
		h.Write([]byte(p))
		h.Write(b)
		return nil
	})
	s := hex.EncodeToString(h.Sum(nil))[:16]
	rtHash[lang] = s
	return s
}

func (c *Cell) key(e *Env, what string) string {
	h := sha256.New()
	h.Write([]byte(what + "\x00" + c.Lang + "\x00" + e.runtimeHash(c.Lang) + "\x00"))
	names := make([]string, 0, len(c.Files))
	for n := range c.Files {
		names = append(names, n)
	}
	sort.Strings(names)
	for _, n := range names {
		h.Write([]byte(n))
		h.Write([]byte{0})
		h.Write(c.Files[n])
		h.Write([]byte{0})
	}
	var mk []string
	for k, v := range c.Meta {
		mk = append(mk, k+"="+v)
	}
	sort.Strings(mk)
	h.Write([]byte(strings.Join(mk, ";")))
	for _, l := range c.Input {
		h.Write([]byte(l))
		h.Write([]byte{'\n'})
	}
	return hex.EncodeToString(h.Sum(nil))[:32]
}

// cached result format: first line stage, then build log length etc. Kept simple: gob-free text.
func (e *Env) cacheGet(key string) ([]byte, bool) {
	if e.CacheDir == "" {
		return nil, false
	}
	b, err := os.ReadFile(filepath.Join(e.CacheDir, key[:2], key))
	return b, err == nil
}

func (e *Env) cachePut(key string, b []byte) {
	if e.CacheDir == "" {
		return
	}
	d := filepath.Join(e.CacheDir, key[:2])
	os.MkdirAll(d, 0o755)
	tmp := filepath.Join(d, key+".tmp"+strconv.Itoa(os.Getpid()))
	if os.WriteFile(tmp, b, 0o644) == nil {
		os.Rename(tmp, filepath.Join(d, key))
	}
}

// WriteFiles writes the emitted files under dir.
func WriteFiles(dir string, files map[string][]byte) error {
	for n, b := range files {
		p := filepath.Join(dir, n)
		if err := os.MkdirAll(filepath.Dir(p), 0o755); err != nil {
			return err
		}
		if err := os.WriteFile(p, b, 0o644); err != nil {
			return err
		}
	}
	return nil
}

// Run executes a command with a timeout; returns combined output and error.
func Run(dir string, timeout time.Duration, env []string, stdin []byte, name string, args ...string) (stdout, stderr []byte, err error) {
	ctx, cancel := context.WithTimeout(context.Background(), timeout)
	defer cancel()
	cmd := exec.CommandContext(ctx, name, args...)
	cmd.Dir = dir
	if env != nil {
		cmd.Env = append(os.Environ(), env...)
	}
	if stdin != nil {
		cmd.Stdin = bytes.NewReader(stdin)
	}
	var so, se bytes.Buffer
	cmd.Stdout = &so
	cmd.Stderr = &se
	err = cmd.Run()
	if ctx.Err() != nil {
		err = fmt.Errorf("timeout after %v", timeout)
	}
	return so.Bytes(), se.Bytes(), err
}

// MaxDriverOutput bounds what one driver process may print (a decoder that accumulates state prints ever longer dumps).
const MaxDriverOutput = 48 << 20

// ErrOutputLimit is what RunCapped returns when the process was stopped for printing too much.
const ErrOutputLimit = "driver output exceeds the limit"

// RunCapped is Run with a bound on stdout: beyond max bytes the process is stopped, the whole lines printed so
// far are returned together with an error that starts with ErrOutputLimit. env is appended to os.Environ().
func RunCapped(dir string, timeout time.Duration, env []string, stdin []byte, max int, name string, args ...string) (stdout, stderr []byte, err error) {
	ctx, cancel := context.WithTimeout(context.Background(), timeout)
	defer cancel()
	cmd := exec.CommandContext(ctx, name, args...)
	cmd.Dir = dir
	cmd.WaitDelay = 5 * time.Second
	if env != nil {
		cmd.Env = append(os.Environ(), env...)
	}
	if stdin != nil {
		cmd.Stdin = bytes.NewReader(stdin)
	}
	so := &capWriter{max: max, cancel: cancel}
	se := &capWriter{max: 1 << 20}
	cmd.Stdout = so
	cmd.Stderr = se
	err = cmd.Run()
	out := so.buf.Bytes()
	switch {
	case so.over:
		err = fmt.Errorf("%s of %d bytes", ErrOutputLimit, max)
		if k := bytes.LastIndexByte(out, '\n'); k >= 0 {
			out = out[:k+1]
		} else {
			out = nil
		}
	case ctx.Err() == context.DeadlineExceeded:
		err = fmt.Errorf("timeout after %v", timeout)
	}
	return out, se.buf.Bytes(), err
}

// ParseDriverOutput turns driver output lines into observations.
func ParseDriverOutput(out []byte) map[string]*Obs {
	res := map[string]*Obs{}
	sc := bufio.NewScanner(bytes.NewReader(out))
	sc.Buffer(make([]byte, 1<<20), 1<<28)
	for sc.Scan() {
		l := sc.Text()
		f := strings.SplitN(l, " ", 3)
		if len(f) < 2 {
			continue
		}
		switch f[0] {
		case "ENC":
			h := ""
			if len(f) > 2 {
				h = strings.TrimSpace(f[2])
			}
			res["ENC:"+f[1]] = &Obs{Kind: "ENC", Hex: h, Raw: l}
		case "DEC":
			o := &Obs{Kind: "DEC", Raw: l}
			if len(f) > 2 {
				g := strings.SplitN(f[2], " ", 2)
				o.Pos, _ = strconv.Atoi(g[0])
				if len(g) > 1 {
					o.dump = g[1]
				}
			}
			res["DEC:"+f[1]] = o
		case "REENC":
			if o, ok := res["DEC:"+f[1]]; ok && len(f) > 2 {
				o.Hex = strings.TrimSpace(f[2])
			} else if ok {
				o.Hex = ""
			}
		case "REENCERR":
			if o, ok := res["DEC:"+f[1]]; ok && len(f) > 2 {
				o.ReencErr = f[2]
			}
		case "ERR":
			o := &Obs{Kind: "ERR", Raw: l}
			if len(f) > 2 {
				g := strings.SplitN(f[2], " ", 2)
				o.ErrKind = g[0]
				if len(g) > 1 {
					o.ErrText = g[1]
				}
			}
			// an ERR answers whichever command carried that id
			if _, ok := res["ENC:"+f[1]]; !ok {
				res["ENC:"+f[1]] = o
			}
			if _, ok := res["DEC:"+f[1]]; !ok {
				res["DEC:"+f[1]] = o
			}
		}
	}
	return res
}

// Target builds and runs cells of one language.
type Target interface {
	Lang() string
	// RunCells fills Stage/BuildLog/Out of every cell. Cells with no Files are skipped.
	RunCells(e *Env, cells []*Cell)
	// RunTests builds and runs the emitted self-tests of every cell (fills TestOK/TestRan/TestLog).
	RunTests(e *Env, cells []*Cell)
}

// All returns the registered targets by language.
var All = map[string]Target{}

func register(t Target) { All[t.Lang()] = t }

func inputBytes(c *Cell) []byte {
	var b bytes.Buffer
	for _, l := range c.Input {
		b.WriteString(l)
		b.WriteByte('\n')
	}
	b.WriteString("END\n")
	return b.Bytes()
}

// NewProc, as a command line, ends the current driver process: the commands after it run in a fresh one
// (process-wide state of the emitted code and of the runtime - static initialisers, registries - starts over).
const NewProc = "NEWPROC"

// segmentLines splits the commands of a cell at NewProc lines.
func segmentLines(in []string) [][]string {
	segs := [][]string{nil}
	for _, l := range in {
		if l == NewProc {
			segs = append(segs, nil)
			continue
		}
		segs[len(segs)-1] = append(segs[len(segs)-1], l)
	}
	return segs
}

// runSegments runs one driver process per segment and concatenates what they printed; it stops at the first
// process that fails and returns what was printed up to then together with the failure.
func runSegments(c *Cell, run func(stdin []byte) (so, se []byte, err error)) (so, se []byte, err error) {
	for _, seg := range segmentLines(c.Input) {
		o, e2, err := run(inputBytes(&Cell{Input: seg}))
		so = append(so, o...)
		if len(so) > 0 && so[len(so)-1] != '\n' {
			so = append(so, '\n')
		}
		se = append(se, e2...)
		if err != nil {
			return so, se, err
		}
	}
	return so, se, nil
}

func parallel(n int, f func(i int)) {
	workers := 16
	if n < workers {
		workers = n
	}
	var wg sync.WaitGroup
	ch := make(chan int)
	for w := 0; w < workers; w++ {
		wg.Add(1)
		go func() {
			defer wg.Done()
			for i := range ch {
				f(i)
			}
		}()
	}
	for i := 0; i < n; i++ {
		ch <- i
	}
	close(ch)
	wg.Wait()
}

func trunc(b []byte, n int) string {
	if len(b) > n {
		return string(b[:n]) + "…"
	}
	return string(b)
}

// GoEnv is the environment for offline go builds (see the memory note: nothing else may be set).
func GoEnv() []string {
	var out []string
	for _, e := range os.Environ() {
		if strings.HasPrefix(e, "GOFLAGS=") || strings.HasPrefix(e, "GOPROXY=") || strings.HasPrefix(e, "GOSUMDB=") || strings.HasPrefix(e, "GOTOOLCHAIN=") {
			continue
		}
		out = append(out, e)
	}
	return append(out, "GOFLAGS=-mod=mod", "GOPROXY=off")
}

// RunEnv is Run with a complete environment (not appended to os.Environ()).
func RunEnv(dir string, timeout time.Duration, fullEnv []string, stdin []byte, name string, args ...string) (stdout, stderr []byte, err error) {
	ctx, cancel := context.WithTimeout(context.Background(), timeout)
	defer cancel()
	cmd := exec.CommandContext(ctx, name, args...)
	cmd.Dir = dir
	cmd.Env = fullEnv
	if stdin != nil {
		cmd.Stdin = bytes.NewReader(stdin)
	}
	var so, se bytes.Buffer
	cmd.Stdout = &so
	cmd.Stderr = &se
	err = cmd.Run()
	if ctx.Err() != nil {
		err = fmt.Errorf("timeout after %v", timeout)
	}
	return so.Bytes(), se.Bytes(), err
}
