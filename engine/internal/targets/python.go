package targets

import (
	"fmt"
	"path/filepath"
	"regexp"
	"strconv"
	"strings"
	"time"
)

type pythonTarget struct{}

func init() { register(pythonTarget{}) }

func (pythonTarget) Lang() string { return "python" }

func pyModule(c *Cell) string {
	for n := range c.Files {
		if strings.HasSuffix(n, ".py") && !strings.HasSuffix(n, "_test.py") {
			return strings.TrimSuffix(filepath.Base(n), ".py")
		}
	}
	return ""
}

func (pythonTarget) RunCells(e *Env, cells []*Cell) {
	parallel(len(cells), func(i int) {
		c := cells[i]
		if len(c.Files) == 0 {
			return
		}
		key := c.key(e, "run")
		if b, ok := e.cacheGet(key); ok {
			decodeCached(c, b)
			return
		}
		dir := e.tmp("py")
		c.Dir = dir
		if err := WriteFiles(dir, c.Files); err != nil {
			c.Stage, c.BuildLog = "build", err.Error()
			return
		}
		mod := pyModule(c)
		// "build": byte-compile (syntax) — import errors surface as ERR load from the driver
		_, se, err := Run(dir, 60*time.Second, nil, nil, "python3", "-m", "py_compile", filepath.Join(dir, mod+".py"))
		if err != nil {
			c.Stage, c.BuildLog = "build", trunc(se, 4000)
			e.cachePut(key, encodeCached(c, nil))
			return
		}
		so, se, err := runSegments(c, func(in []byte) ([]byte, []byte, error) {
			return RunCapped(dir, 300*time.Second, []string{"PYTHONPATH=" + e.Runtime("python") + ":" + dir, "PYTHONDONTWRITEBYTECODE=1"}, in, MaxDriverOutput,
				"python3", filepath.Join(e.Runtime("python"), "driver.py"), dir, mod)
		})
		if err != nil && len(so) == 0 {
			c.Stage, c.BuildLog = "run", fmt.Sprintf("%v\n%s", err, trunc(se, 4000))
			e.cachePut(key, encodeCached(c, nil))
			return
		}
		c.Out = ParseDriverOutput(so)
		// a module that cannot be imported is a build failure of the emitted code
		for _, o := range c.Out {
			if o.Kind == "ERR" && o.ErrKind == "load" {
				c.Stage, c.BuildLog = "build", o.ErrText
				break
			}
		}
		e.cachePut(key, encodeCached(c, so))
	})
}

var rePyRan = regexp.MustCompile(`Ran (\d+) tests?`)

func (pythonTarget) RunTests(e *Env, cells []*Cell) {
	parallel(len(cells), func(i int) {
		c := cells[i]
		if len(c.Files) == 0 {
			return
		}
		dir := e.tmp("pyt")
		WriteFiles(dir, c.Files)
		var tests []string
		for n := range c.Files {
			if strings.HasSuffix(n, "_test.py") {
				tests = append(tests, n)
			}
		}
		if len(tests) == 0 {
			c.TestLog = "no *_test.py emitted"
			return
		}
		ok := true
		for _, t := range tests {
			so, se, err := Run(dir, 120*time.Second, []string{"PYTHONPATH=" + e.Runtime("python") + ":" + dir, "PYTHONDONTWRITEBYTECODE=1"}, nil, "python3", filepath.Join(dir, t), "-v")
			c.TestLog += trunc(so, 2000) + trunc(se, 6000)
			if m := rePyRan.FindSubmatch(se); m != nil {
				n, _ := strconv.Atoi(string(m[1]))
				c.TestRan += n
			}
			if err != nil || !strings.Contains(string(se), "\nOK") {
				ok = false
			}
		}
		c.TestOK = ok && c.TestRan > 0
	})
}

// encodeCached / decodeCached: the cached form is "stage\x00buildlog\x00driver output".
func encodeCached(c *Cell, out []byte) []byte {
	return []byte(c.Stage + "\x00" + c.BuildLog + "\x00" + string(out))
}

func decodeCached(c *Cell, b []byte) {
	p := strings.SplitN(string(b), "\x00", 3)
	if len(p) != 3 {
		return
	}
	c.Stage, c.BuildLog = p[0], p[1]
	if p[2] != "" {
		c.Out = ParseDriverOutput([]byte(p[2]))
	}
}
