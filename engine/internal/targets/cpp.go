package targets

import (
	"crypto/sha256"
	"encoding/hex"
	"fmt"
	"os"
	"path/filepath"
	"regexp"
	"sort"
	"strconv"
	"strings"
	"sync"
	"time"
)

// The C++ target.
//
// Per cell (16-way parallel, cells are independent: own directory, own compiler processes):
//
//	write the emitted files to <dir>; compile <dir>/_verif/tu.cpp, a translation unit that only includes the emitted
//	header, with -fsyntax-only and without any precompiled header:
//	    that fails      -> Stage "build"  (the emitted code is rejected by the toolchain; its diagnostics are the log)
//	generate the driver for this program (cppdrv.go) into <dir>/_verif/main.cpp; compile + link it under ASan+UBSan;
//	    that fails      -> Stage "driver" (harness fault: the generated driver does not fit code that itself builds)
//	run the driver on inputBytes(c); a non-zero exit, signal, sanitizer report or timeout -> Stage "run".
//
// The runtime headers are precompiled once per (compiler, flags, runtime hash) into <verif>/build/cpp/<stamp>/ and
// force-included into the driver build only. Because that force-include would supply an #include the emitted header
// forgot (e.g. include/checksum.hpp), the header-only compile is not optional: it is what decides "build".
type cppTarget struct{}

func init() { register(cppTarget{}) }

func (cppTarget) Lang() string { return "cpp" }

const (
	cppCompileTimeout = 300 * time.Second
	cppRunTimeout     = 120 * time.Second
)

func cppCompiler() string {
	if s := os.Getenv("VERIF_CXX"); s != "" {
		return s
	}
	return "g++"
}

// cppBaseFlags are used for every compile of emitted code (driver, header-only, tests).
func cppBaseFlags() []string {
	f := []string{"-std=c++17", "-O0", "-g0", "-w", "-fsanitize=address,undefined", "-fno-sanitize-recover=undefined"}
	if strings.Contains(filepath.Base(cppCompiler()), "clang") {
		return append(f, "-ferror-limit=8")
	}
	return append(f, "-fmax-errors=8")
}

var cppRunEnv = []string{
	"ASAN_OPTIONS=detect_leaks=0:abort_on_error=0:exitcode=97:allocator_may_return_null=1",
	"UBSAN_OPTIONS=print_stacktrace=1:exitcode=98",
}

// ---- precompiled runtime headers ------------------------------------------------------------------

const cppPchSource = `// precompiled by the harness: the runtime's own headers (see engine/internal/targets/cpp.go)
#include "include/bytebuf.hpp"
#include "include/codec.hpp"
#include "include/checksum.hpp"
#include "message_factory.hpp"
`

var (
	cppPchMu   sync.Mutex
	cppPchArgs = map[string][]string{} // stamp -> extra compiler arguments ("-include", path) or nil when unavailable
)

// cppPch returns the arguments that force-include the precompiled runtime headers, building them on demand into
// <verif>/build/cpp/<stamp>/ (stamp = hash of compiler version, flags, runtime sources). A PCH that cannot be built
// or does not validate is not an error: cells are then compiled without it.
func cppPch(e *Env) []string {
	if os.Getenv("VERIF_CPP_NOPCH") != "" {
		return nil
	}
	cxx := cppCompiler()
	clang := strings.Contains(filepath.Base(cxx), "clang")
	ver, _, _ := Run("", 30*time.Second, nil, nil, cxx, "--version")
	stamp := shortHash(cxx + "\x00" + string(ver) + "\x00" + strings.Join(cppBaseFlags(), " ") + "\x00" + e.runtimeHash("cpp") + "\x00" + cppPchSource)
	cppPchMu.Lock()
	defer cppPchMu.Unlock()
	if a, ok := cppPchArgs[stamp]; ok {
		return a
	}
	cppPchArgs[stamp] = nil
	dir := filepath.Join(e.VerifDir, "build", "cpp", stamp)
	if err := os.MkdirAll(dir, 0o755); err != nil {
		return nil
	}
	// the header keeps its path for good (clang records it in the PCH); files appear atomically by rename
	hdr := filepath.Join(dir, "verif_rt_pch.hpp")
	suffix := fmt.Sprintf(".tmp%d", os.Getpid())
	if _, err := os.Stat(hdr); err != nil {
		if os.WriteFile(hdr+suffix, []byte(cppPchSource), 0o644) != nil || os.Rename(hdr+suffix, hdr) != nil {
			return nil
		}
	}
	pchFile := hdr + ".gch"
	args := []string{"-include", hdr}
	if clang {
		pchFile = hdr + ".pch"
		args = []string{"-include-pch", pchFile}
	}
	if _, err := os.Stat(pchFile); err != nil {
		cmd := append(cppBaseFlags(), "-I"+e.Runtime("cpp"), "-x", "c++-header", hdr, "-o", pchFile+suffix)
		_, se, err := Run(dir, cppCompileTimeout, nil, nil, cxx, cmd...)
		if err == nil {
			err = os.Rename(pchFile+suffix, pchFile)
		}
		if err != nil {
			os.Remove(pchFile + suffix)
			fmt.Fprintf(os.Stderr, "cpp target: runtime headers do not precompile (continuing without PCH): %v\n%s\n", err, trunc(se, 2000))
			return nil
		}
	}
	// validate: a PCH the compiler would reject or silently ignore must not be used
	vdir := e.tmp("cpppch")
	defer os.RemoveAll(vdir)
	tu := filepath.Join(vdir, "probe.cpp")
	os.WriteFile(tu, []byte("int main() { ByteBuf b; b.write_u8(1); return static_cast<int>(b.size()) - 1; }\n"), 0o644)
	cmd := append(cppBaseFlags(), args...)
	cmd = append(cmd, "-Winvalid-pch", "-Werror", "-fsyntax-only", "-I"+e.Runtime("cpp"), tu)
	if _, se, err := Run(vdir, cppCompileTimeout, nil, nil, cxx, cmd...); err != nil {
		fmt.Fprintf(os.Stderr, "cpp target: precompiled runtime headers do not validate (continuing without PCH): %v\n%s\n", err, trunc(se, 2000))
		return nil
	}
	cppPchArgs[stamp] = args
	return args
}

func shortHash(s string) string {
	h := sha256.Sum256([]byte(s))
	return hex.EncodeToString(h[:])[:16]
}

// ---- cells ------------------------------------------------------------------------------------------

// cppErrors puts the compiler's error lines first (with their context), so that the log starts with the first error.
func cppErrors(se []byte) string {
	s := string(se)
	if i := strings.Index(s, "error"); i >= 0 {
		// back up to the start of that line
		j := strings.LastIndex(s[:i], "\n")
		s = s[j+1:]
	}
	if len(s) > 4000 {
		s = s[:4000] + "…"
	}
	return s
}

var reSanPath = regexp.MustCompile(`\s*\(/[^)]*\)`)

// cppRunLog puts a stable one-line description of a sanitizer report / abnormal exit first, then the raw report.
func cppRunLog(err error, se []byte) string {
	head := fmt.Sprintf("driver process failed: %v", err)
	for _, l := range strings.Split(string(se), "\n") {
		if strings.HasPrefix(l, "SUMMARY: ") {
			head = "sanitizer error: " + reSanPath.ReplaceAllString(strings.TrimPrefix(l, "SUMMARY: "), "")
			break
		}
		if i := strings.Index(l, "runtime error: "); i >= 0 && !strings.HasPrefix(head, "sanitizer") {
			head = "sanitizer error: UndefinedBehaviorSanitizer: " + l[i+len("runtime error: "):]
		}
	}
	return head + "\n" + fmt.Sprintf("%v\n", err) + trunc(se, 6000)
}

func (cppTarget) RunCells(e *Env, cells []*Cell) {
	rt := e.Runtime("cpp")
	cxx := cppCompiler()
	var pch []string
	var pchOnce sync.Once
	parallel(len(cells), func(i int) {
		c := cells[i]
		if len(c.Files) == 0 {
			return
		}
		key := c.key(e, "run:"+CppDriverVersion+":"+cxx)
		if b, ok := e.cacheGet(key); ok {
			decodeCached(c, b)
			return
		}
		pchOnce.Do(func() { pch = cppPch(e) })
		dir := e.tmp("cpp")
		c.Dir = dir
		transient := false // a timeout says nothing durable about the emitted code: such a result is not cached
		fail := func(stage, log string) {
			c.Stage, c.BuildLog = stage, log
			if !transient {
				e.cachePut(key, encodeCached(c, nil))
			}
		}
		isTimeout := func(err error) bool {
			if err != nil && strings.HasPrefix(err.Error(), "timeout") {
				transient = true
				return true
			}
			return false
		}
		if err := WriteFiles(dir, c.Files); err != nil {
			c.Stage, c.BuildLog = "build", err.Error()
			return
		}
		hdr := cppRootHeader(c.Files)
		if hdr == "" {
			fail("build", "error: the generator emitted no include/*.hpp")
			return
		}
		vd := filepath.Join(dir, "_verif")
		os.MkdirAll(vd, 0o755)
		ccEnv := []string{"TMPDIR=" + vd} // compiler temporaries stay under the scratch directory
		t0 := time.Now()
		headerOnly := func() (string, bool) {
			tu := filepath.Join(vd, "tu.cpp")
			os.WriteFile(tu, []byte(fmt.Sprintf("#include \"%s\"\n", hdr)), 0o644)
			// never with the PCH: the verdict on the emitted code must not depend on harness build products
			args := append(cppBaseFlags(), "-fsyntax-only", "-I"+rt, "-I"+dir, tu)
			_, se, err := Run(dir, cppCompileTimeout, ccEnv, nil, cxx, args...)
			if err != nil {
				isTimeout(err)
				return cppErrors(se) + fmt.Sprintf("\n(%v)", err), false
			}
			return "", true
		}
		// the verdict on the emitted code comes first and from the emitted header alone: the precompiled runtime
		// headers the driver build force-includes would supply an #include the emitted header forgot
		if log, ok := headerOnly(); !ok {
			fail("build", log)
			return
		}
		src, err := CppDriver(c.R, c.Files)
		if err != nil {
			fail("driver", "error: driver generation: "+err.Error())
			return
		}
		mainCpp := filepath.Join(vd, "main.cpp")
		os.WriteFile(mainCpp, []byte(src), 0o644)
		exe := filepath.Join(vd, "driver")
		args := append(cppBaseFlags(), pch...)
		args = append(args, "-I"+rt, "-I"+dir, mainCpp, "-o", exe)
		if _, se, err := Run(dir, cppCompileTimeout, ccEnv, nil, cxx, args...); err != nil {
			isTimeout(err)
			log, ok := headerOnly()
			if !ok {
				fail("build", log)
				return
			}
			if len(pch) > 0 {
				// the emitted header builds on its own: rule out the PCH before blaming the driver
				args = append(cppBaseFlags(), "-I"+rt, "-I"+dir, mainCpp, "-o", exe)
				_, se, err = Run(dir, cppCompileTimeout, ccEnv, nil, cxx, args...)
				isTimeout(err)
			}
			if err != nil {
				fail("driver", cppErrors(se)+fmt.Sprintf("\n(%v)", err))
				return
			}
		}
		t1 := time.Now()
		so, se, err := runSegments(c, func(in []byte) ([]byte, []byte, error) {
			return RunCapped(dir, cppRunTimeout, cppRunEnv, in, MaxDriverOutput, exe)
		})
		if tf := os.Getenv("VERIF_CPP_TIMING"); tf != "" {
			// VERIF_CPP_TIMING=<file>: one line per cell that was really built (appended)
			if f, ferr := os.OpenFile(tf, os.O_APPEND|os.O_CREATE|os.O_WRONLY, 0o644); ferr == nil {
				fmt.Fprintf(f, "cpp timing %s: build %.2fs run %.2fs (%d commands)\n", c.Name, t1.Sub(t0).Seconds(), time.Since(t1).Seconds(), len(c.Input))
				f.Close()
			}
		}
		if err != nil && strings.HasPrefix(err.Error(), ErrOutputLimit) {
			// the answers printed before the limit are observations like any other
			c.Out = ParseDriverOutput(so)
			c.BuildLog = err.Error() + "; answers so far are kept"
			return
		}
		if err != nil {
			isTimeout(err)
			fail("run", cppRunLog(err, se))
			return
		}
		c.Out = ParseDriverOutput(so)
		e.cachePut(key, encodeCached(c, so))
		if os.Getenv("VERIF_KEEP") == "" {
			os.Remove(exe)
		}
	})
}

// ---- emitted self-tests -------------------------------------------------------------------------------

var reCppRan = regexp.MustCompile(`(?m)^RAN (\d+) FAILED (\d+)\s*$`)

func (cppTarget) RunTests(e *Env, cells []*Cell) {
	rt := e.Runtime("cpp")
	cxx := cppCompiler()
	var pch []string
	var pchOnce sync.Once
	parallel(len(cells), func(i int) {
		c := cells[i]
		if len(c.Files) == 0 {
			return
		}
		key := c.key(e, "test:"+cxx)
		if b, ok := e.cacheGet(key); ok {
			p := strings.SplitN(string(b), "\x00", 3)
			if len(p) == 3 {
				c.TestOK = p[0] == "ok"
				c.TestRan, _ = strconv.Atoi(p[1])
				c.TestLog = p[2]
				return
			}
		}
		pchOnce.Do(func() { pch = cppPch(e) })
		dir := e.tmp("cppt")
		WriteFiles(dir, c.Files)
		var tests []string
		for n := range c.Files {
			if strings.HasPrefix(n, "test/") && strings.HasSuffix(n, "_test.cpp") {
				tests = append(tests, n)
			}
		}
		sort.Strings(tests)
		if len(tests) == 0 {
			c.TestLog = "no test/*_test.cpp emitted"
			return
		}
		ok := true
		transient := false // timeouts are not cached
		for k, t := range tests {
			exe := filepath.Join(dir, fmt.Sprintf("_verif_test%d", k))
			args := append(cppBaseFlags(), pch...)
			args = append(args, "-I"+rt, "-I"+dir, filepath.Join(dir, t), "-o", exe)
			ccEnv := []string{"TMPDIR=" + dir}
			_, se, err := Run(dir, cppCompileTimeout, ccEnv, nil, cxx, args...)
			if err != nil && len(pch) > 0 {
				args = append(cppBaseFlags(), "-I"+rt, "-I"+dir, filepath.Join(dir, t), "-o", exe)
				_, se, err = Run(dir, cppCompileTimeout, ccEnv, nil, cxx, args...)
			}
			if err != nil {
				transient = transient || strings.HasPrefix(err.Error(), "timeout")
				c.TestLog += "build of " + t + " failed:\n" + cppErrors(se) + fmt.Sprintf("\n(%v)\n", err)
				ok = false
				continue
			}
			so, se, err := Run(dir, cppRunTimeout, cppRunEnv, nil, exe)
			c.TestLog += trunc(so, 4000) + trunc(se, 4000)
			if m := reCppRan.FindSubmatch(so); m != nil {
				n, _ := strconv.Atoi(string(m[1]))
				f, _ := strconv.Atoi(string(m[2]))
				c.TestRan += n
				if f != 0 {
					ok = false
				}
			} else {
				// the process died before the summary: count the tests that did run to completion
				c.TestRan += strings.Count(string(so), "\n[ DONE ] ") + btoi(strings.HasPrefix(string(so), "[ DONE ] "))
				ok = false
			}
			if err != nil {
				ok = false
				transient = transient || strings.HasPrefix(err.Error(), "timeout")
				c.TestLog += fmt.Sprintf("\n(%v)\n", err)
			}
			os.Remove(exe)
		}
		c.TestOK = ok && c.TestRan > 0
		st := "fail"
		if c.TestOK {
			st = "ok"
		}
		if !transient {
			e.cachePut(key, []byte(st+"\x00"+strconv.Itoa(c.TestRan)+"\x00"+c.TestLog))
		}
	})
}

func btoi(b bool) int {
	if b {
		return 1
	}
	return 0
}
