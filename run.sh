#!/bin/bash
# usage: run.sh <Cxx> quick|thorough [extra vcheck flags]
# Rebuilds the facade overlay and vcheck from /repo's *current working tree*, then runs one check.
# exit 0 = held (possibly KNOWN-FINDING lines), 1 = VIOLATION, 2 = HARNESS-ERROR (no verdict).
set -u
ID="$1"; TIER="${2:-quick}"; shift; shift || true
VERIF="$(cd "$(dirname "$0")" && pwd)"
REPO="${VERIF_REPO:-/repo}"
unset GOSUMDB GOTOOLCHAIN
export GOFLAGS=-mod=mod GOPROXY=off
export PATH="$PATH:/usr/local/go/bin"
SCR="/var/tmp/verif.$$"
mkdir -p "$SCR" || { echo "HARNESS-ERROR cannot create $SCR"; exit 2; }
trap 'rm -rf "$SCR"' EXIT
mkdir -p "$VERIF/build/bin" "$VERIF/evidence" "$VERIF/replays"
( cd "$VERIF/engine" && cp "$REPO/go.sum" go.sum.repo 2>/dev/null; go build -o "$VERIF/build/bin/rewriter" ./cmd/rewriter ) >"$SCR/build.log" 2>&1 \
  || { echo "HARNESS-ERROR build rewriter"; cat "$SCR/build.log"; exit 2; }
"$VERIF/build/bin/rewriter" -repo "$REPO" -hooks "$VERIF/hooks" -out "$SCR/ov" >"$SCR/rewriter.log" 2>&1 \
  || { echo "HARNESS-ERROR rewriter"; cat "$SCR/rewriter.log"; exit 2; }
MODFLAG=""
if [ "$REPO" != "/repo" ]; then
  # check a scratch worktree instead of /repo: same engine, module replaced by that tree
  sed "s#=> /repo#=> $REPO#" "$VERIF/engine/go.mod" > "$SCR/go.mod"
  cp "$VERIF/engine/go.sum" "$SCR/go.sum" 2>/dev/null
  MODFLAG="-modfile=$SCR/go.mod"
fi
( cd "$VERIF/engine" && go build $MODFLAG -tags verif -overlay "$SCR/ov/overlay.json" -o "$SCR/vcheck" ./cmd/vcheck ) >"$SCR/build.log" 2>&1 \
  || { echo "HARNESS-ERROR build vcheck (does /repo compile?)"; cat "$SCR/build.log"; exit 2; }
"$SCR/vcheck" "$ID" --tier "$TIER" --scratch "$SCR" --overlay "$SCR/ov/overlay.json" --verif "$VERIF" --repo "$REPO" "$@"
rc=$?
exit $rc
